"""Path-sensitive static queries on top of terms: resolving phi-joins under an assumed
switch value (no execution: only the CFG's switch edges and dominance are consulted)."""
from .terms import strip_site, is_const, const_int, fn_terms, walk
from .cfg import switch_edge_values


def _norm(t):
    return strip_site(t)


def edge_feasible(ft, pred, blk, assume):
    """Is control flow pred->blk compatible with `assume` (dict: stripped discr term -> int)?
    Looks at the switch edges dominating `pred` and at pred's own switch."""
    conds = list(ft.conditions(pred))
    t = ft.blocks[pred]["term"]
    if t["k"] == "switch":
        vals, other = switch_edge_values(t, blk)
        excl = [int(v) for v, bb in t["targets"] if bb != blk]
        conds.append((ft.switch_term(pred), vals, other, excl, pred))
    for discr, vals, other, excl, _d in conds:
        key = _norm(discr)
        v = assume.get(key)
        if v is None:
            # comparison of an assumed term with a constant: Eq/Ne/Lt... fold
            v = fold_cmp(discr, assume)
            if v is None:
                continue
        if v in vals:
            continue
        if other and v not in excl:
            continue
        return False
    return True


def fold_cmp(t, assume):
    """fold `bin(op, X, const)` when X is assumed; returns 0/1 or None"""
    if t[0] == "bin" and t[1] in ("Eq", "Ne", "Lt", "Le", "Gt", "Ge"):
        a, b = t[2], t[3]
        av = const_int(a) if is_const(a) else assume.get(_norm(a))
        bv = const_int(b) if is_const(b) else assume.get(_norm(b))
        if av is None or bv is None:
            return None
        return int({"Eq": av == bv, "Ne": av != bv, "Lt": av < bv, "Le": av <= bv, "Gt": av > bv, "Ge": av >= bv}[t[1]])
    if t[0] == "cast" and t[1] == "IntToInt":
        return assume.get(_norm(t[2]))
    return None


def resolve_under(ft, term, assume, depth=0):
    """Follow phi nodes along the only feasible predecessor under `assume`.
    Returns a term without top-level phi, or None when several predecessors stay feasible."""
    if depth > 200:
        return None
    if term[0] != "phi":
        return term
    ops = ft.phi_operands(term)
    b = term[2]
    feas = [(p, t) for p, t in ops.items() if edge_feasible(ft, p, b, assume)]
    # distinct values only
    vals = {}
    for p, t in feas:
        r = resolve_under(ft, t, assume, depth + 1) if t[0] == "phi" else t
        if r is None:
            return None
        vals[_norm(r)] = r
    if len(vals) == 1:
        return next(iter(vals.values()))
    return None


def return_under(ft, assume):
    """term returned by the function under the assumption (single feasible value) or None"""
    rets = ft.return_blocks()
    outs = {}
    for rb in rets:
        if not block_feasible(ft, rb, assume):
            continue
        t = resolve_under(ft, ft.return_term(rb), assume)
        if t is None:
            return None
        outs[_norm(t)] = t
    if len(outs) == 1:
        return next(iter(outs.values()))
    return None


def block_feasible(ft, b, assume):
    for discr, vals, other, excl, _d in ft.conditions(b):
        key = _norm(discr)
        v = assume.get(key)
        if v is None:
            v = fold_cmp(discr, assume)
            if v is None:
                continue
        if v in vals or (other and v not in excl):
            continue
        return False
    return True


def fn_table(facts, path, domain, param=1):
    """{v: returned term} for a function of one small-integer parameter"""
    ft = fn_terms(facts, path)
    out = {}
    for v in domain:
        out[v] = return_under(ft, {("param", param): v})
    return out


def const_tree(t):
    """python value of a term made only of constants/aggregates, else None"""
    from .terms import float_of_bits
    if t is None:
        return None
    if is_const(t):
        if t[1] in ("int", "bool", "char"):
            return t[2]
        if t[1] == "float":
            return float_of_bits(t[2])
        if t[1] == "json":
            import json
            from .consts import pyval
            return pyval(json.loads(t[2]))
        return None
    if t[0] == "agg":
        vals = [const_tree(x) for x in t[3]]
        if any(v is None for v in vals):
            return None
        return vals
    return None


def uses_param(t, i):
    return any(x == ("param", i) for x in walk(t))


def find_terms(t, pred):
    return [x for x in walk(t) if pred(x)]


# ---------------------------------------------------------------------- linear normal form

def linear(t, through_casts=True):
    """(coeffs: {stripped atom: int}, const) such that t == sum(coef*atom) + const as a
    mathematical integer expression (wrap-around is the business of the overflow obligations,
    not of this shape comparison)."""
    t = strip_site(t)
    return _lin(t, through_casts)


def _add(a, b, k=1):
    out = dict(a[0])
    for x, c in b[0].items():
        out[x] = out.get(x, 0) + k * c
        if out[x] == 0:
            del out[x]
    return out, a[1] + k * b[1]


def _lin(t, tc):
    if is_const(t) and t[1] in ("int", "bool", "char"):
        return {}, t[2]
    if t[0] == "bin":
        op = t[1]
        if op in ("Add", "AddUnchecked", "AddWithOverflow"):
            return _add(_lin(t[2], tc), _lin(t[3], tc))
        if op in ("Sub", "SubUnchecked", "SubWithOverflow"):
            return _add(_lin(t[2], tc), _lin(t[3], tc), -1)
        if op in ("Mul", "MulUnchecked", "MulWithOverflow"):
            a, b = _lin(t[2], tc), _lin(t[3], tc)
            if not a[0]:
                return {x: c * a[1] for x, c in b[0].items() if c * a[1]}, a[1] * b[1]
            if not b[0]:
                return {x: c * b[1] for x, c in a[0].items() if c * b[1]}, a[1] * b[1]
        if op in ("Shl", "ShlUnchecked"):
            b = _lin(t[3], tc)
            if not b[0] and 0 <= b[1] < 128:
                a = _lin(t[2], tc)
                m = 1 << b[1]
                return {x: c * m for x, c in a[0].items()}, a[1] * m
    if t[0] == "un" and t[1] == "Neg":
        a = _lin(t[2], tc)
        return {x: -c for x, c in a[0].items()}, -a[1]
    if t[0] == "cast" and t[1] == "IntToInt" and tc:
        return _lin(t[2], tc)
    return {t: 1}, 0
