"""Path-sensitive static queries on top of terms: resolving phi-joins under an assumed
switch value (no execution: only the CFG's switch edges and dominance are consulted)."""
from .terms import strip_site, is_const, const_int, fn_terms, walk
from .cfg import switch_edge_values


def _norm(t):
    return strip_site(t)


_feas_cache = {}


def _switch_allows(ft, b, succ, assume):
    t = ft.blocks[b]["term"]
    if t["k"] != "switch":
        return True
    discr = ft.switch_term(b)
    v = assume.get(_norm(discr))
    vals, other = switch_edge_values(t, succ)
    excl = [int(x) for x, bb in t["targets"] if bb != succ]
    if v is None:
        rng = assume.get(("inrange", _norm(discr)))
        if rng is not None and rng[1] - rng[0] <= 64:
            # `match x { 0 => .., _ => .. }` on a variable known to lie in a small range
            return any(val in vals or (other and val not in excl) for val in range(rng[0], rng[1] + 1))
        v = fold_cmp(discr, assume)
        if v is None:
            return True
    return v in vals or (other and v not in excl)


def feasible_blocks(ft, assume):
    """blocks reachable from the entry along switch edges compatible with `assume`"""
    key = (id(ft), tuple(sorted((repr(k), v) for k, v in assume.items())))
    r = _feas_cache.get(key)
    if r is not None:
        return r
    tests, joins = _variant_tests(ft)
    edges = set()
    if not tests:
        seen = {0}
        st = [0]
        while st:
            b = st.pop()
            for s in ft.cfg.succ[b]:
                if _switch_allows(ft, b, s, assume):
                    edges.add((b, s))
                    if s not in seen:
                        seen.add(s)
                        st.append(s)
    else:
        # a test of the variant of a value built as a literal Ok / Err / Some / None on the way taken follows that variant
        # only (a spliced Result-returning helper followed by `?`): walk (block, ways taken into the relevant joins)
        from .terms import literal_variant
        seen = {0}
        states = set()
        st = [(0, ())]
        while st:
            b, known = st.pop()
            if (b, known) in states or len(states) > 50000:
                continue
            states.add((b, known))
            kd = dict(known)
            succs = [s for s in ft.cfg.succ[b] if _switch_allows(ft, b, s, assume)]
            if b in tests:
                x, via = tests[b]
                for _ in range(6):
                    if x[0] == "phi" and x[1] == ft.path and x[2] in kd:
                        x = ft.phi_operands(x).get(kd[x[2]], ("unknown",))
                    else:
                        break
                v_ = literal_variant(x)
                from .terms import variant_index
                idx = variant_index(ft.facts, v_, via) if v_ is not None else None
                if idx is not None:
                    tm = ft.blocks[b]["term"]
                    hit = [bb for v, bb in tm["targets"] if int(v) == idx] or [tm["otherwise"]]
                    succs = [s for s in succs if s in hit]
            for s in succs:
                edges.add((b, s))
                seen.add(s)
                k2 = dict(kd)
                if s in joins:
                    k2[s] = b
                st.append((s, tuple(sorted(k2.items()))))
    _feas_cache[key] = seen
    _feas_edges[key] = edges
    return seen


_feas_edges = {}
_vt_cache = {}


def _variant_tests(ft):
    """({switch block: (phi term, via Try::branch?)}, {join blocks of those phis}) - cached per function"""
    r = _vt_cache.get(id(ft))
    if r is not None and r[0] is ft:
        return r[1], r[2]
    from .terms import _variant_test
    tests, joins = {}, set()
    for b in ft.cfg.reach:
        tm = ft.blocks[b]["term"]
        if tm["k"] == "switch":
            vt = _variant_test(ft, ft.switch_term(b))
            if vt is not None:
                tests[b] = vt
                stack, seen_ = [vt[0]], set()
                while stack:
                    ph = stack.pop()
                    if ph in seen_:
                        continue
                    seen_.add(ph)
                    joins.add(ph[2])
                    for o in ft.phi_operands(ph).values():
                        if o[0] == "phi" and o[1] == ft.path:
                            stack.append(o)
    _vt_cache[id(ft)] = (ft, tests, joins)
    return tests, joins


def edge_feasible(ft, pred, blk, assume):
    """Is control flow pred->blk compatible with `assume` (dict: stripped discr term -> int)?
    pred must be reachable along compatible switch edges and the edge itself must be compatible."""
    if pred not in feasible_blocks(ft, assume):
        return False
    key = (id(ft), tuple(sorted((repr(k), v) for k, v in assume.items())))
    es = _feas_edges.get(key)
    return (pred, blk) in es if es is not None else _switch_allows(ft, pred, blk, assume)


def fold_cmp(t, assume):
    """fold `bin(op, X, const)` when X is assumed; returns 0/1 or None"""
    if t[0] == "bin" and t[1] in ("Eq", "Ne", "Lt", "Le", "Gt", "Ge"):
        a, b = t[2], t[3]
        av = const_int(a) if is_const(a) else assume.get(_norm(a))
        bv = const_int(b) if is_const(b) else assume.get(_norm(b))
        if av is None or bv is None:
            return None
        return int({"Eq": av == bv, "Ne": av != bv, "Lt": av < bv, "Le": av <= bv, "Gt": av > bv, "Ge": av >= bv}[t[1]])
    if t[0] == "cast" and t[1] == "IntToInt":
        return assume.get(_norm(t[2]))
    return None


def resolve_under(ft, term, assume, depth=0):
    """Follow phi nodes along the only feasible predecessor under `assume`.
    Returns a term without top-level phi, or None when several predecessors stay feasible."""
    if depth > 200:
        return None
    if term[0] != "phi":
        return term
    ops = ft.phi_operands(term)
    b = term[2]
    feas = [(p, t) for p, t in ops.items() if edge_feasible(ft, p, b, assume)]
    # distinct values only
    vals = {}
    for p, t in feas:
        r = resolve_under(ft, t, assume, depth + 1) if t[0] == "phi" else t
        if r is None:
            return None
        vals[_norm(r)] = r
    if len(vals) == 1:
        return next(iter(vals.values()))
    return None


def return_under(ft, assume):
    """term returned by the function under the assumption (single feasible value) or None"""
    rets = ft.return_blocks()
    outs = {}
    for rb in rets:
        if not block_feasible(ft, rb, assume):
            continue
        t = resolve_under(ft, ft.return_term(rb), assume)
        if t is None:
            return None
        outs[_norm(t)] = t
    if len(outs) == 1:
        return next(iter(outs.values()))
    return None


def block_feasible(ft, b, assume):
    return b in feasible_blocks(ft, assume)


def fn_table(facts, path, domain, param=1):
    """{v: returned term} for a function of one small-integer parameter"""
    ft = fn_terms(facts, path)
    out = {}
    for v in domain:
        out[v] = return_under(ft, {("param", param): v})
    return out


def const_tree(t):
    """python value of a term made only of constants/aggregates, else None"""
    from .terms import float_of_bits
    if t is None:
        return None
    if is_const(t):
        if t[1] in ("int", "bool", "char"):
            return t[2]
        if t[1] == "float":
            return float_of_bits(t[2])
        if t[1] == "json":
            import json
            from .consts import pyval
            return pyval(json.loads(t[2]))
        return None
    if t[0] == "agg":
        vals = [const_tree(x) for x in t[3]]
        if any(v is None for v in vals):
            return None
        return vals
    return None


def uses_param(t, i):
    return any(x == ("param", i) for x in walk(t))


def find_terms(t, pred):
    return [x for x in walk(t) if pred(x)]


# ---------------------------------------------------------------------- linear normal form

def linear(t, through_casts=True):
    """(coeffs: {stripped atom: int}, const) such that t == sum(coef*atom) + const as a
    mathematical integer expression (wrap-around is the business of the overflow obligations,
    not of this shape comparison)."""
    t = strip_site(t)
    return _lin(t, through_casts)


def _add(a, b, k=1):
    out = dict(a[0])
    for x, c in b[0].items():
        out[x] = out.get(x, 0) + k * c
        if out[x] == 0:
            del out[x]
    return out, a[1] + k * b[1]


def _lin(t, tc):
    if is_const(t) and t[1] in ("int", "bool", "char"):
        return {}, t[2]
    if t[0] == "bin":
        op = t[1]
        if op in ("Add", "AddUnchecked", "AddWithOverflow"):
            return _add(_lin(t[2], tc), _lin(t[3], tc))
        if op in ("Sub", "SubUnchecked", "SubWithOverflow"):
            return _add(_lin(t[2], tc), _lin(t[3], tc), -1)
        if op in ("Mul", "MulUnchecked", "MulWithOverflow"):
            a, b = _lin(t[2], tc), _lin(t[3], tc)
            if not a[0]:
                return {x: c * a[1] for x, c in b[0].items() if c * a[1]}, a[1] * b[1]
            if not b[0]:
                return {x: c * b[1] for x, c in a[0].items() if c * b[1]}, a[1] * b[1]
        if op in ("Shl", "ShlUnchecked"):
            b = _lin(t[3], tc)
            if not b[0] and 0 <= b[1] < 128:
                a = _lin(t[2], tc)
                m = 1 << b[1]
                return {x: c * m for x, c in a[0].items()}, a[1] * m
    if t[0] == "un" and t[1] == "Neg":
        a = _lin(t[2], tc)
        return {x: -c for x, c in a[0].items()}, -a[1]
    if t[0] == "cast" and t[1] == "IntToInt" and tc:
        return _lin(t[2], tc)
    if t[0] == "call" and isinstance(t[1], str) and t[2] and t[1].split("::")[-1] in ("expect", "unwrap") and "option::Option" in t[1]:
        # checked_add / checked_sub(..).expect(..): the sum / difference wherever it has a value
        inner = t[2][0]
        while inner[0] in ("ref", "deref"):
            inner = inner[2] if inner[0] == "ref" else inner[1]
        if inner[0] == "call" and isinstance(inner[1], str) and len(inner[2]) == 2 and inner[1].split("::")[-1] in ("checked_add", "checked_sub"):
            return _add(_lin(inner[2][0], tc), _lin(inner[2][1], tc), 1 if inner[1].endswith("checked_add") else -1)
    return {t: 1}, 0


# ---------------------------------------------------------------------- regimes

CMP = {"Eq": lambda a, b: a == b, "Ne": lambda a, b: a != b, "Lt": lambda a, b: a < b,
       "Le": lambda a, b: a <= b, "Gt": lambda a, b: a > b, "Ge": lambda a, b: a >= b}
SWAP = {"Eq": "Eq", "Ne": "Ne", "Lt": "Gt", "Le": "Ge", "Gt": "Lt", "Ge": "Le"}


def regime_assumptions(ft, var, lo, hi, extra=None):
    """Assume every switch condition that compares `var` (a term) with an integer constant and has a
    definite truth value for all var in [lo, hi].  Returns {stripped discr term: 0/1}."""
    var = strip_site(var)
    out = dict(extra or {})
    out[("inrange", var)] = (lo, hi)       # for plain `match var { c => .., _ => .. }` switches
    for b in sorted(ft.cfg.reach):
        t = ft.blocks[b]["term"]
        if t["k"] != "switch":
            continue
        d = ft.switch_term(b)
        if d[0] != "bin" or d[1] not in CMP:
            continue
        op, x, y = d[1], strip_site(d[2]), strip_site(d[3])

        def closed(t):
            # value of a constant expression (FIRST_HILBERT_RESOLUTION - 1, ...)
            if is_const(t):
                return const_int(t)
            if any(z[0] in ("param", "phi", "call", "field", "payload", "escaped") for z in walk(t)):
                return None
            try:
                return ieval(ft, t, {})
            except Undetermined:
                return None
        if x == var and closed(d[3]) is not None:
            c = closed(d[3])
        elif y == var and closed(d[2]) is not None:
            c = closed(d[2])
            op = SWAP[op]
        else:
            continue
        tl, th = CMP[op](lo, c), CMP[op](hi, c)
        # monotone comparisons: definite iff both ends agree (Eq/Ne need care)
        if op in ("Eq", "Ne"):
            if lo == hi:
                out[strip_site(d)] = int(CMP[op](lo, c))
            elif c < lo or c > hi:
                out[strip_site(d)] = int(op == "Ne")
            continue
        if tl == th:
            out[strip_site(d)] = int(tl)
    return out


def deep_resolve(ft, t, assume, memo=None, depth=0):
    """resolve phi nodes under `assume` everywhere inside a term (best effort: ambiguous phis stay)"""
    if memo is None:
        memo = {}
    if not isinstance(t, tuple) or not t or not isinstance(t[0], str):
        if isinstance(t, tuple):
            return tuple(deep_resolve(ft, x, assume, memo, depth + 1) for x in t)
        return t
    k = t
    if k in memo:
        return memo[k]
    memo[k] = t
    tag = t[0]
    if depth > 400:
        return t
    if tag == "phi":
        if t[1] != ft.path:
            return t
        r = resolve_under(ft, t, assume)
        if r is None or r == t:
            return t
        r = deep_resolve(ft, r, assume, memo, depth + 1)
    elif tag in ("const", "param", "static", "tls", "fnref", "promoted", "unknown", "escaped", "uninit"):
        r = t
    elif tag == "call":
        r = ("call", t[1], tuple(deep_resolve(ft, a, assume, memo, depth + 1) for a in t[2]), t[3])
    elif tag == "deref":
        from .terms import mk_deref
        r = mk_deref(deep_resolve(ft, t[1], assume, memo, depth + 1))
    elif tag == "field":
        from .terms import mk_field
        r = mk_field(deep_resolve(ft, t[1], assume, memo, depth + 1), t[2], t[2] if isinstance(t[2], int) else (int(t[2]) if str(t[2]).isdigit() else None))
    elif tag == "payload":
        # payload of a constructor that became visible once the join was resolved: Ok(x)? is x
        inner = deep_resolve(ft, t[2], assume, memo, depth + 1)
        if inner[0] == "agg" and inner[1] == "adt" and inner[2].endswith("::" + t[1]) and len(inner[3]) == 1:
            r = inner[3][0]
        elif inner[0] == "phi" and inner[1] == ft.path:
            # still a join: of the values feasible under the assumptions, only constructors of this variant can be meant
            lv = leaves_under(ft, inner, assume)
            same = [l for l in lv if l[0] == "agg" and l[1] == "adt" and l[2].endswith("::" + t[1]) and len(l[3]) == 1]
            rest = [l for l in lv if l not in same]
            other_variant = all((l[0] == "agg" and l[1] == "adt" and l[2].rsplit("::", 1)[-1] in ("Ok", "Err", "Some", "None")) or
                                (l[0] == "call" and isinstance(l[1], str) and l[1].endswith("::from_residual")) for l in rest)
            if len(same) == 1 and other_variant:
                r = deep_resolve(ft, same[0][3][0], assume, memo, depth + 1)
            else:
                r = ("payload", t[1], inner)
        else:
            r = ("payload", t[1], inner)
    else:
        r = tuple(deep_resolve(ft, x, assume, memo, depth + 1) if isinstance(x, tuple) else x for x in t)
    memo[k] = r
    return r


def leaves_under(ft, term, assume, seen=None):
    """all non-phi values a phi term can take along predecessor edges feasible under `assume`"""
    if seen is None:
        seen = set()
    if term[0] != "phi":
        return [term]
    if term in seen:
        return []
    seen.add(term)
    out = []
    for p, t in ft.phi_operands(term).items():
        if not edge_feasible(ft, p, term[2], assume):
            continue
        out += leaves_under(ft, t, assume, seen)
    uniq = {}
    for t in out:
        uniq.setdefault(strip_site(t), t)
    return list(uniq.values())


def returns_under(ft, assume):
    out = []
    for rb in ft.return_blocks():
        if block_feasible(ft, rb, assume):
            out += leaves_under(ft, ft.return_term(rb), assume)
    uniq = {}
    for t in out:
        uniq.setdefault(strip_site(t), t)
    return list(uniq.values())


def is_variant(t, name):
    """aggregate construction of enum variant `name` (e.g. 'Ok', 'Err', 'Some')"""
    return t[0] == "agg" and t[1] == "adt" and t[2].endswith("::" + name)


# ---------------------------------------------------------------------- inlining of trivial local calls

def _simple_summary(facts, path):
    from .terms import fn_terms as _ft
    f = facts.fns.get(path)
    if f is None or f["kind"] not in ("Fn", "AssocFn"):
        return None
    ft = _ft(facts, path)
    rbs = ft.return_blocks()
    if len(rbs) != 1:
        return None
    rt = ft.return_term(rbs[0])
    for x in walk(rt):
        if x[0] in ("phi", "unknown", "escaped", "uninit"):
            return None
    return rt


_sum_cache = {}


def inline_calls(facts, t, depth=8, memo=None, stop=()):
    """replace calls to local functions that are a single straight-line expression of their
    parameters by that expression (accessors, constructors, unit conversions, thin wrappers)"""
    from .terms import subst_params, mk_deref, mk_field
    if memo is None:
        memo = {}
    if not isinstance(t, tuple) or not t:
        return t
    if not isinstance(t[0], str):
        return tuple(inline_calls(facts, x, depth, memo, stop) for x in t)
    if t in memo:
        return memo[t]
    tag = t[0]
    if tag in ("const", "param", "phi", "static", "tls", "fnref", "promoted", "unknown", "escaped", "uninit"):
        r = t
    elif tag == "call":
        args = tuple(inline_calls(facts, a, depth, memo, stop) for a in t[2])
        r = ("call", t[1], args) + tuple(t[3:])
        if depth > 0 and isinstance(t[1], str) and t[1] in facts.fns and t[1] not in stop:
            key = (id(facts), t[1])
            if key not in _sum_cache:
                _sum_cache[key] = _simple_summary(facts, t[1])
            sm = _sum_cache[key]
            if sm is not None:
                r = subst_params(sm, {i + 1: a for i, a in enumerate(args)})
                r = inline_calls(facts, r, depth - 1, memo, stop)
    elif tag == "deref":
        r = mk_deref(inline_calls(facts, t[1], depth, memo, stop))
    elif tag == "field":
        r = mk_field(inline_calls(facts, t[1], depth, memo, stop), t[2], t[2] if isinstance(t[2], int) else None)
    elif tag == "ref":
        r = ("ref", t[1], inline_calls(facts, t[2], depth, memo, stop)) + tuple(t[3:])
    else:
        r = tuple(inline_calls(facts, x, depth, memo, stop) if isinstance(x, tuple) else x for x in t)
    memo[t] = r
    return r


# ---------------------------------------------------------------------- float affine forms

def fconst(t):
    """value of a constant float expression (single IEEE operations on compiler-evaluated constants)"""
    from .terms import const_float
    v = const_float(t)
    if v is not None:
        return v
    if is_const(t) and t[1] == "int":
        return None
    if t[0] == "bin" and t[1] in ("Add", "Sub", "Mul", "Div"):
        a, b = fconst(t[2]), fconst(t[3])
        if a is None or b is None:
            return None
        try:
            return {"Add": a + b, "Sub": a - b, "Mul": a * b, "Div": a / b}[t[1]]
        except ZeroDivisionError:
            return None
    if t[0] == "un" and t[1] == "Neg":
        a = fconst(t[2])
        return None if a is None else -a
    return None


def faffine(t, is_var):
    """t == a*v + b over floats for the unique sub-term v with is_var(v); returns (a, b, v) or None.
    Pure constants give (0, value, None)."""
    c = fconst(t)
    if c is not None:
        return (0.0, c, None)
    if is_var(t):
        return (1.0, 0.0, t)
    if t[0] == "bin":
        op = t[1]
        if op in ("Add", "Sub"):
            x, y = faffine(t[2], is_var), faffine(t[3], is_var)
            if x is None or y is None:
                return None
            if x[2] is not None and y[2] is not None and strip_site(x[2]) != strip_site(y[2]):
                return None
            s = 1.0 if op == "Add" else -1.0
            return (x[0] + s * y[0], x[1] + s * y[1], x[2] if x[2] is not None else y[2])
        if op == "Mul":
            x, y = faffine(t[2], is_var), faffine(t[3], is_var)
            if x is None or y is None:
                return None
            if x[2] is None:
                return (x[1] * y[0], x[1] * y[1], y[2])
            if y[2] is None:
                return (y[1] * x[0], y[1] * x[1], x[2])
            return None
        if op == "Div":
            x, y = faffine(t[2], is_var), faffine(t[3], is_var)
            if x is None or y is None or y[2] is not None or y[1] == 0:
                return None
            return (x[0] / y[1], x[1] / y[1], x[2])
    if t[0] == "un" and t[1] == "Neg":
        x = faffine(t[2], is_var)
        return None if x is None else (-x[0], -x[1], x[2])
    return None


# ---------------------------------------------------------------------- finite-domain evaluation of integer terms

INT_BITS = {"u8": (8, False), "u16": (16, False), "u32": (32, False), "u64": (64, False), "usize": (64, False), "u128": (128, False),
            "i8": (8, True), "i16": (16, True), "i32": (32, True), "i64": (64, True), "isize": (64, True), "i128": (128, True)}


def wrap(v, ty):
    if ty == "bool":
        return int(bool(v))
    if ty not in INT_BITS:
        return v
    bits, signed = INT_BITS[ty]
    v &= (1 << bits) - 1
    if signed and v >> (bits - 1):
        v -= 1 << bits
    return v


class Undetermined(Exception):
    pass


def ieval(ft, t, env, assume=None, _nested=False):
    """Value of an integer/bool term when every atom is given by `env` ({stripped term: int}).
    Small-set abstract evaluation of a MIR-derived formula over a finite domain; raises
    Undetermined when an atom is missing.  Rust semantics: truncating Div/Rem, wrapping casts;
    arithmetic is exact (overflow is the business of the C14 obligations)."""
    assume = assume if assume is not None else env
    key = strip_site(t)
    if key in env:
        return env[key]
    tag = t[0]
    if tag == "const":
        v = const_int(t)
        if v is None:
            raise Undetermined(fmt_short(t))
        return v
    if tag == "bin":
        op = t[1]
        a = ieval(ft, t[2], env, assume, _nested)
        b = ieval(ft, t[3], env, assume, _nested)
        if op in ("Add", "AddUnchecked", "AddWithOverflow"):
            return a + b
        if op in ("Sub", "SubUnchecked", "SubWithOverflow"):
            return a - b
        if op in ("Mul", "MulUnchecked", "MulWithOverflow"):
            return a * b
        if op in ("Div", "Rem"):
            if b == 0:
                raise Undetermined("division by zero")
            q = abs(a) // abs(b)
            if (a < 0) != (b < 0):
                q = -q
            return q if op == "Div" else a - q * b
        if op in CMP:
            return int(CMP[op](a, b))
        if op in ("Shl", "ShlUnchecked"):
            return a << b
        if op in ("Shr", "ShrUnchecked"):
            return a >> b
        if op == "BitAnd":
            return a & b
        if op == "BitOr":
            return a | b
        if op == "BitXor":
            return a ^ b
        raise Undetermined(op)
    if tag == "un":
        a = ieval(ft, t[2], env, assume, _nested)
        if t[1] == "Neg":
            return -a
        if t[1] == "Not":
            return int(not a) if a in (0, 1) else ~a
        raise Undetermined(t[1])
    if tag == "cast" and t[1] == "IntToInt":
        return wrap(ieval(ft, t[2], env, assume, _nested), t[3])
    if tag in ("ref", "deref"):
        return ieval(ft, t[2] if tag == "ref" else t[1], env, assume, _nested)
    if tag == "call" and isinstance(t[1], str) and t[1].endswith("::contains") and "ops::Range" in t[1] and len(t[2]) == 2:
        rng, x = t[2]
        for _ in range(6):
            while rng[0] in ("ref", "deref"):
                rng = rng[2] if rng[0] == "ref" else rng[1]
            if rng[0] == "promoted":
                rng = resolve_promoted(ft.facts, rng)
            else:
                break
        xv = ieval(ft, x, env, assume, _nested)
        if rng[0] == "agg" and rng[2].startswith("std::ops::Range::") and len(rng[3]) == 2:
            lo, hi = (ieval(ft, y, env, assume, _nested) for y in rng[3])
            return int(lo <= xv < hi)
        if rng[0] == "call" and isinstance(rng[1], str) and rng[1].endswith("RangeInclusive::new") and len(rng[2]) == 2:
            lo, hi = (ieval(ft, y, env, assume, _nested) for y in rng[2])
            return int(lo <= xv <= hi)
        raise Undetermined("contains")
    if tag == "call" and isinstance(t[1], str) and (t[1].endswith("::eq") or t[1].endswith("::ne")) and len(t[2]) == 2:
        if "PartialEq" not in t[1]:
            # std::ptr::eq and friends compare identities, not values: nothing the compiler knows decides them
            raise Undetermined("%s is not a value comparison" % t[1])
        # equality of two values the compiler / the environment knows completely (tables, enum rows)
        a, b = _cval(ft, t[2][0], env, assume, _nested), _cval(ft, t[2][1], env, assume, _nested)
        if a is None or b is None:
            raise Undetermined("eq on unknown values")
        return int((_tup(a) == _tup(b)) == t[1].endswith("::eq"))
    if tag == "call" and isinstance(t[1], str) and len(t[2]) >= 1 and t[1].split("::")[-1] in ("expect", "unwrap") and t[2][0][0] == "call" \
            and isinstance(t[2][0][1], str) and t[2][0][1].split("::")[-1] in ("checked_add", "checked_sub", "checked_mul") and len(t[2][0][2]) == 2:
        # checked arithmetic that must succeed: the exact result (whether it can fail is an obligation of C14)
        a = ieval(ft, t[2][0][2][0], env, assume, _nested)
        b = ieval(ft, t[2][0][2][1], env, assume, _nested)
        return {"checked_add": a + b, "checked_sub": a - b, "checked_mul": a * b}[t[2][0][1].split("::")[-1]]
    if tag == "call" and isinstance(t[1], str) and len(t[2]) >= 1 and t[1].split("::")[-1] in ("expect", "unwrap") and t[2][0][0] == "call" \
            and isinstance(t[2][0][1], str) and t[2][0][1].endswith("::try_from") and "TryFrom<" in t[2][0][1]:
        # integer conversion that must succeed: the value itself when it fits the target type
        import re as _re
        v = ieval(ft, t[2][0][2][0], env, assume, _nested)
        m = _re.search(r" for (i8|i16|i32|i64|i128|isize|u8|u16|u32|u64|u128|usize)>::try_from$", t[2][0][1])
        if not m or wrap(v, m.group(1)) != v:
            raise Undetermined("try_from out of range")
        return v
    if tag == "call" and isinstance(t[1], str) and len(t[2]) == 1 and t[1].endswith("::from") and "From<" in t[1] and "num::" in t[1]:
        return ieval(ft, t[2][0], env, assume, _nested)
    if tag == "call" and isinstance(t[1], str) and len(t[2]) == 1 and t[1].split("::")[-1] in ("deref", "as_slice", "as_ref", "borrow", "clone"):
        return ieval(ft, t[2][0], env, assume, _nested)      # views of the same value
    if tag == "call" and isinstance(t[1], str) and t[1].split("::")[-1] in ("any", "all") and len(t[2]) == 2:
        # any / all over a completely known sequence with a closure predicate: evaluate the predicate per element
        seq = _cval(ft, t[2][0], env, assume, _nested)
        clos = t[2][1]
        while clos[0] in ("ref", "deref"):
            clos = clos[2] if clos[0] == "ref" else clos[1]
        if not isinstance(seq, (list, tuple)) or clos[0] != "agg" or clos[1] != "closure":
            raise Undetermined(t[1].split("::")[-1])
        caps = []
        for o in clos[3]:
            v = _cval(ft, o, env, assume, _nested)
            if v is None:
                raise Undetermined("closure capture")
            caps.append(v)
        res = []
        for el in seq:
            res.append(closure_eval(ft.facts, clos[2], caps, [el]))
        return int(any(res)) if t[1].endswith("any") else int(all(res))
    if tag == "call" and isinstance(t[1], str):
        name = t[1]
        args = [ieval(ft, a, env, assume, _nested) for a in t[2]] if not name.endswith("unwrap_or") else None
        if name.endswith("::pow") and len(args) == 2:
            if args[1] < 0 or args[1] > 256:
                raise Undetermined("pow")
            return args[0] ** args[1]
        if name in ("std::cmp::max", "core::cmp::max", "std::cmp::Ord::max"):
            return max(args)
        if name in ("std::cmp::min", "core::cmp::min", "std::cmp::Ord::min"):
            return min(args)
        if name in ft.facts.fns:
            return call_eval(ft.facts, name, args)
        raise Undetermined(name)
    if tag == "agg" and t[1] == "adt" and not t[3]:
        # a field-less enum value: its discriminant
        adt_path, vname = t[2].rsplit("::", 1)
        adt = ft.facts.adts.get(adt_path)
        if adt is not None and adt["kind"] == "Enum":
            for v in adt["variants"]:
                if v["name"] == vname:
                    return int(v["discr"])
        raise Undetermined("enum " + t[2])
    if tag == "discr":
        return ieval(ft, t[1], env, assume, _nested)
    if tag == "phi":
        r = resolve_under(ft, t, assume)
        if r is None and not _nested:
            # try to fold controlling comparisons by evaluation
            r = _resolve_by_eval(ft, t, env, assume)
        if r is None:
            raise Undetermined("phi")
        return ieval(ft, r, env, assume, _nested)
    raise Undetermined(tag)


def _tup(v):
    return tuple(_tup(x) for x in v) if isinstance(v, (list, tuple)) else v


def _cval(ft, t, env, assume=None, _nested=True):
    """complete Python value of a term: bound in env (ints or lists), a named constant / static table, a promoted
    constant, an array literal; through borrows, as_slice and unsizing.  None if not known"""
    from .consts import const_py
    for _ in range(12):
        k = strip_site(t)
        if k in env:
            return env[k]
        if t[0] in ("ref", "deref"):
            t = t[2] if t[0] == "ref" else t[1]
            continue
        if t[0] == "cast" and t[1] in ("PointerCoercion", "Unsize", "PtrToPtr"):
            t = t[2]
            continue
        if t[0] == "call" and isinstance(t[1], str) and len(t[2]) == 1 and t[1].split("::")[-1] in ("as_slice", "deref", "as_ref", "borrow", "clone", "to_vec", "iter", "into_iter"):
            t = t[2][0]
            continue
        if t[0] == "promoted":
            r = resolve_promoted(ft.facts, t)
            if r == t:
                return None
            t = r
            continue
        break
    if t[0] == "const":
        if t[3]:
            v = const_py(ft.facts, t[3])
            if v is not None:
                return v
        v = const_int(t)
        return v
    if t[0] == "static":
        return const_py(ft.facts, t[1])
    if t[0] == "agg" and t[1] in ("array", "tuple"):
        vs = [_cval(ft, x, env, assume, _nested) for x in t[3]]
        return None if any(v is None for v in vs) else vs
    if t[0] == "agg" and t[1] == "adt" and not t[3]:
        return t[2].split("::")[-1]          # field-less enum variant, as const_py spells it
    try:
        return ieval(ft, t, env, assume, True)     # never re-enter the condition folding from inside an equality
    except Undetermined:
        return None


def _resolve_by_eval(ft, phi, env, assume):
    """resolve a phi by evaluating the switch conditions on the way with ieval"""
    extra = dict(assume)
    changed = False
    # conditions may depend on values selected by other conditions (and block numbers say nothing about the order
    # once helper bodies have been spliced in): repeat until nothing new can be folded
    order = [b for b in ft.cfg.rpo if b in ft.cfg.reach]      # control-flow order, not block numbering
    for _round in range(1):
        progress = False
        for b in order:
            tm = ft.blocks[b]["term"]
            if tm["k"] != "switch":
                continue
            d = ft.switch_term(b)
            k = strip_site(d)
            if k in extra:
                continue
            try:
                if d[0] == "phi" and d == phi:
                    continue
                if d[0] != "phi":
                    extra[k] = ieval(ft, d, env, extra, True)
                else:
                    # a flag that is itself joined (`a || b` written out): follow the ways in that are still feasible
                    r_ = resolve_under(ft, d, extra)
                    extra[k] = ieval(ft, r_, env, extra, True) if (r_ is not None and r_[0] != "phi") else None
                if extra[k] is None:
                    del extra[k]
                else:
                    changed = progress = True
            except Undetermined:
                pass
        if not progress:
            break
    if not changed:
        return None
    return resolve_under(ft, phi, extra)


def fmt_short(t):
    from .terms import fmt
    return fmt(t)


# ---------------------------------------------------------------------- loops, iterators, vectors

def iter_source(ft, it):
    """From the receiver argument of Iterator::next (e.g. &mut phi) to the term that initialised
    the iterator before the loop (the non-escaped phi operand)."""
    seen = 0
    while seen < 16:
        seen += 1
        if it[0] == "ref":
            it = it[2]
        elif it[0] == "deref":
            it = it[1]
        elif it[0] == "phi":
            ops = [x for x in ft.phi_operands(it).values() if x[0] != "escaped" and x != it]
            uniq = {strip_site(x): x for x in ops}
            if len(uniq) != 1:
                return None
            it = next(iter(uniq.values()))
        else:
            return it
    return None


def ref_key(t):
    """place key of a reference term ('_40') or None"""
    while t[0] == "deref" or (t[0] == "ref" and t[2][0] == "deref"):
        t = t[1] if t[0] == "deref" else t[2]
    if t[0] == "ref":
        return t[3]
    return None


class Loop:
    pass


def loops_of(ft):
    """Describe each natural loop driven by Iterator::next: item term, source term, exits."""
    out = []
    all_loops = ft.cfg.loops()
    for head, body in all_loops.items():
        lp = Loop()
        lp.head, lp.body = head, body
        inner = set()
        for h2, b2 in all_loops.items():
            if h2 != head and b2 < body:
                inner |= b2
        lp.inner = inner
        lp.own = body - inner
        lp.next = [c for c in ft.calls() if c.block in lp.own and c.callee and c.callee.endswith("::next")]
        lp.item = None
        lp.source = None
        lp.item_switch = None
        lp.some_succ = None
        lp.done_succ = None
        if len(lp.next) == 1:
            c = lp.next[0]
            lp.item = ("payload", "Some", ("call", c.callee, tuple(c.args), (ft.path, c.block)))
            lp.source = iter_source(ft, c.args[0])
            for b in lp.own:
                t = ft.blocks[b]["term"]
                if t["k"] == "switch":
                    d = ft.switch_term(b)
                    if d[0] == "discr" and d[1][0] == "call" and d[1][1].endswith("::next") and d[1][3] == (ft.path, c.block):
                        lp.item_switch = b
                        for v, bb in t["targets"]:
                            if int(v) == 1 and bb in body:
                                lp.some_succ = bb
                            if int(v) == 0:
                                lp.done_succ = bb
        lp.exits = [(b, s) for b in body for s in ft.cfg.succ[b] if s not in body]
        lp.counter = False
        if not lp.next:
            _counter_loop(ft, lp)
        out.append(lp)
    return out


def _counter_loop(ft, lp):
    """`let mut j = a; while j < E { ..; j += 1 }` described like `for j in a..E`: item = the counter as seen in the
    body, source = the Range a..E.  Only when the header tests `j < E` and every way back to the header adds exactly 1."""
    head = lp.head
    # the guard may follow the header after straight-line blocks (`while i < v.len()` evaluates len() first)
    gb = head
    for _ in range(6):
        tm = ft.blocks[gb]["term"]
        if tm["k"] == "switch":
            break
        succ = [x for x in ft.cfg.succ[gb]]
        if len(succ) != 1 or succ[0] not in lp.body or tm["k"] not in ("call", "goto", "assert"):
            return
        gb = succ[0]
    tm = ft.blocks[gb]["term"]
    if tm["k"] != "switch":
        return
    d = ft.switch_term(gb)
    if not (d[0] == "bin" and d[1] in ("Lt", "Gt")):
        return
    j, E = (d[2], d[3]) if d[1] == "Lt" else (d[3], d[2])
    if not (j[0] == "phi" and j[1] == ft.path and j[2] == head):
        return
    ops = ft.phi_operands(j)
    inits = [v for p, v in ops.items() if p not in lp.body]
    backs = [v for p, v in ops.items() if p in lp.body]
    if len(inits) != 1 or not backs:
        return

    def plus_one(v, depth=0):
        if depth > 6:
            return False
        if v[0] == "field" and str(v[2]) == "0" and v[1][0] == "bin":
            v = ("bin", v[1][1].replace("WithOverflow", ""), v[1][2], v[1][3])
        if v[0] == "bin" and v[1] in ("Add", "AddWithOverflow") and strip_site(v[2]) == strip_site(j) and const_int(v[3]) == 1:
            return True
        if v[0] == "phi" and v[1] == ft.path and v[2] in lp.body and v != j:
            return all(plus_one(o, depth + 1) for o in ft.phi_operands(v).values())
        return False
    if not all(plus_one(v) for v in backs):
        return
    vals, other = None, None
    true_succ = false_succ = None
    for v, bb in tm["targets"]:
        if int(v) == 0:
            false_succ = bb
    true_succ = tm["otherwise"] if false_succ is not None else None
    if true_succ is None or true_succ not in lp.body or false_succ in lp.body:
        return
    lp.counter = True
    lp.item = j
    lp.source = ("agg", "adt", "std::ops::Range::<usize>", (inits[0], E), ("start", "end"))
    lp.item_switch = gb
    lp.some_succ = true_succ
    lp.done_succ = false_succ


def every_iteration(ft, lp, block):
    """does `block` lie on every path from the Some-branch of the loop back to its header?"""
    if lp.some_succ is None:
        return False
    if block == lp.some_succ:
        return True
    seen = set()
    st = [lp.some_succ]
    while st:
        b = st.pop()
        if b in seen or b == block:
            continue
        seen.add(b)
        if b == lp.head:
            return False
        for s in ft.cfg.succ[b]:
            if s in lp.body:
                st.append(s)
    return True


def pushes_to(ft, key):
    """call sites that append to the vector local with place key `key`"""
    out = []
    for c in ft.calls():
        if c.callee and c.args and (c.callee.endswith("Vec::push") or c.callee.endswith("::extend") or c.callee.endswith("Vec::insert")
                                    or c.callee.endswith("Vec::extend_from_slice") or c.callee.endswith("Vec::append")):
            if ref_key(c.args[0]) == key:
                out.append(c)
    return out


def mutators_of(ft, key):
    """all call sites that receive a mutable reference to local `key`"""
    out = []
    for c in ft.calls():
        for a in c.args:
            t = a
            hit = False
            for x in walk(t):
                if x[0] == "ref" and x[1] in (True, "raw") and x[3] == key:
                    hit = True
            if hit:
                out.append(c)
                break
    return out


def assumptions_by_eval(ft, env):
    """assumptions {switch discr: value} obtained by evaluating every switch condition that is determined by env"""
    extra = dict(env)
    for b in sorted(ft.cfg.reach):
        tm = ft.blocks[b]["term"]
        if tm["k"] != "switch":
            continue
        d = ft.switch_term(b)
        k = strip_site(d)
        if k in extra or d[0] == "phi":
            continue
        try:
            extra[k] = ieval(ft, d, env, extra, True)
        except Undetermined:
            pass
    return extra


def call_eval(facts, path, argvals):
    """value returned by local function `path` for concrete small-domain arguments, obtained by evaluating its
    MIR-derived return formula (finite-domain abstract evaluation; nothing of the crate is executed)"""
    cft = fn_terms(facts, path)
    env = {("param", i + 1): _tup(v) for i, v in enumerate(argvals)}
    extra = assumptions_by_eval(cft, env)
    feas = feasible_blocks(cft, extra)
    vals = set()
    for rb in cft.return_blocks():
        if rb not in feas:
            continue
        for leaf in leaves_under(cft, cft.return_term(rb), extra):
            vals.add(ieval(cft, leaf, env, extra))
    if len(vals) != 1:
        raise Undetermined("call %s%s -> %s" % (path, tuple(argvals), sorted(vals)))
    return vals.pop()


def closure_eval(facts, cpath, captured, argvals):
    """value returned by closure body `cpath` for known captured values and arguments (finite-domain evaluation of its
    MIR-derived return formula)"""
    cft = fn_terms(facts, cpath)
    env = {("param", i + 2): _tup(v) for i, v in enumerate(argvals)}
    for i, v in enumerate(captured):
        env[("field", ("deref", ("param", 1)), i)] = _tup(v)
        env[("field", ("param", 1), i)] = _tup(v)
    extra = assumptions_by_eval(cft, env)
    feas = feasible_blocks(cft, extra)
    vals = set()
    for rb in cft.return_blocks():
        if rb not in feas:
            continue
        for leaf in leaves_under(cft, cft.return_term(rb), extra):
            vals.add(ieval(cft, leaf, env, extra))
    if len(vals) != 1:
        raise Undetermined("closure %s -> %s" % (cpath, sorted(vals)))
    return vals.pop()


def resolve_promoted(facts, t):
    """('promoted', owner, idx) -> the term the promoted body returns"""
    if t[0] != "promoted":
        return t
    path = "%s::promoted[%d]" % (t[1], t[2])
    if path not in facts.fns:
        return t
    pft = fn_terms(facts, path)
    rb = pft.return_blocks()
    if len(rb) != 1:
        return t
    return pft.return_term(rb[0])


# ---------------------------------------------------------------------- evaluation of float formulas at a point

def feval(t, env):
    """value of a float-valued term at a point (env: stripped term -> float).  Used only to compare two MIR-derived
    closed-form formulas of one function at a constant that the code itself names (branch thresholds)."""
    import math
    from .terms import const_float
    k = strip_site(t)
    if k in env:
        return env[k]
    v = const_float(t)
    if v is not None:
        return v
    if is_const(t) and t[1] == "int":
        return float(t[2])
    tag = t[0]
    if tag == "bin":
        a, b = feval(t[2], env), feval(t[3], env)
        op = t[1]
        if op == "Add":
            return a + b
        if op == "Sub":
            return a - b
        if op == "Mul":
            return a * b
        if op == "Div":
            return a / b
        raise Undetermined(op)
    if tag == "un" and t[1] == "Neg":
        return -feval(t[2], env)
    if tag == "cast" and t[1] in ("IntToFloat", "FloatToFloat"):
        return float(feval(t[2], env))
    if tag in ("ref", "deref"):
        return feval(t[2] if tag == "ref" else t[1], env)
    if tag == "call" and isinstance(t[1], str):
        name = t[1].split("::")[-1]
        fns = {"sin": math.sin, "cos": math.cos, "tan": math.tan, "acos": math.acos, "asin": math.asin, "atan": math.atan,
               "sqrt": math.sqrt, "abs": abs, "exp": math.exp, "ln": math.log}
        if "<impl f64>" in t[1] and name in fns and len(t[2]) == 1:
            return fns[name](feval(t[2][0], env))
        if "<impl f64>" in t[1] and name == "atan2":
            return math.atan2(feval(t[2][0], env), feval(t[2][1], env))
        if "<impl f64>" in t[1] and name == "powi":
            return feval(t[2][0], env) ** int(ieval(None, t[2][1], {}))
    raise Undetermined(tag)


# ---------------------------------------------------------------------- closures handed to iterator adaptors

ADAPTORS_ELEMENTWISE = ("::map", "::for_each", "::filter_map", "::flat_map", "::try_for_each", "::inspect", "::filter", "::any", "::all", "::find", "::position")


def closures_of(facts, path):
    """paths of the closure bodies defined (directly or nested) inside function `path`"""
    pre = path + "::{closure"
    gone = getattr(facts, "consumed_closures", ())
    return sorted(p for p, f in facts.fns.items() if p.startswith(pre) and f["kind"] == "Closure" and p not in gone)


def closure_parent(facts, cpath):
    p = cpath
    while "::{closure" in p:
        p = p[:p.rindex("::{closure")]
        if p in facts.fns and facts.fns[p]["kind"] != "Closure":
            return p
    return None


def closure_sites(facts, cpath):
    """[(owner FnTerms, CallSite, argument index, closure aggregate term)] where the closure value is created and passed"""
    out = []
    owner = cpath[:cpath.rindex("::{closure")]
    if owner not in facts.fns:
        return out
    ft = fn_terms(facts, owner)
    for c in ft.calls():
        for i, a in enumerate(c.args):
            y = a
            while y[0] == "ref":
                y = y[2]
            if y[0] == "agg" and y[1] == "closure" and y[2] == cpath:
                out.append((ft, c, i, y))
    return out


def closure_subst(facts, cpath, t, _depth=0):
    """rewrite a term of a closure body into the terms of the function that creates the closure: captured variables
    become the captured values; the closure's own item parameter stays ('param', 2).  None if the closure is created
    at more than one place."""
    sites = closure_sites(facts, cpath)
    if len(sites) != 1:
        return None
    _ft, _c, _i, agg = sites[0]
    caps = agg[3]

    def go(x):
        if not isinstance(x, tuple) or not x:
            return x
        if x[0] == "field" and isinstance(x[2], int) and x[2] < len(caps):
            b = x[1]
            if b == ("param", 1) or (b[0] == "deref" and b[1] == ("param", 1)):
                return caps[x[2]]
        if x[0] == "deref":
            inner = go(x[1])
            if inner[0] == "ref":
                return inner[2]
            return ("deref", inner)
        return tuple(go(y) for y in x)
    return go(t)


def closure_item_source(facts, cpath):
    """(owner FnTerms, iterator term) when the closure is the element function of map/for_each/... : its item
    parameter ranges over the elements of that iterator, in order"""
    sites = closure_sites(facts, cpath)
    if len(sites) != 1:
        return None
    ft, c, i, _agg = sites[0]
    if c.callee and any(c.callee.endswith(s) for s in ADAPTORS_ELEMENTWISE) and i == 1 and len(c.args) == 2:
        return ft, c.args[0]
    return None



def option_default(ft, t):
    """(option term, default term) when t is "the payload of an Option or else a default", spelled either with a
    combinator (unwrap_or / unwrap_or_else / unwrap_or_default) or as a two-armed match / if-let join.  The default of
    unwrap_or_else is the closure aggregate; of unwrap_or_default None.  Returns None for anything else."""
    x = t
    while x[0] in ("ref", "deref"):
        x = x[2] if x[0] == "ref" else x[1]
    if x[0] == "call" and isinstance(x[1], str) and x[2]:
        short = x[1].split("::")[-1]
        if short in ("unwrap_or", "unwrap_or_else") and len(x[2]) == 2 and "Option" in x[1]:
            dflt = x[2][1]
            c_ = dflt
            while c_[0] in ("ref", "deref"):
                c_ = c_[2] if c_[0] == "ref" else c_[1]
            if short == "unwrap_or_else" and c_[0] == "agg" and c_[1] == "closure" and c_[2] in ft.facts.fns:
                # the lazily computed default: what the closure returns, captured variables read where it is created
                fcl = fn_terms(ft.facts, c_[2])
                rbs = fcl.return_blocks()
                if len(rbs) == 1:
                    m = {}
                    for i_, cv in enumerate(c_[3]):
                        m[("field", ("deref", ("param", 1)), i_)] = cv
                        m[("field", ("param", 1), i_)] = cv
                    v = subst_terms(strip_site(fcl.return_term(rbs[0])), m)

                    def collapse(t_):
                        if not isinstance(t_, tuple) or not t_:
                            return t_
                        if t_[0] == "deref" and isinstance(t_[1], tuple) and t_[1] and t_[1][0] == "ref":
                            return collapse(t_[1][2])
                        return tuple(collapse(y_) for y_ in t_)
                    dflt = collapse(v)
            return x[2][0], dflt
        if short == "unwrap_or_default" and "Option" in x[1]:
            return x[2][0], None
    if x[0] == "phi" and x[1] == ft.path:
        ops = list(ft.phi_operands(x).values())
        if len(ops) == 2:
            for a, b in ((ops[0], ops[1]), (ops[1], ops[0])):
                if a[0] == "payload" and a[1] == "Some":
                    return a[2], b
    return None


# ---------------------------------------------------------------------- symbolic k-th item of an iterator expression

KSYM = ("sym", "k")


def seq_nth(ft, src, depth=0):
    """(item, count): the k-th item an iterator expression yields, as a term over the symbol KSYM, and how many items
    there are (a term, or None when unknown).  Understands ranges, slices / vectors (elements as ('elem', collection,
    index)), sub-slices v[a..b], iter / into_iter / copied / cloned / by_ref, enumerate and zip.  None otherwise."""
    if depth > 8:
        return None
    x = src
    while x[0] in ("ref", "deref") or (x[0] == "cast" and x[1] == "PointerCoercion") or (x[0] == "payload" and x[1] in ("Ok", "Some")):
        x = x[2] if x[0] in ("ref", "cast", "payload") else x[1]
    if x[0] == "call" and isinstance(x[1], str) and len(x[2]) == 1 and x[1].split("::")[-1] in ("collect", "from_iter") and not ("HashSet" in x[1] or "BTreeSet" in x[1]):
        # a vector collected from a sequence (through Result / Option: the successful case) holds that sequence's items in order
        return seq_nth(ft, x[2][0], depth + 1)
    if x[0] == "agg" and isinstance(x[2], str) and x[2].startswith("std::ops::Range::") and len(x[3]) == 2:
        a, b = x[3]
        return ("bin", "Add", a, KSYM), ("bin", "Sub", b, a)
    if x[0] in ("promoted", "static") or (x[0] == "const" and len(x) > 1 and x[1] == "named"):
        return ("elem", strip_site(x), KSYM), None          # a constant table borrowed as a slice
    if x[0] == "call" and isinstance(x[1], str) and x[2]:
        short = x[1].split("::")[-1]
        if short in ("into_iter", "iter", "iter_mut", "copied", "cloned", "by_ref", "as_slice", "deref"):
            return seq_nth(ft, x[2][0], depth + 1)
        if short == "enumerate":
            r = seq_nth(ft, x[2][0], depth + 1)
            return None if r is None else (("agg", "tuple", "", (KSYM, r[0]), ()), r[1])
        if short == "map" and len(x[2]) == 2:
            r = seq_nth(ft, x[2][0], depth + 1)
            clos = x[2][1]
            while clos[0] in ("ref", "deref"):
                clos = clos[2] if clos[0] == "ref" else clos[1]
            if r is None:
                return None
            if clos[0] == "fnref":
                return ("call", clos[1], (r[0],), None), r[1]
            if clos[0] != "agg" or clos[1] != "closure" or clos[2] not in ft.facts.fns:
                return None
            fcl = fn_terms(ft.facts, clos[2])
            rbs = fcl.return_blocks()
            if len(rbs) != 1:
                return None
            body = closure_subst_caps(clos[3], fcl.return_term(rbs[0]))
            return subst_terms(body, {("param", 2): r[0]}), r[1]
        if short == "skip" and len(x[2]) == 2 and const_int(x[2][1]) is not None and const_int(x[2][1]) >= 0:
            # the k-th item after skipping n is item k+n of the source (the count is only used where the source is
            # known to have at least n items; a shorter source simply yields nothing)
            r = seq_nth(ft, x[2][0], depth + 1)
            if r is None:
                return None
            n_ = ("const", "int", const_int(x[2][1]), None, "usize")
            item = subst_terms(r[0], {KSYM: ("bin", "Add", KSYM, n_)})
            return item, (r[1] if r[1] is None or r[1] == ("inf",) else ("bin", "Sub", r[1], n_))
        if short == "cycle" and len(x[2]) == 1:
            # endless repetition of a collection: item k is element k mod len; the count is the marker ("inf",)
            r = seq_nth(ft, x[2][0], depth + 1)
            if r is None or r[0][0] != "elem" or r[0][2] != KSYM:
                return None
            ln = r[1] if r[1] is not None else ("call", "len", (r[0][1],), None)
            return ("elem", r[0][1], ("bin", "Rem", KSYM, ln)), ("inf",)
        if short == "zip" and len(x[2]) == 2:
            r1, r2 = seq_nth(ft, x[2][0], depth + 1), seq_nth(ft, x[2][1], depth + 1)
            if r1 is None or r2 is None:
                return None
            cnt = r2[1] if r1[1] == ("inf",) else r1[1]
            return ("agg", "tuple", "", (r1[0], r2[0]), ()), cnt
        if short in ("index", "index_mut") and len(x[2]) == 2:
            rng = x[2][1]
            while rng[0] in ("ref", "deref"):
                rng = rng[2] if rng[0] == "ref" else rng[1]
            if rng[0] == "agg" and isinstance(rng[2], str) and rng[2].startswith("std::ops::Range::") and len(rng[3]) == 2:
                base = x[2][0]
                while base[0] in ("ref", "deref"):
                    base = base[2] if base[0] == "ref" else base[1]
                return ("elem", strip_site(base), ("bin", "Add", rng[3][0], KSYM)), ("bin", "Sub", rng[3][1], rng[3][0])
            return None
    if x[0] in ("phi", "param", "escaped", "field") or (x[0] == "call" and isinstance(x[1], str)):
        ty = ft.tyof(x) or ""
        if "Vec<" in ty or ty.lstrip("&").lstrip("mut ").startswith("["):
            return ("elem", strip_site(x), KSYM), None
    return None


def subst_terms(t, mapping):
    """replace sub-terms (compared site-free) according to mapping {stripped term: replacement}"""
    if not isinstance(t, tuple) or not t:
        return t
    k = strip_site(t)
    if k in mapping:
        return mapping[k]
    if t[0] == "field" and isinstance(t[1], tuple):
        b = subst_terms(t[1], mapping)
        if b[0] == "agg" and isinstance(t[2], int) and t[2] < len(b[3]):
            return b[3][t[2]]
        if b[0] == "agg" and str(t[2]).isdigit() and int(t[2]) < len(b[3]):
            return b[3][int(t[2])]
        return ("field", b, t[2])
    if t[0] == "deref":
        b = subst_terms(t[1], mapping)
        return b if b[0] in ("elem", "bin", "sym", "agg") else ("deref", b)
    return tuple(subst_terms(x, mapping) for x in t)


def field_of(ft, t, name, _seen=None, _depth=0):
    """value of field `name` of a struct-valued term: through aggregates, field updates (`x.f = v`), borrows and joins
    (a join must give the same value on every way in; a loop-carried struct refers to itself and is skipped there)"""
    from .terms import mk_field
    _seen = _seen if _seen is not None else set()
    if _depth > 30:
        return None
    while t[0] in ("ref", "deref"):
        t = t[2] if t[0] == "ref" else t[1]
    if t[0] == "agg" and t[4] and name in t[4]:
        return t[3][t[4].index(name)]
    if t[0] == "update":
        proj = t[2]
        if len(proj) == 1 and proj[0][0] == "field":
            if proj[0][1] == name:
                return t[3]
            return field_of(ft, t[1], name, _seen, _depth + 1)
        return None
    if t[0] == "phi" and t[1] == ft.path:
        if t in _seen:
            return ("self",)
        _seen.add(t)
        vals = []
        for o in ft.phi_operands(t).values():
            v = field_of(ft, o, name, _seen, _depth + 1)
            if v is None:
                return None
            if v != ("self",):
                vals.append(v)
        if not vals:
            return ("self",)
        keys = {strip_site(v) for v in vals}
        return vals[0] if len(keys) == 1 else None
    return None


def return_sites(ft):
    """[(block, term)]: every value the function can return together with the block where it is decided (joins at the
    single MIR return block are opened up), so that the conditions guarding each result can be asked for"""
    out = []
    seen = set()

    def go(t, b, depth):
        if t[0] == "phi" and t[1] == ft.path and t not in seen and depth < 12:
            seen.add(t)
            for p, o in ft.phi_operands(t).items():
                go(o, p, depth + 1)
        else:
            out.append((b, t))
    for rb in ft.return_blocks():
        go(ft.return_term(rb), rb, 0)
    return out


# ---------------------------------------------------------------------- symbolic items of iterator pipelines

def pipe_item(facts, ft, src, space=None, depth=0, counter=None):
    """(item term, generators, adaptors) of an iterator pipeline expression `src` written in function `ft`:
    generators = [(symbol, source term)], one per independent traversal (ranges, collections) in nesting order; the item
    is a term over those symbols, captured variables resolved to the function that owns the outermost expression.
    `space` maps terms of `ft` (when ft is a closure body) into that outermost function.  Understands iter / into_iter /
    copied / cloned / by_ref, zip, enumerate, map and flat_map with closures (nested to any depth).  None otherwise."""
    if depth > 12:
        return None
    counter = counter if counter is not None else [0]
    space = space or (lambda t: t)
    x = src
    while x[0] in ("ref", "deref"):
        x = x[2] if x[0] == "ref" else x[1]

    def fresh(source):
        counter[0] += 1
        return ("gen", counter[0]), source
    if x[0] == "agg" and isinstance(x[2], str) and x[2].startswith("std::ops::Range::"):
        g, s_ = fresh(space(x))
        return g, [(g, s_)], ["range"]
    if x[0] == "call" and isinstance(x[1], str) and x[2]:
        short = x[1].split("::")[-1]
        if short in ("into_iter", "iter", "iter_mut", "copied", "cloned", "by_ref"):
            inner = x[2][0]
            y = inner
            while y[0] in ("ref", "deref"):
                y = y[2] if y[0] == "ref" else y[1]
            if (y[0] == "call" and isinstance(y[1], str) and y[1].split("::")[-1] in ("map", "flat_map", "zip", "enumerate", "into_iter", "iter", "copied", "cloned", "by_ref")) \
                    or (y[0] == "agg" and isinstance(y[2], str) and y[2].startswith("std::ops::Range::")):
                r = pipe_item(facts, ft, inner, space, depth + 1, counter)
                if r is None:
                    return None
                return r[0], r[1], r[2] + [short]
            g, s_ = fresh(space(inner))
            return g, [(g, s_)], [short]
        if short == "enumerate":
            r = pipe_item(facts, ft, x[2][0], space, depth + 1, counter)
            if r is None:
                return None
            return ("agg", "tuple", "", (("genidx", r[0]), r[0]), ()), r[1], r[2] + ["enumerate"]
        if short == "zip" and len(x[2]) == 2:
            r1 = pipe_item(facts, ft, x[2][0], space, depth + 1, counter)
            r2 = pipe_item(facts, ft, x[2][1], space, depth + 1, counter)
            if r1 is None or r2 is None:
                return None
            return ("agg", "tuple", "", (r1[0], r2[0]), ()), r1[1] + r2[1], r1[2] + r2[2] + ["zip"]
        if short in ("map", "flat_map") and len(x[2]) == 2:
            r = pipe_item(facts, ft, x[2][0], space, depth + 1, counter)
            clos = x[2][1]
            while clos[0] in ("ref", "deref"):
                clos = clos[2] if clos[0] == "ref" else clos[1]
            if r is None or clos[0] != "agg" or clos[1] != "closure" or clos[2] not in facts.fns:
                return None
            it, gens, ads = r
            fcl = fn_terms(facts, clos[2])
            caps = clos[3]
            rbs = fcl.return_blocks()
            if len(rbs) != 1:
                return None

            def into_outer(t, _caps=caps, _it=it):
                # closure-body term -> term of the function that created the closure -> outermost function
                m = {("param", 2): _it}
                for i_, cv in enumerate(_caps):
                    m[("field", ("deref", ("param", 1)), i_)] = space(cv)
                    m[("field", ("param", 1), i_)] = space(cv)
                return subst_terms(strip_site(t), m)
            body = fcl.return_term(rbs[0])
            if short == "map":
                return into_outer(body), gens, ads + ["map"]
            r2 = pipe_item(facts, fcl, body, into_outer, depth + 1, counter)
            if r2 is None:
                return None
            return r2[0], gens + r2[1], ads + r2[2] + ["flat_map"]
    return None



def simplify_payloads(t):
    """payload(V, V(x)) -> x everywhere (constructor and projection that meet after substitution / splicing)"""
    if not isinstance(t, tuple) or not t:
        return t
    if t[0] == "payload" and isinstance(t[2], tuple) and t[2] and t[2][0] == "agg" and t[2][1] == "adt" and isinstance(t[2][2], str) \
            and t[2][2].endswith("::" + t[1]) and len(t[2][3]) == 1:
        return simplify_payloads(t[2][3][0])
    return tuple(simplify_payloads(x) for x in t)


def closure_subst_caps(caps, t):
    """closure-body term -> term of the function in which the closure aggregate `caps` (its captured operands) was found"""
    m = {}
    for i_, cv in enumerate(caps):
        m[("field", ("deref", ("param", 1)), i_)] = cv
        m[("field", ("param", 1), i_)] = cv

    def collapse(t_):
        if not isinstance(t_, tuple) or not t_:
            return t_
        if t_[0] == "deref" and isinstance(t_[1], tuple) and t_[1] and t_[1][0] == "ref":
            return collapse(t_[1][2])
        return tuple(collapse(y_) for y_ in t_)
    return collapse(subst_terms(strip_site(t), m))
