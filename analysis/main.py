"""python3 -m analysis.main <Cxx> <tier> <workdir> [replay-file]"""
import importlib
import json
import os
import sys

from .facts import Facts
from .run import Run, VERIF
from .inline import load_vocabulary, inline_new_helpers, load_reference, consumed_closures
from .normalize import lower_int_cmp, desugar_combinators

LEVELS = {"C13": "proof"}

# hand-confirmed floors of analysed units on the pinned tree (DESIGN appendix B)
FLOOR_BODIES = 300
FLOOR_CALLS = 1400


# rules of one pack that are also necessary conditions of another property: (pack, rule prefixes, key filter, why)
SHARED = {
    "C01": [("C15", ("C15.S1", "C15.S3", "C15.S4", "C15.S5", "C15.S6"), None, "the polygon that must contain the point is produced through the inverse face projection"),
            ("C19", ("C19.A5",), None, "longitudes that differ by whole turns (and probes across the antimeridian) name the same point only if every wrap moves by the full period"),
            ("C02", ("C02.R2",), None, "the lookup accepts an estimate through a5cell_contains_point; the polygon that has to contain the point is the one get_pentagon reports for that cell, at every resolution"),
            ("C13", ("C13.X1",), None, "the lookup succeeds for every point only if the projection's triangle memo tables have a slot for every triangle of every face")],
    "C02": [("C01", ("C01.R1", "C01.R2", "C01.R3", "C01.R4", "C01.R5", "C01.R7", "C01.R8"), None, "a point inside a cell's reported polygon maps back to that cell only if the lookup returns a cell of the asked resolution accepted by the exact containment test evaluated at the query point itself"),
            ("C15", ("C15.S1", "C15.S3", "C15.S4", "C15.S5", "C15.S6"), None, "the reported centre and boundary come from the inverse face projection, the lookup from the forward one")],
    "C04": [("C15", ("C15.S1", "C15.S3", "C15.S4", "C15.S5", "C15.S6"), None, "cell areas are equal only if the boundary is unprojected with the matching spherical/squashed triangle and an accurate angle helper")],
    "C06": [("C02", ("C02.R2",), None, "IDs keep their meaning only if lookup and geometry use the same quintant/segment relabelling"),
            ("C05", ("C05.R4",), None, "stored IDs keep their meaning only if the bit layout is the documented one"),
            ("C18", ("C18.D2", "C18.D3", "C18.D4", "C18.D5", "C18.D6"), None, "the face frame, the nearest-face choice and the quintant relabelling define which ID a point gets"),
            ("C17", ("C17.H",), None, "the curve tables define which ID a point gets within a quintant")],
    "C08": [("C20", ("C20.L3",), None, "sibling detection in compact relies on the stride between siblings")],
    "C09": [("C07", ("C07.T2", "C07.T3"), None, "uncompact delegates to cell_to_children, whose fan-out and bit placement decide the descendants")],
    "C11": [("C04", ("C04.R1",), None, "the ring has vertices*n points only if it is built from the length-exact split pentagon"),
            ("C19", ("C19.A5",), None, "the ring stays within a 180-degree window only if each unwrapping step is a whole turn")],
    "C17": [("C14", ("C14.O",), ("a5::core::hilbert::", "a5::core::tiling::"), "the position<->cell maps are total for depths 1..29 only if no index/overflow site in the curve and tiling code can fail")],
    "C15": [("C13", ("C13.X1",), None, "forward and inverse answer for every face and triangle only if the triangle memo tables have a slot for each")],
    "C18": [("C19", ("C19.A3",), None, "the ring of faces sits at the documented 93-degree longitude offset only if that offset is applied, in degrees, with opposite signs on the way in and out")],
    "C20": [("C07", ("C07.T3", "C07.T4"), None, "descendants stay inside their ancestor's ID interval only if children are placed two bits per level below the parent's bits, contiguously"),
            ("C14", ("C14.C",), "canonical:cell_to_", "ancestors and descendants keep the layout only if every hierarchy result is a serialize() output (no hand-assembled IDs)")],
    "C07": [("C14", ("C14.C",), "canonical:cell_to_", "one consistent tree needs canonical IDs from both hierarchy functions")],
    "C05": [("C14", ("C14.C",), "canonical:", "every ID returned by any API call is in the canonical form only if it is a serialize() output, the world cell, or taken from a collection of such")],
}


# C13.X1: the memo tables of the projection have a slot for every (face, triangle, flags) key.  Computed next to the
# memo rules of C13 because it needs their slot enumeration; a table one slot short is deterministic (C13 holds) but
# makes the projection - and with it the lookup - fail for one triangle of one face.
CROSS_ONLY = {"C13.X1"}


class Ctx:
    pass


def normalise_helpers(facts, vocab):
    """splice helpers outside the reference vocabulary into their callers; the extracted core of a reference function is
    first kept as a call, read as a call of that function where that is provably the same (fold_calls), and spliced last"""
    from .fold_calls import core_candidates, fold_core_calls
    if vocab is None:
        return [], []
    cores = core_candidates(facts, vocab)
    if not cores:
        return inline_new_helpers(facts, vocab), []
    log = inline_new_helpers(facts, set(vocab) | set(cores))
    folded = fold_core_calls(facts, vocab)
    log += inline_new_helpers(facts, vocab)
    return log, folded


def main():
    prop, tier, work = sys.argv[1], sys.argv[2], sys.argv[3]
    replay = sys.argv[4] if len(sys.argv) > 4 and sys.argv[4] else None
    ctx = Ctx()
    ctx.tier = tier
    ctx.work = work
    reference = load_reference(VERIF)
    ctx.facts = Facts(os.path.join(work, "facts.json"), reference)
    ctx.bad = Facts(os.path.join(work, "bad.json"))
    rel = os.path.join(work, "facts_release.json")
    ctx.facts_release = Facts(rel, reference) if os.path.exists(rel) else None
    # helper functions the reference release does not have are spliced into their callers (identity on an unchanged tree)
    for fx in (ctx.facts, ctx.facts_release):
        if fx is not None:
            lower_int_cmp(fx)
            desugar_combinators(fx)
    vocab = load_vocabulary(VERIF)
    ctx.inlined, ctx.folded = normalise_helpers(ctx.facts, vocab)
    ctx.facts.spliced_helpers = {c_ for _p, c_ in ctx.inlined}
    ctx.facts.consumed_closures = consumed_closures(ctx.facts, ctx.inlined)
    if ctx.facts_release is not None:
        normalise_helpers(ctx.facts_release, vocab)
    run = Run(prop, tier, LEVELS.get(prop, "other"))
    ctx.run = run
    try:
        mod = importlib.import_module(".rules.%s" % prop.lower(), __package__)
    except ModuleNotFoundError:
        print("no rule pack for %s" % prop)
        return 2
    run.units = {"mir_bodies": ctx.facts.n_bodies(), "call_sites": ctx.facts.n_calls(),
                 "named_constants": len(ctx.facts.consts), "statics": len(ctx.facts.statics),
                 "adts": len(ctx.facts.adts), "crate": ctx.facts.crate, "build": ctx.facts.opts}
    if ctx.facts.aliases:
        run.note("private items recognised as renamed (same module, signature / value as a reference item that is gone): %s" % sorted(ctx.facts.aliases.items()))
    if getattr(ctx.facts, "unwrapped_newtypes", None):
        run.note("private single-field wrappers the reference does not have, written out (type = the field's type): %s" % ctx.facts.unwrapped_newtypes)
    if getattr(ctx, "folded", None):
        run.note("calls of the extracted core of a reference function read as calls of that function (arguments and guards checked): %s" % sorted(set(ctx.folded)))
    if ctx.inlined:
        run.note("functions outside the reference vocabulary spliced into their callers before analysis: %s" % sorted({c for _p, c in ctx.inlined}))
    run.floor("UNITS", "MIR bodies analysed", ctx.facts.n_bodies(), FLOOR_BODIES)
    run.floor("UNITS", "call terminators analysed", ctx.facts.n_calls(), FLOOR_CALLS)
    try:
        mod.run(ctx)
    except Exception as e:   # an unrecognised program shape inside a rule: cannot decide -> fail closed, with a diagnosable line
        import traceback
        tb = traceback.extract_tb(e.__traceback__)[-1]
        run.bad(prop + ".ENGINE", "analysis-error", "rule pack stopped at %s:%d with %s: %s - the code has a shape the rule does not recognise; undecided, fails closed" % (
            os.path.basename(tb.filename), tb.lineno, type(e).__name__, str(e)[:200]))
    # instances a pack computes for the benefit of other properties only (they say nothing about the pack's own property)
    run.instances = [i for i in run.instances if i.rule not in CROSS_ONLY]
    for pack, prefixes, keypart, why in SHARED.get(prop, ()):
        sub = Ctx()
        sub.tier, sub.work, sub.facts, sub.bad, sub.facts_release = ctx.tier, ctx.work, ctx.facts, ctx.bad, ctx.facts_release
        sub.run = Run(pack, tier, "other")
        try:
            importlib.import_module(".rules.%s" % pack.lower(), __package__).run(sub)
        except Exception as e:
            run.bad(pack + ".ENGINE", "analysis-error", "shared rule pack %s stopped with %s: %s; undecided, fails closed" % (pack, type(e).__name__, str(e)[:200]))
            continue
        n = 0
        for i in sub.run.instances:
            if not i.ok and i.kind in ("floor", "anchor", "control") and i.rule.startswith(pack) and i.rule != pack:
                # the source pack could not evaluate all of its rules (missing anchor, fewer sites than counted): the
                # shared necessary conditions are then undecided here as well - fail closed instead of passing on less
                i.reason = "%s [shared rules from the %s pack are incomplete]" % (i.reason, pack)
                run.instances.append(i)
                continue
            if i.kind == "floor" or not any(i.rule == p or i.rule.startswith(p) for p in prefixes):
                continue
            if keypart and not any(kp in i.key for kp in ((keypart,) if isinstance(keypart, str) else keypart)):
                continue
            i.reason = "%s [shared necessary condition, from the %s pack: %s]" % (i.reason, pack, why)
            run.instances.append(i)
            n += 1
        for c in sub.run.controls:
            if any(c[0].startswith(p) for p in prefixes):
                run.controls.append(c)
        for a in sub.run.assumptions:
            if keypart and any(kp in a for kp in ((keypart,) if isinstance(keypart, str) else keypart)):
                run.assume(a)
        if n == 0 and set(prefixes) <= CROSS_ONLY:
            run.note("shared rules %s of the %s pack produced no instance on this tree (not judged)" % (",".join(prefixes), pack))
        elif n == 0:
            run.bad(prop + ".SHARED", "shared:%s:%s" % (pack, ",".join(prefixes)), "the shared rules produced no instance (fails closed)")
        run.rule_text += " ; shared from %s: %s (%s)" % (pack, ", ".join(prefixes), why)
    rc = run.finish()
    if replay:
        want = json.load(open(replay))["instance"]
        hit = [i for i in run.instances if i.rule == want["rule"] and i.key == want["key"]]
        for i in hit:
            print("replay: %s %s -> %s (%s)" % (i.rule, i.key, "holds" if i.ok else "VIOLATED", i.reason))
        if not hit:
            print("replay: instance no longer produced")
    return rc


if __name__ == "__main__":
    sys.exit(main())
