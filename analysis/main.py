"""python3 -m analysis.main <Cxx> <tier> <workdir> [replay-file]"""
import importlib
import json
import os
import sys

from .facts import Facts
from .run import Run

LEVELS = {"C13": "proof"}

# hand-confirmed floors of analysed units on the pinned tree (DESIGN appendix B)
FLOOR_BODIES = 300
FLOOR_CALLS = 1400


class Ctx:
    pass


def main():
    prop, tier, work = sys.argv[1], sys.argv[2], sys.argv[3]
    replay = sys.argv[4] if len(sys.argv) > 4 and sys.argv[4] else None
    ctx = Ctx()
    ctx.tier = tier
    ctx.work = work
    ctx.facts = Facts(os.path.join(work, "facts.json"))
    ctx.bad = Facts(os.path.join(work, "bad.json"))
    rel = os.path.join(work, "facts_release.json")
    ctx.facts_release = Facts(rel) if os.path.exists(rel) else None
    run = Run(prop, tier, LEVELS.get(prop, "other"))
    ctx.run = run
    try:
        mod = importlib.import_module(".rules.%s" % prop.lower(), __package__)
    except ModuleNotFoundError:
        print("no rule pack for %s" % prop)
        return 2
    run.units = {"mir_bodies": ctx.facts.n_bodies(), "call_sites": ctx.facts.n_calls(),
                 "named_constants": len(ctx.facts.consts), "statics": len(ctx.facts.statics),
                 "adts": len(ctx.facts.adts), "crate": ctx.facts.crate, "build": ctx.facts.opts}
    run.floor("UNITS", "MIR bodies analysed", ctx.facts.n_bodies(), FLOOR_BODIES)
    run.floor("UNITS", "call terminators analysed", ctx.facts.n_calls(), FLOOR_CALLS)
    mod.run(ctx)
    rc = run.finish()
    if replay:
        want = json.load(open(replay))["instance"]
        hit = [i for i in run.instances if i.rule == want["rule"] and i.key == want["key"]]
        for i in hit:
            print("replay: %s %s -> %s (%s)" % (i.rule, i.key, "holds" if i.ok else "VIOLATED", i.reason))
        if not hit:
            print("replay: instance no longer produced")
    return rc


if __name__ == "__main__":
    sys.exit(main())
