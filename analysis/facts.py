"""Loader for the JSON facts emitted by the a5facts driver + MIR pretty printer."""
import json
import re
import sys


class Facts:
    def __init__(self, path, reference=None):
        with open(path) as fh:
            text = fh.read()
        self.raw = json.loads(text)
        self.aliases = {}
        self.unwrapped_newtypes = []
        if reference is not None:
            from .normalize import redirect_into
            if redirect_into(self.raw):
                text = json.dumps(self.raw)
        if reference is not None:
            from .normalize import unwrap_newtypes
            t2, un = unwrap_newtypes(self.raw, reference, self.raw["crate"])
            if t2 is not None:
                text = t2
                self.raw = json.loads(text)
                self.unwrapped_newtypes = un
        if reference is not None:
            from .inline import rename_aliases, apply_aliases
            self.aliases = rename_aliases(self.raw, reference)
            perms = self.raw.pop("_param_perms", {})
            if self.aliases:
                self.raw = json.loads(apply_aliases(text, self.aliases))
            if perms:
                from .inline import restore_param_order
                restore_param_order(self.raw, perms)
            from .inline import restore_self_params
            self.self_restored = restore_self_params(self.raw, reference)
        # a call of a local generic function with concrete arguments goes to the monomorphic copy the driver made for it
        def _mono(o):
            if isinstance(o, dict):
                if o.get("k") == "fn" and "mono" in o:
                    o["resolved_generic"] = o.get("resolved")
                    o["resolved"] = o["mono"]
                    o["resolved_inst"] = o["mono"]
                for v in o.values():
                    _mono(v)
            elif isinstance(o, list):
                for v in o:
                    _mono(v)
        if any("mono_of" in f for f in self.raw["fns"]):
            _mono(self.raw["fns"])
        self.crate = self.raw["crate"]
        self.opts = self.raw["opts"]
        self.fns = {}
        for f in self.raw["fns"]:
            self.fns[f["path"]] = f
            for p in f.get("promoted", []):
                self.fns[p["path"]] = p
        # SwitchInt target values are raw bit patterns: make them signed for signed discriminant types
        bits = {"i8": 8, "i16": 16, "i32": 32, "i64": 64, "isize": 64, "i128": 128}
        for f in self.fns.values():
            for b in f["blocks"]:
                t = b["term"]
                if t["k"] == "switch" and t.get("discr_ty") in bits:
                    n = bits[t["discr_ty"]]
                    t["targets"] = [[str(int(v) - (1 << n) if int(v) >> (n - 1) else int(v)), bb] for v, bb in t["targets"]]
        self.type_sizes = self.raw.get("type_sizes", {})
        self.consts = {c["path"]: c for c in self.raw["consts"]}
        self.statics = {s["path"]: s for s in self.raw["statics"]}
        # an immutable plain-data static (array / scalar table) has a compile-time value exactly like a const: rules that
        # read named tables find it under the same name whichever keyword declares it
        for sp, st in self.statics.items():
            if st.get("value") is not None and not st["mutable"] and st["freeze"] and sp not in self.consts \
                    and (st["ty"].startswith("[") or st["ty"] in ("f64", "f32", "u8", "u16", "u32", "u64", "usize", "i8", "i16", "i32", "i64", "isize", "bool")):
                self.consts[sp] = {"path": sp, "ty": st["ty"], "vis": st.get("vis"), "span": st.get("span"), "value": st["value"], "from_static": True}
        self.adts = {a["path"]: a for a in self.raw["adts"]}
        self.root = self.raw["root"]
        self.items = self.raw["items"]
        self.unsafe_blocks = self.raw["unsafe_blocks"]
        self.impls = self.raw.get("impls", [])

    def fn(self, path):
        return self.fns.get(path)

    def find_fns(self, suffix):
        return [p for p in self.fns if p.endswith(suffix)]

    # census helpers -----------------------------------------------------
    def n_bodies(self):
        return sum(1 for f in self.raw["fns"] if f["kind"] in ("Fn", "AssocFn", "Closure"))

    def all_terms(self):
        for path, f in self.fns.items():
            for bi, b in enumerate(f["blocks"]):
                yield path, bi, b["term"]

    def n_calls(self):
        return sum(1 for _, _, t in self.all_terms() if t["k"] == "call")


# --------------------------------------------------------------------------
# generic-free callee names

_GEN = re.compile(r"::<(?!impl )[^<>]*>")


def strip_generics(s):
    """`std::vec::Vec::<u64>::push` -> `std::vec::Vec::push` (iterated for nesting)."""
    prev = None
    while prev != s:
        prev = s
        s = _GEN.sub("", s)
    # remaining `<...>` that are not qualified-self (`<T as Trait>`): type args like Vec<T, A>
    return s


def callee_name(func):
    """Best name for a call terminator's `func` (dict from the driver)."""
    if func.get("k") != "fn":
        return None
    return func.get("resolved") or func["path"]


def callee_names(func):
    """(declared path, resolved path) both generic-stripped."""
    if func.get("k") != "fn":
        return (None, None)
    return (strip_generics(func["path"]), strip_generics(func.get("resolved") or func["path"]))


# --------------------------------------------------------------------------
# pretty printer

def fmt_place(p):
    s = "_%d" % p["local"]
    for e in p["proj"]:
        k = e["k"]
        if k == "deref":
            s = "(*%s)" % s
        elif k == "field":
            s = "%s.%s" % (s, e.get("name", e["i"]))
        elif k == "index":
            s = "%s[_%d]" % (s, e["local"])
        elif k == "cindex":
            s = "%s[%s%d]" % (s, "-" if e["from_end"] else "", e["offset"])
        elif k == "downcast":
            s = "(%s as %s)" % (s, e["variant"])
        else:
            s = "%s.<%s>" % (s, k)
    return s


def fmt_const(c):
    if "named" in c:
        return "const %s" % c["named"]
    if "promoted" in c:
        return "promoted[%d]" % c["promoted"]
    v = c.get("value")
    if v is None:
        return "const ?:%s" % c["ty"]
    return fmt_value(v)


def fmt_value(v):
    k = v.get("k")
    if k in ("int", "char", "bits"):
        return "%s_%s" % (v["v"], v.get("ty", k))
    if k == "bool":
        return "true" if v["v"] else "false"
    if k == "float":
        return "%sf64" % v["v"]
    if k == "str":
        return json.dumps(v["v"])
    if k == "fn":
        return "fn %s" % (v.get("resolved_inst") or v["inst"])
    if k == "static_ref":
        return "&static %s" % v["path"]
    if k == "zst":
        return "zst:%s" % v["ty"]
    if k in ("array", "tuple", "slice"):
        return "[%s]" % ", ".join(fmt_value(x) for x in v["v"])
    if k == "struct":
        return "%s{%s}" % (v["adt"], ", ".join("%s: %s" % (n, fmt_value(x)) for n, x in v["fields"].items()))
    if k == "enum":
        return "%s::%s" % (v["adt"], v["variant"])
    if k == "ref":
        return "&%s" % fmt_value(v["v"])
    return "<%s>" % k


def fmt_op(o):
    k = o["k"]
    if k in ("copy", "move"):
        return ("move " if k == "move" else "") + fmt_place(o["place"])
    if k == "const":
        return fmt_const(o)
    if k == "fn":
        return fmt_value(o)
    return "<%s>" % k


def fmt_rv(rv):
    k = rv["k"]
    if k == "use":
        return fmt_op(rv["op"])
    if k == "repeat":
        return "[%s; %s]" % (fmt_op(rv["op"]), rv["n"])
    if k == "ref":
        return "&%s%s" % ("mut " if rv["mut"] else "", fmt_place(rv["place"]))
    if k == "rawptr":
        return "&raw %s" % fmt_place(rv["place"])
    if k == "tls_ref":
        return "tls &%s" % rv["path"]
    if k == "cast":
        return "%s as %s (%s)" % (fmt_op(rv["op"]), rv["to"], rv["kind"])
    if k == "binop":
        return "%s(%s, %s)" % (rv["op"], fmt_op(rv["a"]), fmt_op(rv["b"]))
    if k == "unop":
        return "%s(%s)" % (rv["op"], fmt_op(rv["a"]))
    if k == "discr":
        return "discriminant(%s)" % fmt_place(rv["place"])
    if k == "aggregate":
        a = rv["agg"]
        ops = ", ".join(fmt_op(o) for o in rv["ops"])
        if a == "adt":
            names = rv.get("fields", [])
            if len(names) == len(rv["ops"]):
                ops = ", ".join("%s: %s" % (n, fmt_op(o)) for n, o in zip(names, rv["ops"]))
            return "%s::%s{%s}" % (rv["adt"], rv["variant"], ops)
        if a == "closure":
            return "closure %s [%s]" % (rv["closure"], ops)
        return "%s(%s)" % (a, ops)
    return "<%s>" % k


def fmt_span(sp):
    if not sp:
        return ""
    s = "%s:%d" % (sp["file"], sp["line"])
    if "exp" in sp:
        s += " (in %s!)" % sp["exp"]
    return s


def show_fn(f, out=sys.stdout):
    w = out.write
    w("fn %s  [%s, args=%d] -> %s   @ %s\n" % (f["path"], f["kind"], f["arg_count"], f["ret_ty"], fmt_span(f["span"])))
    for i, l in enumerate(f["locals"]):
        w("    let _%d: %s%s\n" % (i, l["ty"], ("  // %s" % l["name"]) if "name" in l else ""))
    for u in f.get("upvars", []):
        w("    upvar %s = %s\n" % (u["name"], fmt_place(u["place"])))
    for bi, b in enumerate(f["blocks"]):
        w("  bb%d%s:\n" % (bi, " (cleanup)" if b["cleanup"] else ""))
        for st in b["stmts"]:
            k = st["k"]
            if k == "assign":
                w("    %s = %s   // %s\n" % (fmt_place(st["place"]), fmt_rv(st["rv"]), fmt_span(st.get("span"))))
            elif k in ("live", "dead"):
                continue
            elif k == "set_discr":
                w("    discriminant(%s) = %d\n" % (fmt_place(st["place"]), st["variant_idx"]))
            else:
                w("    <%s>\n" % k)
        t = b["term"]
        k = t["k"]
        if k == "goto":
            w("    goto bb%d\n" % t["target"])
        elif k == "switch":
            w("    switch %s [%s, otherwise: bb%d]\n" % (fmt_op(t["discr"]), ", ".join("%s: bb%d" % (v, bb) for v, bb in t["targets"]), t["otherwise"]))
        elif k == "call":
            fn = t["func"]
            name = (fn.get("resolved_inst") or fn.get("inst")) if fn.get("k") == "fn" else fmt_op(fn)
            w("    %s = %s(%s) -> %s   // %s\n" % (fmt_place(t["dest"]), name, ", ".join(fmt_op(a) for a in t["args"]),
                                                  "bb%d" % t["target"] if t["target"] is not None else "!", fmt_span(t["span"])))
        elif k == "assert":
            w("    assert(%s%s, %s[%s]) -> bb%d   // %s\n" % ("" if t["expected"] else "!", fmt_op(t["cond"]), t["msg"],
                                                          ", ".join(fmt_op(o) for o in t["ops"]), t["target"], fmt_span(t["span"])))
        elif k == "drop":
            w("    drop(%s) -> bb%d\n" % (fmt_place(t["place"]), t["target"]))
        else:
            w("    %s\n" % k)
    for p in f.get("promoted", []):
        show_fn(p, out)


if __name__ == "__main__":
    facts = Facts(sys.argv[1])
    for pat in sys.argv[2:]:
        for p in facts.fns:
            if p.endswith(pat) and facts.fns[p]["kind"] != "Promoted":
                show_fn(facts.fns[p])
