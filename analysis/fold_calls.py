"""Normal form: a call of the extracted core of an anchored function is read as a call of the anchored function.

A maintenance change may move the bulk of a reference function F(x) into a new private helper H(x, e(x)) that F
tail-calls after its guards, and let another function G call H directly with arguments it has at hand
(`serialize` -> `serialize_in_origin(cell, origin)`, called from `cell_to_children` with the origin it already
looked up).  Splicing H into G would replace the anchored call by a copy of its body.  Instead, a call H(b) in G is
rewritten to F(b_k) when this is provably the same thing:

  (1) F has one parameter, contains exactly one call of H, returns that call's result unchanged, and every argument of
      that call is an expression e_i over F's parameter (e_k is the parameter itself);
  (2) at the site in G every other argument b_i is, term for term, e_i with b_k substituted for the parameter;
  (3) called with what the range analysis knows about b_k at that site, F cannot take any way out other than the call
      of H (its guards in front of the call are dead there).

Anything else is left alone (and H is spliced as usual).  Returns a log of (G, H, F) for the evidence notes.
"""
from .facts import strip_generics
from .terms import fn_terms, strip_site, subst_params, walk


def _callee(t, facts):
    if t["k"] != "call" or t["func"].get("k") != "fn":
        return None
    n = strip_generics(t["func"].get("resolved") or t["func"]["path"])
    return n if n in facts.fns else None


def _peel(t):
    while t[0] in ("ref", "deref"):
        t = t[2] if t[0] == "ref" else t[1]
    return t


def _canon(t):
    """site-free, borrow-free comparison form"""
    if not isinstance(t, tuple) or not t:
        return t
    if t[0] == "ref":
        return _canon(t[2])
    if t[0] == "deref":
        return _canon(t[1])
    if t[0] == "call" and len(t) > 3:
        return ("call", t[1], tuple(_canon(a) for a in t[2]))
    return tuple(_canon(x) for x in t)


def core_candidates(facts, vocabulary):
    """new helpers that some one-parameter reference function tail-calls (condition (1) only): they are kept as calls
    while the other helpers are spliced, so that condition (3) is judged on the program with its guards in place"""
    r = _scan(facts, vocabulary, rewrite=False)
    _clear_caches()
    return r


def fold_core_calls(facts, vocabulary):
    r = _scan(facts, vocabulary, rewrite=True)
    _clear_caches()
    return r


def _clear_caches():
    # term views / evaluation caches built here describe the program before the rewrite and before the splicing that follows
    from . import terms as _t, query as _q
    for mod, names in ((_t, ("_ft_cache",)), (_q, ("_feas_cache", "_feas_edges", "_vt_cache", "_sum_cache"))):
        for nm in names:
            c_ = getattr(mod, nm, None)
            if isinstance(c_, dict):
                c_.clear()


def _scan(facts, vocabulary, rewrite):
    if vocabulary is None:
        return []
    new = {p for p, f in facts.fns.items() if f["kind"] in ("Fn", "AssocFn") and p not in vocabulary}
    if not new:
        return []
    sites = {}
    for G, f in facts.fns.items():
        if f["kind"] not in ("Fn", "AssocFn", "Closure"):
            continue
        for bi, b in enumerate(f["blocks"]):
            c = _callee(b["term"], facts)
            if c in new:
                sites.setdefault(c, []).append((G, bi))
    log = []
    eng = None
    for H, ss in sorted(sites.items()):
        callers = sorted({G for G, _ in ss})
        cands = []
        for F in callers:
            fF = facts.fns[F]
            if F not in vocabulary or fF["kind"] not in ("Fn", "AssocFn") or fF["arg_count"] != 1:
                continue
            if sum(1 for G, _ in ss if G == F) != 1:
                continue
            ftF = fn_terms(facts, F)
            cs = [c for c in ftF.calls() if c.callee == H]
            if len(cs) != 1:
                continue
            c = cs[0]
            from .query import return_sites
            rs = return_sites(ftF)
            call_t = strip_site(("call", c.callee, tuple(c.args), (ftF.path, c.block)))
            tail = [(b, t) for b, t in rs if strip_site(t) == call_t]
            if len(tail) != 1:
                continue
            e = [strip_site(a) for a in c.args]
            ks = [i for i, x in enumerate(e) if _peel(x) == ("param", 1)]
            if len(ks) != 1:
                continue
            if any(y[0] in ("phi", "escaped", "unknown", "uninit") for x in e for y in walk(x)):
                continue
            cands.append((F, ftF, c, e, ks[0], tail[0], rs))
        if len(cands) != 1:
            continue
        F, ftF, cF, e, k, tail, rs = cands[0]
        if not rewrite:
            if any(G != F for G, _ in ss):
                log.append(H)
            continue
        for G, bi in ss:
            if G == F:
                continue
            try:
                ftG = fn_terms(facts, G)
                cg = [c for c in ftG.calls() if c.block == bi]
                if len(cg) != 1 or len(cg[0].args) != len(e):
                    continue
                cG = cg[0]
                bk = cG.args[k]
                ok = True
                for i, ei in enumerate(e):
                    if i == k:
                        continue
                    want = subst_params(ei, {1: bk})
                    if _canon(strip_site(want)) != _canon(strip_site(cG.args[i])):
                        ok = False
                        break
                if not ok:
                    continue
                # (3) the guards of F are dead for what is known about b_k here
                from .ranges import Engine
                if eng is None:
                    eng = Engine(facts)
                aG = eng.default_args(G)
                eng.summary(G, aG)
                ctxG = eng.ctx(G, aG)
                avk = ctxG.av(bk, cG.block)
                if avk[0] in ("b", "t"):
                    continue
                eng.summary(F, (avk,))
                ctxF = eng.ctx(F, (avk,))
                other_live = [b for b, t in rs if (b, t) != tail and ctxF.block_live(b)]
                if other_live or not ctxF.block_live(cF.block):
                    continue
                # rewrite the call in place
                tm = facts.fns[G]["blocks"][bi]["term"]
                tm["func"] = {"k": "fn", "path": F, "inst": F, "local": True, "crate": facts.crate, "resolved": F, "resolved_inst": F,
                              "resolved_local": True, "resolved_kind": "Item", "folded_from": H}
                tm["args"] = [tm["args"][k]]
                log.append((G, H, F))
            except Exception:
                continue
    return log
