"""MIR-level inlining of helper functions that the reference release does not have.

The rule packs anchor on the functions of the reference tree (reference/functions.json).  A maintenance change that
extracts part of an anchored function into a new private helper must not change any verdict, so every local function
that is NOT in the reference vocabulary is spliced into its callers before the term layer, the range engine and the
rules see the program.  On a tree without new functions this is the identity.  The transformation is the textbook one:
callee locals are appended to the caller's, arguments are assigned to the callee's parameter locals, every `return`
becomes `dest = _0'; goto target`.  Unwind edges of the callee are kept (the CFG layer ignores cleanup blocks)."""
import copy
import json
import os

from .facts import strip_generics

MAX_DEPTH = 4
MAX_BLOCKS = 4000


def load_vocabulary(verif_dir):
    p = os.path.join(verif_dir, "reference", "functions.json")
    if not os.path.exists(p):
        return None
    with open(p) as fh:
        return set(json.load(fh)["functions"])


def load_reference(verif_dir):
    p = os.path.join(verif_dir, "reference", "functions.json")
    if not os.path.exists(p):
        return None
    with open(p) as fh:
        return json.load(fh)


def rename_aliases(raw, ref):
    """{current path: reference path} for private items that were merely renamed: a function of the reference that is
    gone, and exactly one function that the reference does not know, in the same module / impl, with the same parameter
    types (in order) and return type; a named constant that is gone and exactly one unknown constant of the same module,
    type and compiler-evaluated value.  Anything less certain is left alone (the unknown function is then spliced into
    its callers and rules anchored on the missing name fail closed)."""
    if ref is None or "signatures" not in ref:
        return {}
    out = {}
    cur = {x["path"]: x for x in raw["fns"] if x["kind"] in ("Fn", "AssocFn")}
    sigs = ref["signatures"]
    missing = [p for p in sigs if p not in cur]
    new = [p for p in cur if p not in sigs]

    def sig_of(x):
        return (x["parent"], tuple(l["ty"] for l in x["locals"][1:1 + x["arg_count"]]), x["ret_ty"])
    taken = set()
    for m in sorted(missing):
        want = (sigs[m]["parent"], tuple(sigs[m]["args"]), sigs[m]["ret"])
        cands = [n for n in new if sig_of(cur[n]) == want]
        rivals = [m2 for m2 in missing if (sigs[m2]["parent"], tuple(sigs[m2]["args"]), sigs[m2]["ret"]) == want]
        if len(cands) == 1 and len(rivals) == 1 and cands[0] not in taken:
            out[cands[0]] = m
            taken.add(cands[0])
    # renamed AND re-ordered / re-borrowed parameters: same module, same return type, same multiset of parameter types
    # up to one level of `&` / `&mut`, all parameter types distinct (so the correspondence is unambiguous)
    def base(ty):
        ty = ty.strip()
        while ty.startswith("&"):
            ty = ty[1:].strip()
            if ty.startswith("'"):
                ty = ty.split(" ", 1)[1] if " " in ty else ty
            if ty.startswith("mut "):
                ty = ty[4:]
        return ty
    perms = {}
    for m in sorted(missing):
        if m in out.values():
            continue
        want_args = [base(a) for a in sigs[m]["args"]]
        if len(set(want_args)) != len(want_args):
            continue
        cands = []
        for n in new:
            if n in taken:
                continue
            x = cur[n]
            have = [base(l["ty"]) for l in x["locals"][1:1 + x["arg_count"]]]
            if x["parent"] == sigs[m]["parent"] and x["ret_ty"] == sigs[m]["ret"] and sorted(have) == sorted(want_args):
                cands.append((n, have))
        rivals = [m2 for m2 in missing if m2 not in out.values() and sigs[m2]["parent"] == sigs[m]["parent"] and sigs[m2]["ret"] == sigs[m]["ret"]
                  and sorted(base(a) for a in sigs[m2]["args"]) == sorted(want_args)]
        if len(cands) == 1 and len(rivals) == 1:
            n, have = cands[0]
            out[n] = m
            taken.add(n)
            perms[m] = [have.index(a) for a in want_args]      # reference position j -> current position perms[m][j]
    # same name, parameters merely re-ordered (distinct parameter types up to one level of borrow, same return type)
    for m in sorted(sigs):
        if m not in cur or m in perms:
            continue
        x = cur[m]
        have_full = [l["ty"] for l in x["locals"][1:1 + x["arg_count"]]]
        if have_full == list(sigs[m]["args"]) or x["ret_ty"] != sigs[m]["ret"]:
            continue
        want_args = [base(a) for a in sigs[m]["args"]]
        have = [base(a) for a in have_full]
        if len(set(want_args)) == len(want_args) and sorted(have) == sorted(want_args) and have != want_args:
            perms[m] = [have.index(a) for a in want_args]
    raw["_param_perms"] = perms
    # moved to another module / file unchanged: same simple name, same parameter and return types, exactly one such item
    for m in sorted(missing):
        if m in out.values():
            continue
        name = m.rsplit("::", 1)[-1]
        want = (tuple(sigs[m]["args"]), sigs[m]["ret"])
        cands = [n for n in new if n not in taken and n.rsplit("::", 1)[-1] == name and cur[n]["kind"] == "Fn"
                 and (tuple(l["ty"] for l in cur[n]["locals"][1:1 + cur[n]["arg_count"]]), cur[n]["ret_ty"]) == want]
        rivals = [m2 for m2 in missing if m2 not in out.values() and m2.rsplit("::", 1)[-1] == name and (tuple(sigs[m2]["args"]), sigs[m2]["ret"]) == want]
        if len(cands) == 1 and len(rivals) == 1 and "::{impl" not in m and not sigs[m]["parent"].endswith("}"):
            out[cands[0]] = m
            taken.add(cands[0])
    rc = ref.get("consts", {})
    ccur = {c["path"]: c for c in raw["consts"]}
    cmiss = [p for p in rc if p not in ccur]
    cnew = [p for p in ccur if p not in rc]
    for m in sorted(cmiss):
        mod = m.rsplit("::", 1)[0]
        want = (rc[m]["ty"], json.dumps(rc[m]["value"], sort_keys=True))
        cands = [n for n in cnew if n.rsplit("::", 1)[0] == mod and (ccur[n]["ty"], json.dumps(ccur[n].get("value"), sort_keys=True)) == want and rc[m]["value"] is not None]
        rivals = [m2 for m2 in cmiss if m2.rsplit("::", 1)[0] == mod and (rc[m2]["ty"], json.dumps(rc[m2]["value"], sort_keys=True)) == want]
        if len(cands) == 1 and len(rivals) == 1 and cands[0] not in taken:
            out[cands[0]] = m
            taken.add(cands[0])
    # statics (lazy tables) moved to another module unchanged: same simple name, exactly one such static; the generated type
    # of a lazy_static carries the same path without the crate name, so that spelling is aliased too
    rs = ref.get("statics") or {}
    rs_paths = set(rs if isinstance(rs, list) else rs.keys())
    scur = {x["path"] for x in raw.get("statics", [])}
    smiss = [p for p in rs_paths if p not in scur]
    snew = [p for p in scur if p not in rs_paths]
    crate = raw["crate"] + "::"
    for m in sorted(smiss):
        name = m.rsplit("::", 1)[-1]
        cands = [n for n in snew if n.rsplit("::", 1)[-1] == name]
        rivals = [m2 for m2 in smiss if m2.rsplit("::", 1)[-1] == name]
        if len(cands) == 1 and len(rivals) == 1 and cands[0] not in taken:
            out[cands[0]] = m
            taken.add(cands[0])
            if cands[0].startswith(crate) and m.startswith(crate):
                out[cands[0][len(crate):]] = m[len(crate):]
    # constants moved to another module unchanged: same simple name, type and value, exactly one such constant
    for m in sorted(cmiss):
        if m in out.values() or rc[m]["value"] is None:
            continue
        name = m.rsplit("::", 1)[-1]
        want = (rc[m]["ty"], json.dumps(rc[m]["value"], sort_keys=True))
        cands = [n for n in cnew if n not in taken and n.rsplit("::", 1)[-1] == name and (ccur[n]["ty"], json.dumps(ccur[n].get("value"), sort_keys=True)) == want]
        rivals = [m2 for m2 in cmiss if m2 not in out.values() and m2.rsplit("::", 1)[-1] == name and (rc[m2]["ty"], json.dumps(rc[m2]["value"], sort_keys=True)) == want]
        if len(cands) == 1 and len(rivals) == 1:
            out[cands[0]] = m
            taken.add(cands[0])
    return out


def apply_aliases(text, aliases):
    """rename items in the facts JSON text (paths are only ever followed by a non-identifier character)"""
    import re
    for cur, refname in sorted(aliases.items(), key=lambda kv: -len(kv[0])):
        text = re.sub(re.escape(cur) + r"(?![A-Za-z0-9_])", refname.replace("\\", "\\\\"), text)
    return text


def restore_param_order(raw, perms):
    """a renamed helper whose parameters were re-ordered: put its parameters (and the arguments of every call to it)
    back into the reference order, so that positional rules keep meaning what they meant"""
    for m, perm in perms.items():
        if perm == list(range(len(perm))):
            continue
        for x in raw["fns"]:
            bodies = [x] + list(x.get("promoted", []))
            if x["path"] == m:
                n = x["arg_count"]
                # local k (1-based current position perm[j]+1) becomes local j+1
                lmap = {perm[j] + 1: j + 1 for j in range(n)}

                def ren(o):
                    if isinstance(o, dict):
                        for k, v in list(o.items()):
                            if k == "local" and isinstance(v, int) and not isinstance(v, bool) and v in lmap:
                                o[k] = lmap[v]
                            else:
                                ren(v)
                    elif isinstance(o, list):
                        for v in o:
                            ren(v)
                ren(x["blocks"])
                old = list(x["locals"])
                for cur_i, ref_i in lmap.items():
                    x["locals"][ref_i] = old[cur_i]
            for bdy in bodies:
                for b in bdy["blocks"]:
                    t = b["term"]
                    if t["k"] == "call" and t["func"].get("k") == "fn" and strip_generics(t["func"].get("resolved") or t["func"]["path"]) == m and len(t["args"]) == len(perm):
                        t["args"] = [t["args"][perm[j]] for j in range(len(perm))]


def restore_self_params(raw, ref):
    """a method of the reference whose receiver was dropped because it never used `self` (clippy::unused_self): same path,
    same remaining parameter types, same return type.  A dummy first parameter is re-inserted in the body and a unit
    argument at every call site, so that positional rules keep addressing the parameters they mean.  Returns the paths."""
    if ref is None or "signatures" not in ref:
        return []
    done = []
    sigs = ref["signatures"]
    for x in raw["fns"]:
        if x["kind"] not in ("Fn", "AssocFn") or x["path"] not in sigs:
            continue
        want = sigs[x["path"]]
        have = [l["ty"] for l in x["locals"][1:1 + x["arg_count"]]]
        if len(want["args"]) != len(have) + 1 or want["args"][1:] != have or want["ret"] != x["ret_ty"]:
            continue
        first = want["args"][0].replace("mut ", "").lstrip("&").strip()
        if not (x["parent"].endswith(first) or first.endswith(x["parent"].split("::")[-1])):
            continue

        def shift(o):
            if isinstance(o, dict):
                for k, v in list(o.items()):
                    if k == "local" and isinstance(v, int) and not isinstance(v, bool) and v >= 1:
                        o[k] = v + 1
                    else:
                        shift(v)
            elif isinstance(o, list):
                for v in o:
                    shift(v)
        shift(x["blocks"])
        x["locals"].insert(1, {"ty": want["args"][0], "mut": False, "name": "self"})
        x["arg_count"] += 1
        done.append(x["path"])
    if done:
        unit = {"k": "const", "ty": "()", "value": {"k": "zst", "ty": "()"}}
        for x in raw["fns"]:
            for bdy in [x] + list(x.get("promoted", [])):
                for b in bdy["blocks"]:
                    t = b["term"]
                    if t["k"] == "call" and t["func"].get("k") == "fn" and strip_generics(t["func"].get("resolved") or t["func"]["path"]) in done:
                        t["args"] = [dict(unit)] + t["args"]
    return done


def _renumber(o, base, bmap):
    """deep copy of JSON `o` with every place-local shifted by `base`"""
    if isinstance(o, dict):
        out = {}
        for k, v in o.items():
            if k == "local" and isinstance(v, int) and not isinstance(v, bool):
                out[k] = v + base
            else:
                out[k] = _renumber(v, base, bmap)
        return out
    if isinstance(o, list):
        return [_renumber(v, base, bmap) for v in o]
    return o


def _remap_term(t, bmap):
    k = t["k"]
    if k == "goto":
        t["target"] = bmap[t["target"]]
    elif k == "switch":
        t["targets"] = [[v, bmap[bb]] for v, bb in t["targets"]]
        t["otherwise"] = bmap[t["otherwise"]]
    elif k in ("call", "assert", "drop"):
        if t.get("target") is not None:
            t["target"] = bmap[t["target"]]
        if t.get("unwind") is not None:
            t["unwind"] = bmap[t["unwind"]]
    return t


def _defs_of(f, local):
    """all definitions (statement rvalues / 'call') of a whole local in body f"""
    out = []
    for b in f["blocks"]:
        for st in b["stmts"]:
            if st["k"] == "assign" and st["place"]["local"] == local and not st["place"]["proj"]:
                out.append(st["rv"])
        t = b["term"]
        if t["k"] == "call" and t["dest"]["local"] == local and not t["dest"]["proj"]:
            out.append("call")
    return out


def _referent(f, local, depth=0):
    """the caller place behind reference-typed temp `local`, when it is assigned exactly once as `&[mut] P` with P a local
    and field projections only (through any chain of reborrows `&mut *q`); else None"""
    if depth > 6:
        return None
    ds = _defs_of(f, local)
    if len(ds) != 1 or ds[0] == "call" or ds[0].get("k") not in ("ref", "rawptr"):
        return None
    pl = ds[0]["place"]
    proj = list(pl["proj"])
    if proj and proj[0]["k"] == "deref":
        base = _referent(f, pl["local"], depth + 1)
        if base is None:
            return None
        loc, proj = base["local"], list(base["proj"]) + proj[1:]
    else:
        loc = pl["local"]
    if any(e["k"] != "field" for e in proj):
        return None
    if loc <= f.get("arg_count", 0):
        # a parameter of the caller: still a fixed place for the duration of the call
        pass
    return {"local": loc, "proj": proj}


def _rewrite_deref(o, param, target):
    """replace every place (*param).rest by target.rest (in place, on already renumbered JSON)"""
    if isinstance(o, dict):
        if "local" in o and "proj" in o and isinstance(o["proj"], list) and o["local"] == param and o["proj"] and o["proj"][0].get("k") == "deref":
            o["local"] = target["local"]
            o["proj"] = [dict(e) for e in target["proj"]] + o["proj"][1:]
        for v in o.values():
            _rewrite_deref(v, param, target)
    elif isinstance(o, list):
        for v in o:
            _rewrite_deref(v, param, target)


def _uses(blocks, local):
    """number of reads/writes of `local` in the given blocks, not counting its own whole-local definitions and storage markers"""
    n = 0

    def visit(o):
        nonlocal n
        if isinstance(o, dict):
            if o.get("local") == local and not isinstance(o.get("local"), bool) and ("proj" in o or o.get("k") == "index"):
                n += 1
            for v in o.values():
                visit(v)
        elif isinstance(o, list):
            for v in o:
                visit(v)
    for b in blocks:
        for st in b["stmts"]:
            if st["k"] in ("live", "dead"):
                continue
            if st["k"] == "assign":
                if not (st["place"]["local"] == local and not st["place"]["proj"]):
                    visit(st["place"])
                visit(st["rv"])
            else:
                visit(st)
        visit(b["term"])
    return n


def callee_of(t, facts):
    if t["k"] != "call" or t["func"].get("k") != "fn":
        return None
    name = strip_generics(t["func"].get("resolved") or t["func"]["path"])
    return name if name in facts.fns else None


def inline_into(facts, path, is_new, stack=(), log=None):
    """returns True if the body of `path` was changed"""
    f = facts.fns[path]
    changed = False
    depth = len(stack)
    bi = 0
    while bi < len(f["blocks"]):
        blk = f["blocks"][bi]
        t = blk["term"]
        callee = callee_of(t, facts)
        # a closure of this very function called directly (`let f = |x| ..; f(a)`): Fn::call(&f, (a,)) with the body as callee
        direct_closure = (callee is not None and facts.fns[callee]["kind"] == "Closure" and callee.startswith(path + "::{closure")
                          and t["func"].get("k") == "fn" and t["func"].get("path", "").startswith("std::ops::Fn")
                          and len(t["args"]) == 2 and t["args"][1].get("k") in ("move", "copy") and not t["args"][1]["place"]["proj"]
                          and t.get("target") is not None and depth < MAX_DEPTH and len(f["blocks"]) <= MAX_BLOCKS and callee not in stack)
        if direct_closure:
            g0 = facts.fns[callee]
            tup = t["args"][1]["place"]
            t = dict(t)
            t["args"] = [t["args"][0]] + [{"k": "copy", "place": {"local": tup["local"], "proj": [{"k": "field", "i": k_, "name": str(k_)}], "ty": g0["locals"][2 + k_]["ty"]}}
                                        for k_ in range(g0["arg_count"] - 1)]
            blk["term"] = t
        if not direct_closure and (callee is None or not is_new(callee) or callee == path or callee in stack or depth >= MAX_DEPTH
                or t.get("target") is None or len(f["blocks"]) > MAX_BLOCKS
                or facts.fns[callee]["kind"] not in ("Fn", "AssocFn") or not facts.fns[callee]["blocks"]):
            bi += 1
            continue
        # make sure the callee itself is already flattened
        inline_into(facts, callee, is_new, stack + (path,), log)
        g = facts.fns[callee]
        argc = g["arg_count"]
        if len(t["args"]) != argc:
            bi += 1
            continue   # spread-argument ABI (closures): leave the call alone
        f.setdefault("own_blocks", len(f["blocks"]))     # blocks written in this function itself (before any splicing)
        base = len(f["locals"])
        nb = len(f["blocks"])
        bmap = {j: nb + j for j in range(len(g["blocks"]))}
        for lj, loc in enumerate(g["locals"]):
            l2 = dict(loc)
            if "name" in l2 and lj > argc:
                l2["name"] = l2["name"]
            f["locals"].append(l2)
        span = t.get("span")
        # argument assignments at the call site
        for ai, a in enumerate(t["args"]):
            ty = g["locals"][1 + ai]["ty"]
            blk["stmts"].append({"k": "assign", "place": {"local": base + 1 + ai, "proj": [], "ty": ty},
                                 "rv": {"k": "use", "op": a}, "span": span, "inlined_arg": callee})
        dest, target = t["dest"], t["target"]
        # reference arguments whose referent is a fixed caller place: accesses through the parameter become accesses
        # to that place (the callee cannot re-point its own parameter: checked), so field/element updates made by a
        # helper through `&mut` are seen as updates of the caller's variable, exactly as before the extraction
        through = {}
        for ai, a in enumerate(t["args"]):
            pty = g["locals"][1 + ai]["ty"]
            if a.get("k") in ("move", "copy") and not a["place"]["proj"] and pty.startswith("&") and not _defs_of(g, 1 + ai):
                ref = _referent(f, a["place"]["local"])
                if ref is not None:
                    through[base + 1 + ai] = ref
        blk["term"] = {"k": "goto", "target": nb}
        for j, gb in enumerate(g["blocks"]):
            nbk = {"cleanup": gb["cleanup"], "stmts": _renumber(gb["stmts"], base, bmap)}
            for prm, ref in through.items():
                _rewrite_deref(nbk["stmts"], prm, ref)
            gt = gb["term"]
            if gt["k"] == "return":
                nbk["stmts"].append({"k": "assign", "place": copy.deepcopy(dest),
                                     "rv": {"k": "use", "op": {"k": "move", "place": {"local": base, "proj": [], "ty": g["ret_ty"]}}},
                                     "span": gt.get("span") or span, "inlined_ret": callee})
                nbk["term"] = {"k": "goto", "target": target}
            else:
                nbk["term"] = _remap_term(_renumber(gt, base, bmap), bmap)
                for prm, ref in through.items():
                    _rewrite_deref(nbk["term"], prm, ref)
            f["blocks"].append(nbk)
        # a reference that was only created to be handed to the helper and is no longer used (every access through it
        # was redirected to the referent) is dropped together with its borrow statements: the caller's variable is
        # then no longer "mutably borrowed" as far as the term layer is concerned, as before the extraction
        for prm, ref in through.items():
            if _uses(f["blocks"][nb:], prm) == 0:
                ai = prm - base - 1
                blk["stmts"] = [st for st in blk["stmts"] if not (st.get("inlined_arg") == callee and st["place"]["local"] == prm)]
                tmp = t["args"][ai]["place"]["local"]
                for _ in range(6):
                    if tmp is None or _uses(f["blocks"], tmp) != 0:
                        break
                    nxt = None
                    for b2 in f["blocks"]:
                        keep = []
                        for st in b2["stmts"]:
                            if st["k"] == "assign" and st["place"]["local"] == tmp and not st["place"]["proj"] and st["rv"].get("k") in ("ref", "rawptr"):
                                pl = st["rv"]["place"]
                                if pl["proj"] and pl["proj"][0]["k"] == "deref":
                                    nxt = pl["local"]
                                continue
                            keep.append(st)
                        b2["stmts"] = keep
                    tmp = nxt
        f.setdefault("inlined", []).append(callee)
        if log is not None:
            log.append((path, callee))
        changed = True
        # continue scanning at the same block index + 1; the appended blocks are scanned later in this loop
        bi += 1
    return changed


def inline_new_helpers(facts, vocabulary):
    """splice every local function outside `vocabulary` into its callers (in place); returns the list of (caller, callee)"""
    if vocabulary is None:
        return []
    new = {p for p, f in facts.fns.items() if f["kind"] in ("Fn", "AssocFn") and p not in vocabulary}
    has_direct_closure_calls = any(t_["k"] == "call" and t_["func"].get("k") == "fn" and t_["func"].get("path", "").startswith("std::ops::Fn")
                                   and "{closure" in (t_["func"].get("resolved") or "") for f_ in facts.fns.values() for b_ in f_["blocks"] for t_ in [b_["term"]])
    if not new and not has_direct_closure_calls:
        return []
    log = []
    for p in sorted(facts.fns):
        if facts.fns[p]["kind"] in ("Fn", "AssocFn", "Closure", "StaticInit"):
            inline_into(facts, p, lambda c: c in new, (), log)
    return log


def consumed_closures(facts, log):
    """closures whose every use was a direct call that has been spliced into the function that creates them: the value is
    still built there, but nothing receives it any more, so their separate bodies say nothing beyond what the parent says"""
    out = set()
    for parent, callee in log:
        f = facts.fns.get(callee)
        if f is None or f["kind"] != "Closure" or parent not in facts.fns:
            continue
        g = facts.fns[parent]
        holders = set()
        for b in g["blocks"]:
            for st in b["stmts"]:
                if st["k"] == "assign" and st["rv"].get("k") == "aggregate" and st["rv"].get("agg") == "closure" and st["rv"].get("closure") == callee:
                    holders.add(st["place"]["local"])
        changed = True
        while changed:
            changed = False
            for b in g["blocks"]:
                for st in b["stmts"]:
                    if st["k"] != "assign" or st["place"]["local"] in holders:
                        continue
                    rv = st["rv"]
                    src = None
                    whole = lambda pl: all(e["k"] == "deref" for e in pl["proj"])      # the closure itself, not a captured variable
                    if rv.get("k") == "use" and rv["op"].get("k") in ("move", "copy") and whole(rv["op"]["place"]):
                        src = rv["op"]["place"]["local"]
                    elif rv.get("k") in ("ref", "rawptr") and whole(rv["place"]):
                        src = rv["place"]["local"]
                    if src in holders:
                        holders.add(st["place"]["local"])
                        changed = True
        used = False
        for b in g["blocks"]:
            t = b["term"]
            if t["k"] != "call":
                continue
            if callee_of(t, facts) == callee:
                used = True
            for a in t["args"]:
                if a.get("k") in ("move", "copy") and a["place"]["local"] in holders and all(e["k"] == "deref" for e in a["place"]["proj"]):
                    used = True
        if not used:
            out.add(callee)
    return out
