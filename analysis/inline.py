"""MIR-level inlining of helper functions that the reference release does not have.

The rule packs anchor on the functions of the reference tree (reference/functions.json).  A maintenance change that
extracts part of an anchored function into a new private helper must not change any verdict, so every local function
that is NOT in the reference vocabulary is spliced into its callers before the term layer, the range engine and the
rules see the program.  On a tree without new functions this is the identity.  The transformation is the textbook one:
callee locals are appended to the caller's, arguments are assigned to the callee's parameter locals, every `return`
becomes `dest = _0'; goto target`.  Unwind edges of the callee are kept (the CFG layer ignores cleanup blocks)."""
import copy
import json
import os

from .facts import strip_generics

MAX_DEPTH = 4
MAX_BLOCKS = 4000


def load_vocabulary(verif_dir):
    p = os.path.join(verif_dir, "reference", "functions.json")
    if not os.path.exists(p):
        return None
    with open(p) as fh:
        return set(json.load(fh)["functions"])


def _renumber(o, base, bmap):
    """deep copy of JSON `o` with every place-local shifted by `base`"""
    if isinstance(o, dict):
        out = {}
        for k, v in o.items():
            if k == "local" and isinstance(v, int) and not isinstance(v, bool):
                out[k] = v + base
            else:
                out[k] = _renumber(v, base, bmap)
        return out
    if isinstance(o, list):
        return [_renumber(v, base, bmap) for v in o]
    return o


def _remap_term(t, bmap):
    k = t["k"]
    if k == "goto":
        t["target"] = bmap[t["target"]]
    elif k == "switch":
        t["targets"] = [[v, bmap[bb]] for v, bb in t["targets"]]
        t["otherwise"] = bmap[t["otherwise"]]
    elif k in ("call", "assert", "drop"):
        if t.get("target") is not None:
            t["target"] = bmap[t["target"]]
        if t.get("unwind") is not None:
            t["unwind"] = bmap[t["unwind"]]
    return t


def _defs_of(f, local):
    """all definitions (statement rvalues / 'call') of a whole local in body f"""
    out = []
    for b in f["blocks"]:
        for st in b["stmts"]:
            if st["k"] == "assign" and st["place"]["local"] == local and not st["place"]["proj"]:
                out.append(st["rv"])
        t = b["term"]
        if t["k"] == "call" and t["dest"]["local"] == local and not t["dest"]["proj"]:
            out.append("call")
    return out


def _referent(f, local, depth=0):
    """the caller place behind reference-typed temp `local`, when it is assigned exactly once as `&[mut] P` with P a local
    and field projections only (through any chain of reborrows `&mut *q`); else None"""
    if depth > 6:
        return None
    ds = _defs_of(f, local)
    if len(ds) != 1 or ds[0] == "call" or ds[0].get("k") not in ("ref", "rawptr"):
        return None
    pl = ds[0]["place"]
    proj = list(pl["proj"])
    if proj and proj[0]["k"] == "deref":
        base = _referent(f, pl["local"], depth + 1)
        if base is None:
            return None
        loc, proj = base["local"], list(base["proj"]) + proj[1:]
    else:
        loc = pl["local"]
    if any(e["k"] != "field" for e in proj):
        return None
    if loc <= f.get("arg_count", 0):
        # a parameter of the caller: still a fixed place for the duration of the call
        pass
    return {"local": loc, "proj": proj}


def _rewrite_deref(o, param, target):
    """replace every place (*param).rest by target.rest (in place, on already renumbered JSON)"""
    if isinstance(o, dict):
        if "local" in o and "proj" in o and isinstance(o["proj"], list) and o["local"] == param and o["proj"] and o["proj"][0].get("k") == "deref":
            o["local"] = target["local"]
            o["proj"] = [dict(e) for e in target["proj"]] + o["proj"][1:]
        for v in o.values():
            _rewrite_deref(v, param, target)
    elif isinstance(o, list):
        for v in o:
            _rewrite_deref(v, param, target)


def _uses(blocks, local):
    """number of reads/writes of `local` in the given blocks, not counting its own whole-local definitions and storage markers"""
    n = 0

    def visit(o):
        nonlocal n
        if isinstance(o, dict):
            if o.get("local") == local and not isinstance(o.get("local"), bool) and ("proj" in o or o.get("k") == "index"):
                n += 1
            for v in o.values():
                visit(v)
        elif isinstance(o, list):
            for v in o:
                visit(v)
    for b in blocks:
        for st in b["stmts"]:
            if st["k"] in ("live", "dead"):
                continue
            if st["k"] == "assign":
                if not (st["place"]["local"] == local and not st["place"]["proj"]):
                    visit(st["place"])
                visit(st["rv"])
            else:
                visit(st)
        visit(b["term"])
    return n


def callee_of(t, facts):
    if t["k"] != "call" or t["func"].get("k") != "fn":
        return None
    name = strip_generics(t["func"].get("resolved") or t["func"]["path"])
    return name if name in facts.fns else None


def inline_into(facts, path, is_new, stack=(), log=None):
    """returns True if the body of `path` was changed"""
    f = facts.fns[path]
    changed = False
    depth = len(stack)
    bi = 0
    while bi < len(f["blocks"]):
        blk = f["blocks"][bi]
        t = blk["term"]
        callee = callee_of(t, facts)
        if (callee is None or not is_new(callee) or callee == path or callee in stack or depth >= MAX_DEPTH
                or t.get("target") is None or len(f["blocks"]) > MAX_BLOCKS
                or facts.fns[callee]["kind"] not in ("Fn", "AssocFn") or not facts.fns[callee]["blocks"]):
            bi += 1
            continue
        # make sure the callee itself is already flattened
        inline_into(facts, callee, is_new, stack + (path,), log)
        g = facts.fns[callee]
        argc = g["arg_count"]
        if len(t["args"]) != argc:
            bi += 1
            continue   # spread-argument ABI (closures): leave the call alone
        base = len(f["locals"])
        nb = len(f["blocks"])
        bmap = {j: nb + j for j in range(len(g["blocks"]))}
        for lj, loc in enumerate(g["locals"]):
            l2 = dict(loc)
            if "name" in l2 and lj > argc:
                l2["name"] = l2["name"]
            f["locals"].append(l2)
        span = t.get("span")
        # argument assignments at the call site
        for ai, a in enumerate(t["args"]):
            ty = g["locals"][1 + ai]["ty"]
            blk["stmts"].append({"k": "assign", "place": {"local": base + 1 + ai, "proj": [], "ty": ty},
                                 "rv": {"k": "use", "op": a}, "span": span, "inlined_arg": callee})
        dest, target = t["dest"], t["target"]
        # reference arguments whose referent is a fixed caller place: accesses through the parameter become accesses
        # to that place (the callee cannot re-point its own parameter: checked), so field/element updates made by a
        # helper through `&mut` are seen as updates of the caller's variable, exactly as before the extraction
        through = {}
        for ai, a in enumerate(t["args"]):
            pty = g["locals"][1 + ai]["ty"]
            if a.get("k") in ("move", "copy") and not a["place"]["proj"] and pty.startswith("&") and not _defs_of(g, 1 + ai):
                ref = _referent(f, a["place"]["local"])
                if ref is not None:
                    through[base + 1 + ai] = ref
        blk["term"] = {"k": "goto", "target": nb}
        for j, gb in enumerate(g["blocks"]):
            nbk = {"cleanup": gb["cleanup"], "stmts": _renumber(gb["stmts"], base, bmap)}
            for prm, ref in through.items():
                _rewrite_deref(nbk["stmts"], prm, ref)
            gt = gb["term"]
            if gt["k"] == "return":
                nbk["stmts"].append({"k": "assign", "place": copy.deepcopy(dest),
                                     "rv": {"k": "use", "op": {"k": "move", "place": {"local": base, "proj": [], "ty": g["ret_ty"]}}},
                                     "span": gt.get("span") or span, "inlined_ret": callee})
                nbk["term"] = {"k": "goto", "target": target}
            else:
                nbk["term"] = _remap_term(_renumber(gt, base, bmap), bmap)
                for prm, ref in through.items():
                    _rewrite_deref(nbk["term"], prm, ref)
            f["blocks"].append(nbk)
        # a reference that was only created to be handed to the helper and is no longer used (every access through it
        # was redirected to the referent) is dropped together with its borrow statements: the caller's variable is
        # then no longer "mutably borrowed" as far as the term layer is concerned, as before the extraction
        for prm, ref in through.items():
            if _uses(f["blocks"][nb:], prm) == 0:
                ai = prm - base - 1
                blk["stmts"] = [st for st in blk["stmts"] if not (st.get("inlined_arg") == callee and st["place"]["local"] == prm)]
                tmp = t["args"][ai]["place"]["local"]
                for _ in range(6):
                    if tmp is None or _uses(f["blocks"], tmp) != 0:
                        break
                    nxt = None
                    for b2 in f["blocks"]:
                        keep = []
                        for st in b2["stmts"]:
                            if st["k"] == "assign" and st["place"]["local"] == tmp and not st["place"]["proj"] and st["rv"].get("k") in ("ref", "rawptr"):
                                pl = st["rv"]["place"]
                                if pl["proj"] and pl["proj"][0]["k"] == "deref":
                                    nxt = pl["local"]
                                continue
                            keep.append(st)
                        b2["stmts"] = keep
                    tmp = nxt
        f.setdefault("inlined", []).append(callee)
        if log is not None:
            log.append((path, callee))
        changed = True
        # continue scanning at the same block index + 1; the appended blocks are scanned later in this loop
        bi += 1
    return changed


def inline_new_helpers(facts, vocabulary):
    """splice every local function outside `vocabulary` into its callers (in place); returns the list of (caller, callee)"""
    if vocabulary is None:
        return []
    new = {p for p, f in facts.fns.items() if f["kind"] in ("Fn", "AssocFn") and p not in vocabulary}
    if not new:
        return []
    log = []
    for p in sorted(facts.fns):
        if facts.fns[p]["kind"] in ("Fn", "AssocFn", "Closure", "StaticInit"):
            inline_into(facts, p, lambda c: c in new, (), log)
    return log
