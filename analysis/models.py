"""Models of calls for the range engine: local functions (by context-sensitive summaries), closures handed to
higher-order std functions, once-cells, and value models of the std functions this crate uses.
Every external callee without a model returns the top of its declared type and is recorded in
Engine.assumed_total (the visible trusted base)."""
import math

from .avals import *
from .terms import walk, strip_site, const_int, fmt
from .ranges import fit

PI = math.pi


def closure_of(c, term):
    """(closure fn path, env abstract value) for a closure aggregate term (possibly behind refs)"""
    t = term
    while t[0] in ("ref", "deref"):
        t = t[2] if t[0] == "ref" else t[1]
    if t[0] == "agg" and t[1] == "closure":
        return t[2], t
    if t[0] == "fnref":
        return t[1], None
    return None, None


def call_closure(c, path, clos_term, call_args, at, edge, site):
    """abstract result of invoking closure/fn item `path` with argument values `call_args`"""
    eng = c.eng
    if path not in c.facts.fns:
        return TOP
    f = c.facts.fns[path]
    if f["kind"] == "Closure":
        env = c.av(clos_term, at, edge) if clos_term is not None else S({})
        ty1 = f["locals"][1]["ty"] if f["arg_count"] >= 1 else ""
        if ty1.startswith("&"):
            env = R(env)
        args = (env,) + tuple(call_args)
    else:
        args = tuple(call_args)
    n = f["arg_count"]
    if len(args) < n:
        args = args + tuple(top_of_type(f["locals"][i + 1]["ty"], c.facts) for i in range(len(args), n))
    args = args[:n]
    if any(a[0] == "b" for a in args):
        return BOT
    r = eng.summary(path, args, caller=(c.path, c.args, site))
    if c.final and c.is_live() and at is not None:
        c.note_callee(path, args)
    return r


def variant_payload(av, name):
    if av[0] == "e":
        for n, v in av[1]:
            if n == name:
                f0 = sget(v, "0")
                return f0 if f0 is not None else TOP
        return BOT
    return None


def has_variant(av, name):
    if av[0] == "e":
        return any(n == name for n, _ in av[1])
    return True


def deref_av(a):
    return a[1] if a[0] == "r" else a


def f_unary(name, a):
    if a[0] != "f":
        a = FTOP
    lo, hi, nan = a[1], a[2], a[3]
    inf = math.isinf(lo) or math.isinf(hi)
    if name in ("sin", "cos"):
        return F(-1.0, 1.0, nan or inf)
    if name in ("tan",):
        return FTOP
    if name == "atan":
        return F(-PI / 2 - 1e-15, PI / 2 + 1e-15, nan)
    if name in ("asin",):
        return F(-PI / 2 - 1e-15, PI / 2 + 1e-15, True)
    if name in ("acos",):
        return F(0.0, PI + 1e-15, True)
    if name == "sqrt":
        return F(0.0, math.sqrt(hi) * (1 + 1e-15) if hi >= 0 and not math.isinf(hi) else math.inf, nan or lo < 0)
    if name == "abs":
        if lo >= 0:
            return F(lo, hi, nan)
        if hi <= 0:
            return F(-hi, -lo, nan)
        return F(0.0, max(-lo, hi), nan)
    if name in ("floor", "ceil", "round", "trunc"):
        fn = {"floor": math.floor, "ceil": math.ceil, "round": lambda x: math.floor(x + 0.5) if x >= 0 else -math.floor(-x + 0.5), "trunc": math.trunc}[name]
        nlo = float(fn(lo)) if not math.isinf(lo) else lo
        nhi = float(fn(hi)) if not math.isinf(hi) else hi
        return F(nlo, nhi, nan)
    if name in ("to_radians", "to_degrees"):
        k = PI / 180 if name == "to_radians" else 180 / PI
        if inf:
            return F(-math.inf, math.inf, nan)
        return F(math.nextafter(lo * k, -math.inf), math.nextafter(hi * k, math.inf), nan)
    if name in ("exp", "ln", "log2", "log10", "powi", "powf", "cbrt", "sinh", "cosh", "tanh", "recip", "mul_add", "log"):
        return FTOP
    return None


FLOAT_PREFIXES = ("std::f64::<impl f64>::", "core::f64::<impl f64>::", "core::num::<impl f64>::", "std::f32::<impl f32>::")


def call_model(c, t, at, edge):
    name, args = t[1], t[2]
    site = t[3][1] if len(t) > 3 and t[3] else None
    facts = c.facts
    eng = c.eng
    if not isinstance(name, str):
        # indirect call through a fn pointer / closure value: unknown callee
        return c.top_for(t)

    def av(x):
        return c.av(x, at, edge)

    short = name.split("::")[-1]
    # ---------------------------------------------------------------- local functions
    f = facts.fns.get(name)
    if f is not None and f["kind"] in ("Fn", "AssocFn"):
        a = tuple(av(x) for x in args)
        if any(x[0] == "b" for x in a):
            return BOT
        if c.choice is not None and c.choice[0] == name:
            D = eng.disjuncts(name, c.choice[1])
            if D and c.choice[2] < len(D):
                eng.summary(name, a, caller=(c.path, c.args, site))
                if c.final and c.is_live() and at is not None and (site is None or at == site):
                    c.note_callee(name, a)
                return D[c.choice[2]][1]
        r = eng.summary(name, a, caller=(c.path, c.args, site))
        # (the call is made where it stands: evaluated as part of a larger term at some other block, the facts that hold at
        # the call itself may be missing there - such an evaluation is not a call this context makes)
        if c.final and c.is_live() and at is not None and (site is None or at == site):
            c.note_callee(name, a)
        return r
    if f is not None and f["kind"] == "Closure":
        # direct call of a closure body: (env, tupled args)
        envt = args[0] if args else None
        tup = av(args[1]) if len(args) > 1 else S({})
        cargs = [v for _, v in sorted(tup[1], key=lambda kv: int(kv[0]))] if tup[0] == "s" else []
        env = av(envt) if envt is not None else S({})
        a = (env,) + tuple(cargs)
        n = f["arg_count"]
        a = a[:n] + tuple(top_of_type(f["locals"][i + 1]["ty"], facts) for i in range(len(a), n))
        if any(x[0] == "b" for x in a):
            return BOT
        r = eng.summary(name, a, caller=(c.path, c.args, site))
        # (the call is made where it stands: evaluated as part of a larger term at some other block, the facts that hold at
        # the call itself may be missing there - such an evaluation is not a call this context makes)
        if c.final and c.is_live() and at is not None and (site is None or at == site):
            c.note_callee(name, a)
        return r
    # ---------------------------------------------------------------- closure invocation through Fn traits
    if short in ("call", "call_mut", "call_once") and ("ops::Fn" in name or "FnMut" in name or "FnOnce" in name or "function::" in name):
        path, ct = closure_of(c, args[0]) if args else (None, None)
        if path:
            tup = av(args[1]) if len(args) > 1 else S({})
            cargs = [v for _, v in sorted(tup[1], key=lambda kv: int(kv[0]))] if tup[0] == "s" else []
            return call_closure(c, path, ct, cargs, at, edge, site)
        return c.top_for(t)

    # ---------------------------------------------------------------- lengths and containers
    if short == "len" and len(args) == 1:
        a = deref_av(av(args[0]))
        # no object is larger than isize::MAX bytes: a Vec<T> / [T] has at most isize::MAX / size_of::<T>() elements
        cap = MAXLEN
        rty = (c.ft.tyof(args[0]) or "").strip()
        while rty.startswith("&"):
            rty = rty[1:].strip()
            if rty.startswith("mut "):
                rty = rty[4:]
        if rty.startswith("[") and rty.endswith("]") and ";" not in rty:
            cap = maxlen_of(rty[1:-1], facts)
        elif rty.startswith(("std::vec::Vec<", "alloc::vec::Vec<")):
            ga = split_generics(rty)[1]
            if ga:
                cap = maxlen_of(ga[0], facts)
        if a[0] == "v" and a[1][0] == "i":
            return meet(a[1], I(0, cap))
        return I(0, cap)
    if short == "is_empty" and len(args) == 1:
        a = deref_av(av(args[0]))
        if a[0] == "v" and a[1][0] == "i":
            if a[1][2] == 0:
                return I(1, 1)
            if a[1][1] > 0:
                return I(0, 0)
        return I(0, 1)
    if name.endswith("Vec::new") or name.endswith("Vec::with_capacity") or name.endswith("Vec::with_capacity_in"):
        el = elem_of_type(c, t)
        return V(I(0, 0), el, ())
    if name.endswith("vec::from_elem"):
        n = av(args[1])
        e = av(args[0])
        return V(n if n[0] == "i" else I(0, MAXLEN), e, None)
    if short in ("to_vec", "clone", "into_vec", "to_owned") and len(args) == 1:
        a = av(args[0])
        return deref_av(a) if a[0] in ("r",) else a
    if short in ("deref", "deref_mut", "as_slice", "as_mut_slice", "as_ref", "as_mut", "borrow", "borrow_mut") and len(args) == 1:
        # lazily initialised statics first
        tgt = args[0]
        for x in walk(tgt):
            if x[0] == "static":
                v = static_value(c, x[1], name)
                if v is not None:
                    return R(v)
        a = av(args[0])
        return a if a[0] == "r" else R(a)
    if (name.endswith("Index<I>>::index") or name.endswith("IndexMut<I>>::index_mut")
            or (name.endswith("::index") and "ops::Index<" in name) or (name.endswith("::index_mut") and "ops::IndexMut<" in name)) and len(args) == 2:
        a = deref_av(av(args[0]))
        if a[0] == "v":
            i = av(args[1])
            rng_full = args[1]
            while rng_full[0] in ("ref", "deref"):
                rng_full = rng_full[2] if rng_full[0] == "ref" else rng_full[1]
            if rng_full[0] == "agg" and isinstance(rng_full[2], str) and rng_full[2].startswith("std::ops::RangeFull"):
                return R(a)            # v[..] is the whole of v
            if i[0] == "s" and sget(i, "start") is not None and sget(i, "end") is not None:
                # v[a..b]: a slice of b - a elements of the same kind
                lo, hi = sget(i, "start"), sget(i, "end")
                if lo[0] == "i" and hi[0] == "i":
                    ln = I(max(0, hi[1] - lo[2]), max(0, hi[2] - lo[1]))
                    # b - a with the common part cancelled (v[i..i + n] has exactly n elements whatever i is)
                    rng_t = args[1]
                    while rng_t[0] in ("ref", "deref"):
                        rng_t = rng_t[2] if rng_t[0] == "ref" else rng_t[1]
                    if rng_t[0] == "agg" and isinstance(rng_t[2], str) and rng_t[2].startswith("std::ops::Range::") and len(rng_t[3]) == 2 and at is not None:
                        ls, le = c.linear(rng_t[3][0], at), c.linear(rng_t[3][1], at)
                        if ls and le:
                            diff = dict(le[0])
                            for x_, k_ in ls[0].items():
                                diff[x_] = diff.get(x_, 0) - k_
                            lo_d = hi_d = le[1] - ls[1]
                            for x_, k_ in diff.items():
                                if k_ == 0:
                                    continue
                                rg = c.atom_range_refined(x_, at, edge)
                                if rg is None:
                                    lo_d = hi_d = None
                                    break
                                lo_d += min(k_ * rg[0], k_ * rg[1])
                                hi_d += max(k_ * rg[0], k_ * rg[1])
                            if lo_d is not None:
                                rel = meet(ln, I(max(0, lo_d), max(0, hi_d)))
                                if rel[0] == "i":
                                    ln = rel
                    if a[1][0] == "i":
                        ln = meet(ln, I(0, a[1][2]))
                    return R(V(ln if ln[0] == "i" else I(0, MAXLEN), a[2], None))
                return R(V(I(0, a[1][2]) if a[1][0] == "i" else I(0, MAXLEN), a[2], None))
            if a[3] is not None and i[0] == "i" and i[1] == i[2] and 0 <= i[1] < len(a[3]):
                return R(a[3][i[1]])
            return R(a[2])
        return c.top_for(t)
    if short in ("first", "last", "get", "first_mut", "last_mut", "get_mut", "pop") and args:
        a = deref_av(av(args[0]))
        el = a[2] if a[0] == "v" else TOP
        if short == "pop":
            return E({"None": S({}), "Some": S({"0": el})})
        return E({"None": S({}), "Some": S({"0": R(el)})})
    if name.endswith("Vec::push") or name.endswith("::extend") or name.endswith("Vec::insert") or short in ("reverse", "sort", "sort_unstable", "sort_by", "dedup", "clear", "truncate", "swap", "extend_from_slice", "append", "fill"):
        if short == "sort_by" and len(args) == 2:
            path, ct = closure_of(c, args[1])
            a = deref_av(av(args[0]))
            el = a[2] if a[0] == "v" else TOP
            if path:
                call_closure(c, path, ct, [R(el), R(el)], at, edge, site)
        return S({})
    # ---------------------------------------------------------------- iterator plumbing (items are modelled at `next`)
    if short in ("into_iter", "iter", "iter_mut", "enumerate", "rev", "copied", "cloned", "by_ref", "take", "skip", "zip", "chain", "map", "filter", "peekable",
                 "flat_map", "filter_map", "take_while", "skip_while", "fuse", "inspect") and not (("option::Option" in name or "result::Result" in name) and short in ("filter", "map", "take", "zip", "copied", "cloned", "inspect")):
        sq = seq_of(c, t, at, edge, site)
        if sq is not None:
            return sq          # an iterator is abstracted by the sequence it yields: (how many items, what an item looks like)
        if short == "map" and len(args) == 2:
            path, ct = closure_of(c, args[1])
            if path:
                src = args[0]
                el = elem_of_iter(c, src, at, edge)
                call_closure(c, path, ct, [el], at, edge, site)
        return c.top_for(t)
    if short == "next":
        return c.top_for(t)
    if short in ("collect", "from_iter"):
        # length-preserving for Vec when collecting a map over a known collection; otherwise unknown length
        el = elem_of_type(c, t)
        src = args[0] if args else None
        sq0 = seq_of(c, src, at, edge, site) if src is not None else None
        ty0 = c.ft.tyof(t) or ""
        if sq0 is not None and sq0[0] == "b":
            return BOT
        if sq0 is not None and sq0[0] == "v" and ty0.startswith(("std::vec::Vec<", "alloc::vec::Vec<")):
            return V(sq0[1], sq0[2], None)
        if sq0 is not None and sq0[0] == "v" and (ty0.startswith("std::result::Result<std::vec::Vec<") or ty0.startswith("std::option::Option<std::vec::Vec<")):
            okv, bad = ("Ok", "Err") if ty0.startswith("std::result") else ("Some", "None")
            inner = TOP
            e0 = sq0[2]
            if e0[0] == "e":
                for vn, pl in e0[1]:
                    if vn == okv:
                        inner = sget(pl, "0") or TOP
            return E({okv: S({"0": V(sq0[1], inner, None)}), bad: (S({"0": TOP}) if bad == "Err" else S({}))})
        ln = I(0, MAXLEN)
        elem = el
        if src is not None:
            x = src
            names = []
            while x[0] == "call" and isinstance(x[1], str) and x[2]:
                names.append(x[1].split("::")[-1])
                if names[-1] == "map":
                    path, ct = closure_of(c, x[2][1]) if len(x[2]) > 1 else (None, None)
                    if path:
                        inner_el = elem_of_iter(c, x[2][0], at, edge)
                        elem = call_closure(c, path, ct, [inner_el], at, edge, site)
                x = x[2][0]
                while x[0] in ("ref", "deref"):
                    x = x[2] if x[0] == "ref" else x[1]
            if all(n in ("map", "into_iter", "iter", "copied", "cloned", "enumerate", "rev") for n in names):
                b = c.av(x, at, edge)
                b = deref_av(b)
                ty = c.ft.tyof(t) or ""
                if b[0] == "v" and (ty.startswith("std::result::Result<std::vec::Vec<") or ty.startswith("std::option::Option<std::vec::Vec<")):
                    # collect::<Result<Vec<_>, E>>(): Ok holds exactly one element per input, or the first Err / None
                    okv, bad = ("Ok", "Err") if ty.startswith("std::result") else ("Some", "None")
                    inner = TOP
                    if elem[0] == "e":
                        for vn, pl in elem[1]:
                            if vn == okv:
                                inner = sget(pl, "0") or TOP
                    return E({okv: S({"0": V(b[1], inner, None)}), bad: (S({"0": TOP}) if bad == "Err" else S({}))})
                if b[0] == "v" and ty.startswith(("std::vec::Vec<", "alloc::vec::Vec<")):
                    ln = b[1]
                    if "map" not in names:
                        elem = b[2]
                elif b[0] == "s" and x[0] == "agg" and "Range" in x[2]:
                    lo, hi = sget(b, "start"), sget(b, "end")
                    if lo and hi and lo[0] == "i" and hi[0] == "i":
                        ln = I(max(0, hi[1] - lo[2]), max(0, hi[2] - lo[1]))
                        elem = I(lo[1], max(lo[1], hi[2] - 1))
        return V(ln, elem, None)
    if short == "fold" and len(args) == 3:
        path, ct = closure_of(c, args[2])
        init = av(args[1])
        if path:
            el = elem_of_iter(c, args[0], at, edge)
            ps = positional_fold_bound(c, path, args[0], init, el, at, edge)
            if ps is not None:
                # sum of d_i * 2^(w*i) over distinct positions i < L with d_i < 2^w: every partial sum is below 2^(w*L)
                acc = I(0, ps)
                call_closure(c, path, ct, [acc, el], at, edge, site)
                return acc
            acc = init
            for _ in range(3):
                r = call_closure(c, path, ct, [acc, el], at, edge, site)
                nacc = widen(acc, join(acc, r))
                if nacc == acc:
                    break
                acc = nacc
            return acc
        return c.top_for(t)
    if short == "contains" and "ops::Range" in name and len(args) == 2:
        from .query import resolve_promoted
        rng, x = args
        for _ in range(6):
            while rng[0] in ("ref", "deref"):
                rng = rng[2] if rng[0] == "ref" else rng[1]
            if rng[0] == "promoted":
                rng = resolve_promoted(facts, rng)
            else:
                break
        xv = deref_av(av(x))
        lo = hi = None
        incl = False
        if rng[0] == "agg" and rng[2].startswith("std::ops::Range::") and len(rng[3]) == 2:
            lo, hi = av(rng[3][0]), av(rng[3][1])
        elif rng[0] == "call" and isinstance(rng[1], str) and rng[1].endswith("RangeInclusive::new") and len(rng[2]) == 2:
            lo, hi = av(rng[2][0]), av(rng[2][1])
            incl = True
        if lo is not None and xv[0] == "i" and lo[0] == "i" and hi[0] == "i":
            top = hi[1] if incl else hi[1] - 1      # certainly-inside upper bound
            if xv[1] >= lo[2] and xv[2] <= top:
                return I(1, 1)
            topmax = hi[2] if incl else hi[2] - 1
            if xv[2] < lo[1] or xv[1] > topmax:
                return I(0, 0)
        return I(0, 1)
    if name.endswith("HashSet::contains") or name.endswith("HashSet::insert") or name.endswith("HashMap::contains_key"):
        return I(0, 1)
    # ---------------------------------------------------------------- Option / Result
    if name.endswith("Try>::branch") and len(args) == 1:
        a = av(args[0])
        if a[0] == "e":
            out = {}
            for n, v in a[1]:
                if n in ("Ok", "Some"):
                    out["Continue"] = v
                else:
                    out["Break"] = S({"0": E({n: v})})
            return E(out)
        return c.top_for(t)
    if short == "from_residual":
        ty = c.ft.tyof(t) or ""
        if "result::Result<" in ty:
            return E({"Err": S({"0": TOP})})
        if "option::Option<" in ty:
            return E({"None": S({})})
        return c.top_for(t)
    if name.endswith("Option::unwrap_or") and len(args) == 2:
        a = av(args[0])
        p = variant_payload(a, "Some")
        d = av(args[1])
        if p is None:
            return join(c.top_for(t), d)
        r = p
        if has_variant(a, "None"):
            r = join(r, d)
        return r
    if (name.endswith("Option::unwrap_or_else") or name.endswith("Result::unwrap_or_else")) and len(args) == 2:
        a = av(args[0])
        p = variant_payload(a, "Some" if "Option" in name else "Ok")
        path, ct = closure_of(c, args[1])
        d = TOP
        if path:
            extra = [] if "Option" in name else [variant_payload(a, "Err") or TOP]
            d = call_closure(c, path, ct, extra, at, edge, site)
        if p is None:
            return join(c.top_for(t), d)
        r = p
        if has_variant(a, "None" if "Option" in name else "Err"):
            r = join(r, d)
        return r
    if name.endswith("Option::unwrap_or_default") or name.endswith("Result::unwrap_or_default"):
        a = av(args[0])
        p = variant_payload(a, "Some" if "Option" in name else "Ok")
        dflt = default_value(c, t, at, edge, site)
        if p is None:
            return join(c.top_for(t), dflt)
        return join(p, dflt)
    if (name.endswith("Option::unwrap") or name.endswith("Option::expect") or name.endswith("Result::unwrap") or name.endswith("Result::expect")) and args:
        a = av(args[0])
        p = variant_payload(a, "Some" if "Option" in name else "Ok")
        return p if p is not None and p[0] != "b" else c.top_for(t)
    if name.endswith("Result::map_err") and len(args) == 2:
        a = av(args[0])
        path, ct = closure_of(c, args[1])
        if path:
            e = variant_payload(a, "Err")
            if e is None or e[0] != "b":
                call_closure(c, path, ct, [e if e is not None else TOP], at, edge, site)
        okp = variant_payload(a, "Ok")
        if a[0] == "e" and okp is not None:
            out = {"Err": S({"0": TOP})}
            if okp[0] != "b":
                out["Ok"] = S({"0": okp})
            return E(out)
        return c.top_for(t)
    if name.endswith("Option::copied") or name.endswith("Option::cloned"):
        a = av(args[0])
        p = variant_payload(a, "Some")
        if a[0] == "e" and p is not None:
            out = {}
            for n, v in a[1]:
                out[n] = v if n == "None" else S({"0": deref_av(p)})
            return E(out)
        return c.top_for(t)
    # ---------------------------------------------------------------- numbers
    if name in ("std::cmp::max", "core::cmp::max", "std::cmp::Ord::max", "core::cmp::Ord::max") and len(args) == 2:
        a, b = av(args[0]), av(args[1])
        if a[0] == "i" and b[0] == "i":
            return I(max(a[1], b[1]), max(a[2], b[2]))
        return c.top_for(t)
    if name in ("std::cmp::min", "core::cmp::min", "std::cmp::Ord::min", "core::cmp::Ord::min") and len(args) == 2:
        a, b = av(args[0]), av(args[1])
        if a[0] == "i" and b[0] == "i":
            return I(min(a[1], b[1]), min(a[2], b[2]))
        return c.top_for(t)
    if name.startswith("core::num::<impl ") and short == "pow" and len(args) == 2:
        a, b = av(args[0]), av(args[1])
        ty = name[len("core::num::<impl "):].split(">")[0]
        if a[0] == "i" and b[0] == "i" and a[1] >= 0 and b[1] >= 0 and b[2] <= 256:
            return fit(I(a[1] ** b[1], a[2] ** b[2]), ty)
        r = int_range(ty)
        return I(*r) if r else TOP
    if name.startswith("core::num::<impl ") and short == "div_ceil" and len(args) == 2:
        a, b = av(args[0]), av(args[1])
        if a[0] == "i" and b[0] == "i" and a[1] >= 0 and b[1] > 0:
            return I(-(-a[1] // b[2]), -(-a[2] // b[1]))
        return c.top_for(t)
    if name.startswith("core::num::<impl ") and short in ("abs", "unsigned_abs", "wrapping_add", "wrapping_sub", "wrapping_mul", "saturating_sub", "saturating_add",
                                                            "checked_add", "checked_sub", "checked_mul", "checked_shl", "rem_euclid", "div_euclid", "min", "max", "clamp",
                                                            "leading_zeros", "trailing_zeros", "count_ones", "from_str_radix"):
        ty = name[len("core::num::<impl "):].split(">")[0]
        r = int_range(ty)
        vals = [av(x) for x in args]
        if all(v[0] == "i" for v in vals) and r:
            a = vals[0]
            b = vals[1] if len(vals) > 1 else None
            if short == "saturating_sub":
                return I(max(r[0], a[1] - b[2]), max(r[0], a[2] - b[1]))
            if short == "saturating_add":
                return I(min(r[1], a[1] + b[1]), min(r[1], a[2] + b[2]))
            if short in ("min",):
                return I(min(a[1], b[1]), min(a[2], b[2]))
            if short in ("max",):
                return I(max(a[1], b[1]), max(a[2], b[2]))
            if short == "clamp" and len(vals) == 3:
                return I(max(a[1], vals[1][1]), min(a[2], vals[2][2])) if vals[1][1] <= vals[2][2] else I(*r)
            if short in ("leading_zeros", "trailing_zeros", "count_ones"):
                return I(0, INT_BITS.get(ty, (64, False))[0])
            if short == "rem_euclid" and b[1] > 0:
                return I(0, b[2] - 1)
            if short in ("checked_add", "checked_sub", "checked_mul"):
                ex = {"checked_add": i_add_, "checked_sub": i_sub_, "checked_mul": i_mul_}[short](a, b)
                inner = I(max(ex[1], r[0]), min(ex[2], r[1]))
                out = {}
                if ex[1] < r[0] or ex[2] > r[1]:
                    out["None"] = S({})
                if inner[0] != "b":
                    out["Some"] = S({"0": inner})
                return E(out)
        return c.top_for(t)
    for pre in FLOAT_PREFIXES:
        if name.startswith(pre):
            fname = name[len(pre):]
            if fname == "atan2":
                return F(-PI - 1e-15, PI + 1e-15, True)
            if fname in ("min", "max") and len(args) == 2:
                a, b = av(args[0]), av(args[1])
                if a[0] == "f" and b[0] == "f":
                    fn = min if fname == "min" else max
                    return F(fn(a[1], b[1]), fn(a[2], b[2]), a[3] and b[3])
                return FTOP
            if fname == "clamp":
                return FTOP
            r = f_unary(fname, av(args[0])) if args else None
            if r is not None:
                return r
            return FTOP
    # ---------------------------------------------------------------- once cells / thread locals
    if name.endswith("OnceLock::get_or_init") and len(args) == 2:
        path, ct = closure_of(c, args[1])
        if path:
            v = eng.once_value(path)
            return R(v)
        return c.top_for(t)
    if name.endswith("LocalKey::with"):
        return c.top_for(t)
    if short in ("map", "map_err", "and_then") and len(args) == 2 and ("result::Result" in name or "option::Option" in name):
        # Option / Result combinators: the function (closure or fn item) is applied to the payload of the active variant
        a = av(args[0])
        if a[0] == "b":
            return BOT
        is_res = "result::Result" in name
        act = ("Err" if short == "map_err" else "Ok") if is_res else "Some"
        pl = variant_payload(a, act) if a[0] == "e" else None
        path_, ct_ = closure_of(c, args[1])
        r_ = None
        if pl is not None:
            if path_:
                r_ = call_closure(c, path_, ct_, [pl], at, edge, site)
            else:
                fr = args[1]
                while fr[0] in ("ref", "deref"):
                    fr = fr[2] if fr[0] == "ref" else fr[1]
                if fr[0] == "fnref" and fr[1] in facts.fns:
                    r_ = eng.summary(fr[1], (pl,), caller=(c.path, c.args, site))
                    if c.final and c.is_live() and at is not None:
                        c.note_callee(fr[1], (pl,))
        if a[0] == "e" and r_ is not None:
            out_ = {}
            for vn, vp in a[1]:
                if vn != act:
                    out_[vn] = vp
            if short == "and_then":
                if r_[0] == "e":
                    for vn, vp in r_[1]:
                        out_[vn] = join(out_[vn], vp) if vn in out_ else vp
                    return E(out_)
                return c.top_for(t)
            if any(vn == act for vn, _vp in a[1]):
                out_[act] = S({"0": r_})
            return E(out_)
        return c.top_for(t)
    if short == "filter" and len(args) == 2 and "Option" in name:
        # Some(v).filter(p) is Some(v) or None; the predicate sees &v
        a = av(args[0])
        path_, ct_ = closure_of(c, args[1])
        pl = variant_payload(a, "Some") if a[0] == "e" else None
        if path_ and pl is not None:
            call_closure(c, path_, ct_, [R(pl)], at, edge, site)
        if a[0] == "e":
            return join(a, E({"None": S({})}))
        return c.top_for(t)
    if short == "try_from" and len(args) == 1 and "TryFrom<" in name:
        # integer TryFrom: Ok(x) exactly when x fits the target type, else Err
        src = deref_av(av(args[0]))
        ty = c.ft.tyof(t) or ""
        tgt = top_of_type(ty, facts)
        okp = variant_payload(tgt, "Ok") if tgt[0] == "e" else None
        if src[0] == "i" and okp is not None and okp[0] == "i":
            inner = meet(src, okp)
            out = {}
            if inner[0] != "b":
                out["Ok"] = S({"0": inner})
            if src[1] < okp[1] or src[2] > okp[2]:
                out["Err"] = S({"0": TOP})
            return E(out)
        return c.top_for(t)
    if short == "from" and len(args) == 1 and "From<" in name and "num::" in name:
        # lossless integer widening
        src = deref_av(av(args[0]))
        tgt = top_of_type(c.ft.tyof(t) or "", facts)
        if src[0] == "i" and tgt[0] == "i":
            return meet(src, tgt)
        return c.top_for(t)
    if short == "parse" and len(args) == 1:
        # x.to_string().parse::<int>() yields Ok(x) when x fits the target type (decimal round trip), else Err
        x = args[0]
        for _ in range(8):
            if x[0] in ("ref", "deref"):
                x = x[2] if x[0] == "ref" else x[1]
            elif x[0] == "call" and isinstance(x[1], str) and x[2] and (x[1].endswith("::deref") or x[1].endswith("::as_str") or x[1].endswith("::borrow")):
                x = x[2][0]
            else:
                break
        if x[0] == "call" and isinstance(x[1], str) and x[1].endswith("::to_string") and len(x[2]) == 1:
            src = deref_av(av(x[2][0]))
            ty = c.ft.tyof(t) or ""
            tgt = top_of_type(ty, facts)
            okp = variant_payload(tgt, "Ok") if tgt[0] == "e" else None
            if src[0] == "i" and okp is not None and okp[0] == "i":
                inner = meet(src, okp)
                out = {"Err": S({"0": TOP})}
                if inner[0] != "b":
                    out["Ok"] = S({"0": inner})
                return E(out)
        return c.top_for(t)
    # ---------------------------------------------------------------- formatting & strings: pure, opaque
    if name.startswith("core::fmt") or name.startswith("std::fmt") or name.startswith("alloc::fmt") or short in ("to_string", "must_use", "parse", "format"):
        return c.top_for(t)
    eng.assumed_total.add(name)
    return c.top_for(t)


def i_add_(a, b):
    return ("i", a[1] + b[1], a[2] + b[2])


def i_sub_(a, b):
    return ("i", a[1] - b[2], a[2] - b[1])


def i_mul_(a, b):
    ps = [a[1] * b[1], a[1] * b[2], a[2] * b[1], a[2] * b[2]]
    return ("i", min(ps), max(ps))


def elem_of_type(c, t):
    ty = c.ft.tyof(t) or ""
    from .avals import split_generics
    base, args = split_generics(ty)
    if args and ("Vec" in base):
        return top_of_type(args[0], c.facts)
    return TOP


def seq_of(c, t, at, edge, site, depth=0):
    """V(number of items, item) for an iterator expression, or None when nothing is known: ranges, collections through
    iter / into_iter, copied / cloned / rev / by_ref, enumerate, zip, take / skip, map / filter / flat_map with the closure
    applied to the abstract item (so obligations inside the closures are met with the right argument)"""
    if depth > 12:
        return None
    x = t
    while x[0] in ("ref", "deref"):
        x = x[2] if x[0] == "ref" else x[1]
    if x[0] == "agg" and isinstance(x[2], str) and x[2].startswith("std::ops::Range::") and len(x[3]) == 2:
        lo, hi = c.av(x[3][0], at, edge), c.av(x[3][1], at, edge)
        if lo[0] == "b" or hi[0] == "b":
            return BOT
        if lo[0] == "i" and hi[0] == "i":
            return V(I(max(0, hi[1] - lo[2]), max(0, hi[2] - lo[1])), I(lo[1], max(lo[1], hi[2] - 1)), None)
        return None
    if x[0] != "call" or not isinstance(x[1], str) or not x[2]:
        a = c.av(x, at, edge)
        a = a[1] if a[0] == "r" else a
        return a if a[0] in ("v", "b") else None
    short = x[1].split("::")[-1]
    a0 = x[2][0]

    def sub(y):
        return seq_of(c, y, at, edge, site, depth + 1)
    if short in ("iter", "iter_mut", "into_iter"):
        s0 = sub(a0) if (a0[0] == "call" or (a0[0] in ("ref", "deref") and False)) else None
        if s0 is not None and a0[0] == "call" and a0[1].split("::")[-1] not in ("deref", "as_slice", "get_vertices_vec"):
            return s0
        b = c.av(a0, at, edge)
        byref = short != "into_iter" or b[0] == "r"
        b = b[1] if b[0] == "r" else b
        if b[0] == "b":
            return BOT
        if b[0] == "v":
            return V(b[1], R(b[2]) if byref else b[2], None)
        return None
    if short in ("rev", "by_ref", "peekable", "fuse"):
        return sub(a0)
    if short in ("copied", "cloned"):
        s0 = sub(a0)
        if s0 is None or s0[0] != "v":
            return s0
        return V(s0[1], deref_av(s0[2]), None)
    if short == "enumerate":
        s0 = sub(a0)
        if s0 is None or s0[0] != "v":
            return s0
        hi = s0[1][2] if s0[1][0] == "i" else MAXLEN
        return V(s0[1], S({"0": I(0, max(0, hi - 1)), "1": s0[2]}), None)
    if short == "zip" and len(x[2]) == 2:
        s0, s1 = sub(a0), sub(x[2][1])
        if s0 is None or s1 is None:
            return None
        if s0[0] == "b" or s1[0] == "b":
            return BOT
        l0, l1 = s0[1], s1[1]
        ln = I(min(l0[1], l1[1]), min(l0[2], l1[2])) if l0[0] == "i" and l1[0] == "i" else I(0, MAXLEN)
        return V(ln, S({"0": s0[2], "1": s1[2]}), None)
    if short in ("take", "skip") and len(x[2]) == 2:
        s0 = sub(a0)
        n = c.av(x[2][1], at, edge)
        if s0 is None or s0[0] != "v":
            return s0
        if s0[1][0] == "i" and n[0] == "i":
            ln = I(min(s0[1][1], n[1]), min(s0[1][2], n[2])) if short == "take" else I(max(0, s0[1][1] - n[2]), max(0, s0[1][2] - n[1]))
            return V(ln, s0[2], None)
        return V(I(0, s0[1][2] if s0[1][0] == "i" else MAXLEN), s0[2], None)
    if short in ("map", "filter", "flat_map", "filter_map", "take_while", "skip_while", "inspect") and len(x[2]) == 2:
        s0 = sub(a0)
        path, ct = closure_of(c, x[2][1])
        if s0 is None:
            return None
        if s0[0] == "b":
            return BOT
        if not path:
            # a function item (`.map(to_lon_lat)`): apply its summary
            fr = x[2][1]
            if fr[0] == "fnref" and fr[1] in c.facts.fns and short == "map":
                r = c.eng.summary(fr[1], (s0[2],), caller=(c.path, c.args, site))
                if c.final and c.is_live() and at is not None:
                    c.note_callee(fr[1], (s0[2],))
                return V(s0[1], r, None)
            return V(I(0, s0[1][2] if s0[1][0] == "i" else MAXLEN), TOP, None) if short != "map" else V(s0[1], TOP, None)
        arg = s0[2] if short in ("map", "flat_map", "filter_map") else R(s0[2])
        r = call_closure(c, path, ct, [arg], at, edge, site)
        hi = s0[1][2] if s0[1][0] == "i" else MAXLEN
        if short in ("map", "inspect"):
            return V(s0[1], r if short == "map" else s0[2], None)
        if short in ("filter", "take_while", "skip_while"):
            return V(I(0, hi), s0[2], None)
        if short == "filter_map":
            inner = variant_payload(r, "Some") if r[0] == "e" else None
            return V(I(0, hi), inner if inner is not None else TOP, None)
        if short == "flat_map":
            rr = r[1] if r[0] == "r" else r
            if rr[0] == "b":
                return BOT
            if rr[0] == "v":
                h2 = rr[1][2] if rr[1][0] == "i" else MAXLEN
                return V(I(0, min(MAXLEN, hi * h2)), rr[2], None)
            return V(I(0, MAXLEN), TOP, None)
    return None


def elem_of_iter(c, src, at, edge):
    """abstract element produced by an iterator expression (by reference for iter())"""
    x = src
    byref = False
    names = []
    while x[0] == "call" and isinstance(x[1], str) and x[2]:
        n = x[1].split("::")[-1]
        names.append(n)
        if n in ("iter", "iter_mut"):
            byref = True
        if n in ("copied", "cloned"):
            byref = False
        if n not in ("iter", "iter_mut", "into_iter", "copied", "cloned", "rev", "enumerate", "by_ref"):
            sq = seq_of(c, src, at, edge, None)
            return sq[2] if sq is not None and sq[0] == "v" else (BOT if sq is not None and sq[0] == "b" else TOP)
        x = x[2][0]
    while x[0] in ("ref", "deref"):
        if x[0] == "ref":
            byref = byref or ("into_iter" in names and "copied" not in names and "cloned" not in names)
        x = x[2] if x[0] == "ref" else x[1]
    b = deref_av(c.av(x, at, edge))
    if b[0] == "v":
        e = R(b[2]) if byref else b[2]
        if "enumerate" in names:
            ln = b[1] if b[1][0] == "i" else I(0, MAXLEN)
            return S({"0": I(0, max(0, ln[2] - 1)), "1": e})
        return e
    return TOP


def default_value(c, t, at, edge, site):
    """Default::default() of the call's result type when it is a local impl"""
    ty = c.ft.tyof(t) or ""
    for path, f in c.facts.fns.items():
        if f["kind"] == "AssocFn" and path.endswith("::default") and ("<%s as " % ty) in path.replace(c.facts.crate + "::", "", 1).join(["", ""]) + "" or \
                (f["kind"] == "AssocFn" and path.endswith("as std::default::Default>::default") and ty and ty.split("::")[-1] in path):
            r = c.eng.summary(path, (), caller=(c.path, c.args, site))
            if c.final and c.is_live() and at is not None:
                c.note_callee(path, ())
            return r
    return top_of_type(ty, c.facts)


def positional_fold_bound(c, cpath, src, init, el, at, edge):
    """bound 2^(w*L) - 1 when `src.fold(0, |acc, (i, d)| acc + d * (1 << (w*i)))` runs over enumerate() of a collection of at
    most L digits below 2^w (any order of traversal, each position once); else None"""
    from .terms import fn_terms as _ft, const_int as _ci, strip_site as _ss
    if not (init[0] == "i" and init[1] == init[2] == 0):
        return None
    # the traversal: (rev / copied / ...)* enumerate (iter) collection
    x, names = src, []
    for _ in range(10):
        while x[0] in ("ref", "deref"):
            x = x[2] if x[0] == "ref" else x[1]
        if x[0] == "call" and isinstance(x[1], str) and x[2] and x[1].split("::")[-1] in ("rev", "enumerate", "iter", "into_iter", "copied", "cloned", "by_ref"):
            names.append(x[1].split("::")[-1])
            x = x[2][0]
            continue
        break
    if names.count("enumerate") != 1 or any(n in ("iter", "into_iter") for n in names[:names.index("enumerate")]):
        return None
    bav = c.av(x, at, edge)
    bav = bav[1] if bav[0] == "r" else bav
    if bav[0] != "v" or bav[1][0] != "i" or bav[2][0] != "i" or bav[2][1] < 0:
        return None
    L = bav[1][2]
    fc = _ft(c.facts, cpath)
    rbs = fc.return_blocks()
    if len(rbs) != 1:
        return None
    t = fc.return_term(rbs[0])
    if t[0] == "field" and str(t[2]) == "0" and t[1][0] == "bin":
        t = ("bin", t[1][1].replace("WithOverflow", ""), t[1][2], t[1][3])
    if not (t[0] == "bin" and t[1] in ("Add", "AddWithOverflow") and t[2] == ("param", 2)):
        return None
    m = t[3]
    if m[0] == "field" and str(m[2]) == "0" and m[1][0] == "bin":
        m = ("bin", m[1][1].replace("WithOverflow", ""), m[1][2], m[1][3])
    if not (m[0] == "bin" and m[1] in ("Mul", "MulWithOverflow")):
        return None
    d, pw = m[2], m[3]
    if not (pw[0] == "bin" and pw[1] == "Shl"):
        d, pw = pw, d
    if not (pw[0] == "bin" and pw[1] == "Shl" and _ci(pw[2]) == 1):
        return None
    from .query import linear as _lin
    co, k0 = _lin(pw[3], through_casts=True)
    idx = _ss(("field", ("param", 3), 0))
    co = {a: v for a, v in co.items() if v != 0}
    if k0 != 0 or list(co) != [idx] or co[idx] <= 0:
        return None
    w = co[idx]
    dmax = bav[2][2]
    # d must be the digit of the same item: (param3.1) possibly dereferenced / cast
    dd = d
    while dd[0] in ("cast", "deref", "ref"):
        dd = dd[2] if dd[0] in ("cast", "ref") else dd[1]
    if _ss(dd) != _ss(("field", ("param", 3), 1)) or dmax > (1 << w) - 1 or w * L > 200:
        return None
    return (1 << (w * L)) - 1


def static_value(c, static_path, via):
    """abstract value stored in a lazily initialised static (lazy_static!, LazyLock)"""
    facts = c.facts
    from .callgraph import lazy_initialisers
    if not hasattr(c.eng, "_inits"):
        c.eng._inits = lazy_initialisers(facts)
    inits = [p for p in c.eng._inits.get(static_path, ()) if facts.fns[p]["kind"] in ("Fn", "AssocFn", "Closure") and facts.fns[p]["arg_count"] == 0]
    # LazyLock<T>: the initialiser is referenced from the static's own initialiser body
    if len(inits) == 1:
        return c.eng.once_value(inits[0])
    return None
