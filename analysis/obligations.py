"""Obligation enumeration and discharge for one function context of the range engine."""
from .avals import *
from .terms import walk, strip_site, const_int, is_const, fmt, float_of_bits
from .ranges import Oblig, i_add, i_sub, i_mul
from .facts import strip_generics

STD_CRATES = ("std", "core", "alloc")


_ANON = [False]


def render_sig(ft, t):
    """name-free, shallow rendering: identifies an obligation independently of how locals are called"""
    _ANON[0] = True
    try:
        return render(ft, t, 6)     # one level: the operation / callee and "_" for whatever it is applied to
    finally:
        _ANON[0] = False


def render(ft, t, depth=0):
    """position-free rendering of a term: locals by their source names, no block numbers"""
    if not isinstance(t, tuple) or not t:
        return str(t)
    if depth > 6:
        return "_" if _ANON[0] else ".."
    tag = t[0]
    d = depth + 1
    L = ft.fn["locals"]

    def lname(i):
        if _ANON[0]:
            return ("arg%d" % i) if 1 <= i <= ft.fn.get("arg_count", 0) else "_"
        return L[i].get("name") or ("tmp:" + L[i]["ty"].split("::")[-1][:12])
    if tag == "param":
        return lname(t[1])
    if tag == "phi":
        return lname(t[3]) if t[1] == ft.path else "phi"
    if tag == "escaped":
        return lname(t[1])
    if tag == "const":
        if t[3]:
            return t[3].split("::")[-1]
        if t[1] == "float":
            return repr(float_of_bits(t[2]))
        return str(t[2]) if t[1] != "json" else "<const>"
    if tag == "bin":
        return "(%s %s %s)" % (render(ft, t[2], d), t[1].replace("WithOverflow", ""), render(ft, t[3], d))
    if tag == "un":
        return "%s(%s)" % (t[1], render(ft, t[2], d))
    if tag == "cast":
        return "(%s as %s)" % (render(ft, t[2], d), t[3])
    if tag == "field":
        base = render(ft, t[1], d)
        if _ANON[0] and base == "_":
            return "_"      # a component of a local: still "some local value"
        return "%s.%s" % (base, t[2])
    if tag in ("deref", "ref"):
        return render(ft, t[2] if tag == "ref" else t[1], depth)
    if tag == "payload":
        inner = t[2]
        if inner[0] == "call" and isinstance(inner[1], str) and inner[1].endswith("::next"):
            return "item"
        return render(ft, inner, d) + "?"
    if tag == "call":
        n = t[1] if isinstance(t[1], str) else "indirect"
        return "%s(%s)" % (n.split("::")[-1], ", ".join(render(ft, a, d) for a in t[2]))
    if tag in ("index", "cindex"):
        return "%s[%s]" % (render(ft, t[1], d), render(ft, t[2], d) if tag == "index" else t[2])
    if tag == "agg":
        return "%s{..}" % (t[2].split("::")[-2] if t[1] == "adt" and "::" in t[2] else t[1])
    if tag == "ovf":
        return "overflow" + render(ft, t[1], d)
    return tag


def float_dependent(c, t, seen=None, depth=0):
    """does the value of `t` depend on floating-point computation (float->int casts, float comparisons)?"""
    if seen is None:
        seen = set()
    for x in walk(t):
        if x[0] == "cast" and x[1] == "FloatToInt":
            return True
        if x[0] == "phi" and x not in seen and x[1] == c.path and depth < 6:
            seen.add(x)
            for op in c.ft.phi_operands(x).values():
                if float_dependent(c, op, seen, depth + 1):
                    return True
            # control dependence on float comparisons
            for d, *_ in c.ft.conditions(x[2]):
                if d[0] == "bin" and (c.ft.tyof(d[2]) in ("f64", "f32")):
                    return True
    return False


def input_dependent(c, t):
    for x in walk(t):
        if x[0] == "param":
            return True
        if x[0] == "phi":
            return True
        if x[0] in ("escaped", "unknown"):
            return True
        if x[0] == "call":
            return True
    return False


def from_std_macro(span):
    return span is not None and span.get("exp") is not None and span.get("exp_crate") in STD_CRATES


def where(span):
    return "%s:%s" % (span.get("file"), span.get("line")) if span else None


def check_fn(c):
    ft = c.ft
    eng = c.eng
    counts = {}

    def emit(kind, detail, ok, why, span, terms, status_if_fail=None, sig_terms=None):
        if not ok and any(c.av(t_, b)[0] == "b" for t_ in terms):
            ok = True
            why = "dead code in this context (an operand has no possible value): " + why
        n = counts.get((kind, detail), 0)
        counts[(kind, detail)] = n + 1
        key = "%s|%s|%s" % (kind, c.path, detail) + ("#%d" % n if n else "")
        ob = Oblig()
        ob.key, ob.kind, ob.fn, ob.where = key, kind, c.path, where(span)
        ob.sig = "%s|%s|%s|%s" % (kind, c.path, detail.split("(")[0].split("[")[0] if kind not in ("CAST", "IDX") else kind,
                                  " ; ".join(render_sig(ft, t_) for t_ in (sig_terms if sig_terms is not None else terms)))
        ob.float_dep = any(float_dependent(c, t) for t in terms)
        ob.input_dep = any(input_dependent(c, t) for t in terms)
        if ok:
            ob.status = "discharged"
        elif eng.is_constant_ctx((c.path, c.args)):
            ob.status = "constant"
        else:
            ob.status = status_if_fail or ("assumed" if ob.float_dep else "failed")
        ob.detail = why
        ob.ctx = tuple(show(a) for a in c.args)
        c.obs.append(ob)

    for b in sorted(ft.cfg.reach):
        if not c.block_live(b):
            continue
        blk = ft.blocks[b]
        pos = len(blk["stmts"])
        t = blk["term"]
        # ---- sign-losing / truncating integer casts
        for i, st in enumerate(blk["stmts"]):
            if st["k"] != "assign" or st["rv"]["k"] != "cast" or st["rv"]["kind"] != "IntToInt":
                continue
            if from_std_macro(st.get("span")):
                continue
            src_ty, dst_ty = st["rv"]["from"], st["rv"]["to"]
            rs, rd = int_range(src_ty), int_range(dst_ty)
            if not rs or not rd or (rs[0] >= rd[0] and rs[1] <= rd[1]):
                continue
            opt = ft.operand(st["rv"]["op"], b, i)
            v = c.av(opt, b)
            ok = v[0] == "i" and v[1] >= rd[0] and v[2] <= rd[1]
            if v[0] == "b":
                continue
            emit("CAST", "%s as %s" % (render(ft, opt), dst_ty), ok,
                 "value %s cast %s -> %s %s" % (show(v), src_ty, dst_ty, "fits" if ok else "may wrap (sign loss / truncation)"), st.get("span"), [opt])
        if t["k"] == "assert":
            if t["msg"] in ("MisalignedPointerDereference", "NullPointerDereference"):
                # the compiler's own validity check in front of a raw-pointer dereference (debug assertions only).  Raw
                # pointers occur only in unsafe code, which the census C13.P5 confines to the thread-local accessor; the
                # pointer there comes from the thread's own Box and does not depend on any input.  Not an obligation of C14.
                c.eng.__dict__.setdefault("ptr_checks_skipped", set()).add((c.path, t["msg"]))
                continue
            cond = ft.operand(t["cond"], b, pos)
            v = c.av(cond, b)
            want = 1 if t["expected"] else 0
            ok = v[0] == "i" and v[1] == v[2] == want
            ops = [ft.operand(o, b, pos) for o in t["ops"]]
            kind = {"Overflow": "OVF", "OverflowNeg": "OVF", "BoundsCheck": "IDX", "DivisionByZero": "DIV", "RemainderByZero": "DIV"}.get(t["msg"].split(":")[0], "ASSERT")
            opn = t["msg"].split(":")[1] if ":" in t["msg"] else t["msg"]
            if kind == "OVF" and opn in ("Shl", "Shr"):
                kind = "SHIFT"
            detail = "%s(%s)" % (opn, ", ".join(render(ft, o) for o in ops))
            vals = ", ".join(show(c.av(o, b)) for o in ops)
            if not ok and kind == "IDX" and len(ops) == 2:
                ok = prove_index(c, ops[1], None, ops[0], b)
            emit(kind, detail, ok, "operands %s; condition %s" % (vals, show(v)), t["span"], ops + [cond], None, ops)
        elif t["k"] == "call":
            f = t["func"]
            if f.get("k") != "fn":
                emit("CALL", "indirect", False, "indirect call: callee unknown to the analysis", t["span"], [], "assumed")
                continue
            name = strip_generics(f.get("resolved") or f["path"])
            args = [ft.operand(a, b, pos) for a in t["args"]]
            short = name.split("::")[-1]
            if (name.endswith("Index<I>>::index") or name.endswith("IndexMut<I>>::index_mut")) and len(args) == 2:
                ity = ft.tyof(args[1]) or ""
                rng = args[1]
                while rng[0] in ("ref", "deref"):
                    rng = rng[2] if rng[0] == "ref" else rng[1]
                if ity.startswith("std::ops::Range<usize>") and rng[0] == "agg" and rng[2].startswith("std::ops::Range::") and len(rng[3]) == 2:
                    # v[a..b]: needs a <= b and b <= len
                    a_, b_ = rng[3]
                    la_, lb_ = c.linear(a_, b), c.linear(b_, b)
                    ok1 = False
                    if la_ is not None and lb_ is not None:
                        co = dict(la_[0])
                        for k_, v_ in lb_[0].items():
                            co[k_] = co.get(k_, 0) - v_
                        ok1 = c.prove((co, la_[1] - lb_[1]), b)           # a - b <= 0
                        if not ok1:
                            av_a, av_b = c.av(a_, b), c.av(b_, b)
                            ok1 = av_a[0] == "i" and av_b[0] == "i" and av_a[2] <= av_b[1]
                    ok2 = False
                    len_atom = c.len_atom(args[0], b)
                    if lb_ is not None and len_atom is not None:
                        co = dict(lb_[0])
                        co[len_atom] = co.get(len_atom, 0) - 1
                        ok2 = c.prove((co, lb_[1]), b)                      # b - len <= 0
                    if not ok2:
                        base = c.av(args[0], b)
                        base = base[1] if base[0] == "r" else base
                        av_b = c.av(b_, b)
                        ok2 = base[0] == "v" and base[1][0] == "i" and av_b[0] == "i" and av_b[2] <= base[1][1]
                    emit("IDX", "%s[%s..%s]" % (render(ft, args[0]), render(ft, a_), render(ft, b_)), ok1 and ok2,
                         "range start <= end: %s, end <= length: %s" % (ok1, ok2), t["span"], [a_, b_], None, args)
                    continue
                if ity != "usize":
                    emit("IDX", "%s[%s]" % (render(ft, args[0]), render(ft, args[1])), False, "index of type %s (range/slice indexing) is not modelled" % ity, t["span"], args, "failed")
                    continue
                ok = prove_index(c, args[1], args[0], None, b)
                iv = c.av(args[1], b)
                base = c.av(args[0], b)
                base = base[1] if base[0] == "r" else base
                emit("IDX", "%s[%s]" % (render(ft, args[0]), render(ft, args[1])), ok,
                     "index %s, length %s" % (show(iv), show(base[1]) if base[0] == "v" else "?"), t["span"], [args[1]], None, args)
            elif name.startswith("core::num::<impl ") and short == "pow" and len(args) == 2:
                ty = name[len("core::num::<impl "):].split(">")[0]
                a, e = c.av(args[0], b), c.av(args[1], b)
                r = int_range(ty)
                ok = a[0] == "i" and e[0] == "i" and a[1] >= 0 and e[1] >= 0 and e[2] <= 300 and r is not None and a[2] ** e[2] <= r[1]
                emit("OVF", "pow(%s, %s)" % (render(ft, args[0]), render(ft, args[1])), ok, "base %s exponent %s in %s" % (show(a), show(e), ty), t["span"], args)
            elif name.endswith("Option::unwrap") or name.endswith("Option::expect") or name.endswith("Result::unwrap") or name.endswith("Result::expect"):
                a = c.av(args[0], b)
                badv = "None" if "Option" in name else "Err"
                ok = a[0] == "e" and not any(n == badv for n, _ in a[1])
                emit("PANIC", "%s(%s)" % (short, render(ft, args[0])), ok, "value may be %s: %s" % (badv, show(a)), t["span"], [args[0]])
            elif t.get("target") is None or name.startswith("core::panicking") or name.startswith("std::rt::panic") or name.startswith("std::rt::begin_panic"):
                # diverging call reached: an explicit panic
                conds = ft.conditions(b)
                terms = [d for d, *_ in conds]
                emit("PANIC", "%s" % short, False, "explicit panic reachable under %s" % [render(ft, d) for d in terms[:3]], t["span"], terms[:3])
            elif name.endswith("Vec::with_capacity") or name.endswith("vec::from_elem"):
                n = args[0] if name.endswith("with_capacity") else args[1]
                v = c.av(n, b)
                # a request of more than isize::MAX bytes (e.g. a wrapped negative count) panics / aborts: the count
                # times the element size (the compiler's layout) must stay below 2^63; unknown element type: 2^62 elements
                vty = ft.fn["locals"][t["dest"]["local"]]["ty"] if not t["dest"]["proj"] else ""
                esz = None
                if vty.startswith("std::vec::Vec<") and vty.endswith(">"):
                    esz = size_of(split_generics(vty)[1][0], c.facts) if split_generics(vty)[1] else None
                if esz is not None:
                    ok = v[0] == "i" and v[2] * max(1, esz) <= (1 << 63) - 1
                    why_ = "requested %s elements of %d bytes" % (show(v), esz)
                else:
                    ok = v[0] == "i" and v[2] < (1 << 62)
                    why_ = "requested size %s" % show(v)
                emit("ALLOC", "%s(%s)" % (short, render(ft, n)), ok, why_, t["span"], [n])
    check_float_wraps(c, emit)


def check_float_wraps(c, emit):
    """termination of `while x - c > A { x -= B }` style loops: each round must change x, which floating point only does
    while |x| < 2^53 * |B|; the obligation is discharged when the value entering the loop is known to be that small"""
    ft = c.ft
    from .terms import const_float
    for head, body in ft.cfg.loops().items():
        if not c.block_live(head):
            continue
        for local, heads in ft._phi.items():
            if head not in heads or ft.fn["locals"][local]["ty"] not in ("f64", "f32"):
                continue
            phi = ("phi", ft.path, head, local)
            ops = ft.phi_operands(phi)
            inits = [v for p_, v in ops.items() if p_ not in body]
            backs = [v for p_, v in ops.items() if p_ in body]
            if len(inits) != 1 or not backs:
                continue
            steps = []
            for v in backs:
                if v[0] == "bin" and v[1] in ("Sub", "Add") and strip_site(v[2]) == strip_site(phi) and const_float(v[3]) is not None:
                    steps.append(abs(const_float(v[3])))
                else:
                    steps = None
                    break
            if not steps:
                continue
            # the loop guard compares the same variable
            guards = []
            for b in body:
                tm = ft.blocks[b]["term"]
                if tm["k"] == "switch":
                    d = ft.switch_term(b)
                    if d[0] == "bin" and d[1] in ("Gt", "Lt", "Ge", "Le") and any(strip_site(y) == strip_site(phi) for y in walk(d[2])) and any(s_ not in body for s_ in ft.cfg.succ[b]):
                        guards.append((b, d))
            if not guards:
                continue
            step = min(steps)
            b, d = guards[0]
            # |x| never exceeds max(|value entering the first wrap loop|, |threshold| + |reference| + step): a wrap loop
            # only moves x towards the window.  Follow the entering value back through earlier wrap loops on the same variable.
            init = inits[0]
            for _ in range(4):
                if init[0] == "phi" and init[1] == ft.path and init[3] == local and init[2] in ft.cfg.loops():
                    i2 = [v for p_, v in ft.phi_operands(init).items() if p_ not in ft.cfg.loops()[init[2]]]
                    if len(i2) == 1:
                        init = i2[0]
                        continue
                break
            iv = c.av(init, head)
            thr = const_float(d[3])
            ref = d[2][3] if (d[2][0] == "bin" and d[2][1] in ("Sub", "Add")) else None
            rv = c.av(ref, b) if ref is not None else ("f", 0.0, 0.0, False)
            ok = False
            bound = None
            if iv[0] == "f" and rv[0] == "f" and thr is not None:
                bound = max(abs(iv[1]), abs(iv[2]), abs(thr) + max(abs(rv[1]), abs(rv[2])) + step)
                ok = bound < (2.0 ** 52) * step          # NaN never enters the loop: comparisons with NaN are false
            emit("TERM", "wrap(%s)" % render(ft, d), ok,
                 "loop moves the value by %g per round while it stays beyond the threshold; value entering: %s, reference: %s => |x| <= %s (progress needs |x| < 2^52 * %g)" % (
                     step, show(iv), show(rv), "%g" % bound if bound is not None else "?", step),
                 ft.blocks[b]["term"].get("span"), [init], None, [d])


def lift_to_callers(c, goal):
    """goal = (coef dict over atoms, const) that could not be proved locally.  If every atom is a parameter of the
    function or the length of a slice/vector parameter, re-express it over the actual arguments of every call site of
    this context and prove it there (one level up)."""
    co, k = goal
    if c.fn["kind"] == "Closure":
        return lift_to_creator(c, goal)
    for a in co:
        if not (a[0] == "param" or (a[0] == "L" and a[1] == "param" and len(a) == 3)):
            return False
    callers = c.eng.callers.get((c.path, c.args), set())
    if not callers:
        return False
    for (cpath, cargs, site) in callers:
        if site is None:
            return False
        cc = c.eng.ctx(cpath, cargs)
        if not cc.solved:
            return False
        t = cc.ft.blocks[site]["term"]
        if t["k"] != "call":
            return False
        pos = len(cc.ft.blocks[site]["stmts"])
        args = [cc.ft.operand(a, site, pos) for a in t["args"]]
        new = {}
        nk = k
        for a, coef in co.items():
            i = a[1] - 1 if a[0] == "param" else a[2] - 1
            if i >= len(args):
                return False
            if a[0] == "param":
                la = cc.linear(args[i], site)
                if la is None:
                    return False
                for x, cx in la[0].items():
                    new[x] = new.get(x, 0) + coef * cx
                nk += coef * la[1]
            else:
                la = cc.len_atom(args[i], site)
                if la is None:
                    return False
                new[la] = new.get(la, 0) + coef
        if not cc.prove((new, nk), site):
            return False
    return True


def lift_to_creator(c, goal):
    """the same for a closure body: if the goal only talks about captured variables (their values, or the lengths of
    captured slices / vectors), restate it over the captured values in the function that creates the closure and prove
    it at the place where the closure is handed over (relations such as `i < v.len()` from an enclosing loop guard do
    not survive in the closure's abstract environment, but they hold at that place)"""
    co, k = goal
    callers = c.eng.callers.get((c.path, c.args), set())
    if not callers:
        return False

    def cap_index(a):
        # ('deref', ('field', ('deref', ('param', 1)), k)) | ('field', ('deref', ('param', 1)), k) | by-value self
        x, der = a, 0
        while isinstance(x, tuple) and x and x[0] == "deref":
            x, der = x[1], der + 1
        if isinstance(x, tuple) and x and x[0] == "field" and isinstance(x[2], int):
            b_ = x[1]
            if b_ == ("param", 1) or (b_[0] == "deref" and b_[1] == ("param", 1)):
                return x[2], der - (1 if b_[0] == "deref" else 0) + (1 if b_[0] == "deref" else 0) - (1 if b_[0] == "deref" else 0)
        return None
    for (cpath, cargs, site) in callers:
        if site is None:
            return False
        cc = c.eng.ctx(cpath, cargs)
        if not cc.solved:
            return False
        t = cc.ft.blocks[site]["term"]
        if t["k"] != "call":
            return False
        pos = len(cc.ft.blocks[site]["stmts"])
        caps = None
        for a in t["args"]:
            at_ = cc.ft.operand(a, site, pos)
            for y in walk(at_):
                if y[0] == "agg" and y[1] == "closure" and y[2] == c.path:
                    caps = y[3]
        if caps is None:
            return False
        new, nk = {}, k
        for a, coef in co.items():
            if isinstance(a, tuple) and a and a[0] == "L" and a[1] == "param" and len(a) == 4 and a[2] == 1 and isinstance(a[3], int) and a[3] < len(caps):
                la = cc.len_atom(caps[a[3]], site)
                if la is None:
                    return False
                new[la] = new.get(la, 0) + coef
                continue
            if isinstance(a, tuple) and a and a[0] == "un" and a[1] == "PtrMetadata":
                # length of a captured slice
                fk = [y for y in walk(a[2]) if y[0] == "field" and isinstance(y[2], int) and (y[1] == ("param", 1) or y[1] == ("deref", ("param", 1)))]
                if len(fk) != 1 or fk[0][2] >= len(caps):
                    return False
                la = cc.len_atom(caps[fk[0][2]], site)
                if la is None:
                    return False
                new[la] = new.get(la, 0) + coef
                continue
            ci = None
            x, nd = a, 0
            while isinstance(x, tuple) and x and x[0] == "deref":
                x, nd = x[1], nd + 1
            if isinstance(x, tuple) and x and x[0] == "field" and isinstance(x[2], int) and x[2] < len(caps) and (x[1] == ("param", 1) or x[1] == ("deref", ("param", 1))):
                ci = x[2]
            if ci is None:
                return False
            pt = caps[ci]
            for _ in range(nd):
                pt = pt[2] if pt[0] == "ref" else ("deref", pt)
            lp = cc.linear(pt, site)
            if lp is None:
                return False
            for x2, cx in lp[0].items():
                new[x2] = new.get(x2, 0) + coef * cx
            nk += coef * lp[1]
        if not cc.prove((new, nk), site):
            return False
    return True


def prove_index(c, idx, vec_ref, len_term, b):
    """idx < length, by intervals or linear facts (locally, else at every call site of this context)"""
    if _prove_index(c, idx, vec_ref, len_term, b):
        return True
    # lifting: idx and the length as functions of the parameters
    li = c.linear(idx, b)
    if li is None:
        return False
    if vec_ref is not None:
        la = c.len_atom(vec_ref, b)
    else:
        ll = c.linear(len_term, b)
        la = None
        if ll is not None and len(ll[0]) == 1 and ll[1] == 0 and list(ll[0].values()) == [1]:
            la = next(iter(ll[0]))
    if la is None:
        return False
    co = dict(li[0])
    co[la] = co.get(la, 0) - 1
    goal = (co, li[1] + 1)
    # local facts may bound some atoms: keep only the parameter skeleton if all atoms are parameters
    return lift_to_callers(c, goal)


def _prove_index(c, idx, vec_ref, len_term, b):
    """idx < length, by intervals or linear facts"""
    iv = c.av(idx, b)
    if iv[0] != "i":
        return False
    if vec_ref is not None:
        base = c.av(vec_ref, b)
        base = base[1] if base[0] == "r" else base
        if base[0] == "v" and base[1][0] == "i" and iv[2] < base[1][1] and iv[1] >= 0:
            return True
        la = c.len_atom(vec_ref, b)
        if la is None:
            return False
        li = c.linear(idx, b)
        if li is None:
            return False
        co = dict(li[0])
        co[la] = co.get(la, 0) - 1
        return c.prove((co, li[1] + 1), b)
    lv = c.av(len_term, b)
    if lv[0] == "i" and iv[2] < lv[1] and iv[1] >= 0:
        return True
    li, ll = c.linear(idx, b), c.linear(len_term, b)
    if li is None or ll is None:
        return False
    co = dict(li[0])
    for a, k in ll[0].items():
        co[a] = co.get(a, 0) - k
    return c.prove((co, li[1] - ll[1] + 1), b)
