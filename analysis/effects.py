"""Effect census per function and transitively over the resolved call graph (for the purity property C13)."""
from .facts import strip_generics
from .callgraph import CallGraph, static_refs

DENY = ("std::time::", "std::env::", "std::fs::", "std::process::", "std::net::", "std::thread::current", "std::thread::spawn",
        "std::thread::scope", "std::thread::sleep", "std::thread::park", "std::thread::yield_now", "std::io::stdin", "std::io::Stdin",
        "rand::", "getrandom::", "fastrand::", "std::collections::hash_map::RandomState", "std::hash::RandomState",
        "std::sync::atomic::", "core::sync::atomic::", "std::sync::Mutex", "std::sync::RwLock", "std::sync::Condvar", "std::sync::mpsc",
        "std::sync::Arc", "std::rc::Rc", "std::cell::Cell", "std::cell::RefCell", "std::cell::UnsafeCell", "core::cell::",
        "std::ptr::addr", "std::hash::Hasher", "std::collections::hash_map::DefaultHasher", "std::os::", "std::arch::",
        "core::arch::", "std::hint::black_box", "std::panic::Location", "std::any::type_name", "std::mem::align_of_val")

ONCE_TYPES = ("std::sync::OnceLock<", "std::sync::LazyLock<", "lazy_static::lazy::Lazy<", "std::sync::Once", "std::sync::once_lock::OnceLock<",
              "std::sync::lazy_lock::LazyLock<")
STD_CRATES = ("std", "core", "alloc")


def classify_static(s):
    ty = s["ty"]
    if s["thread_local"]:
        return "thread-local"
    if any(ty.startswith(t) for t in ONCE_TYPES):
        return "once-cell"
    if not s["mutable"] and s["freeze"]:
        return "immutable"
    return "shared-mutable"


def from_std_macro(span):
    return span is not None and span.get("exp") is not None and span.get("exp_crate") in STD_CRATES


def where(span):
    return "%s:%s" % (span.get("file"), span.get("line")) if span else None


def local_effects(facts, path, kinds):
    """set of (kind, detail, where) for one function body"""
    f = facts.fns[path]
    out = set()
    for s in static_refs(facts, path):
        k = kinds.get(s)
        if k == "shared-mutable":
            out.add(("shared-static", s, None))
        elif k == "thread-local":
            out.add(("tls", s, None))
        elif k == "once-cell":
            out.add(("once", s, None))
    for b in f["blocks"]:
        if b["cleanup"]:
            continue
        for st in b["stmts"]:
            if st["k"] == "assign" and st["rv"]["k"] == "cast":
                rv = st["rv"]
                if from_std_macro(st.get("span")):
                    continue
                frm, to = rv["from"], rv["to"]
                is_ptr = frm.startswith("*") or frm.startswith("&") or frm.startswith("fn(") or "fn(" in frm[:12]
                is_int = to in ("usize", "u64", "isize", "i64", "u128", "u32")
                if rv["kind"] == "Transmute" and frm == "*const ()" and to == "usize":
                    continue   # the compiler's own null/alignment check before a raw-pointer dereference (debug assertions)
                if rv["kind"] in ("PointerExposeProvenance",) or (rv["kind"] == "Transmute" and is_ptr and is_int):
                    out.add(("ptr2int", "%s -> %s" % (frm, to), where(st.get("span"))))
        t = b["term"]
        if t["k"] == "call":
            fn = t["func"]
            if fn.get("k") != "fn":
                out.add(("indirect-call", "callee unknown", where(t["span"])))
                continue
            name = strip_generics(fn.get("resolved") or fn["path"])
            decl = strip_generics(fn["path"])
            is_local = fn.get("resolved_local", fn.get("local", False)) or name in facts.fns
            for n in (name, decl):
                if is_local:
                    break
                if any(n.startswith(d) or ("<" + d) in n or (" " + d) in n for d in DENY):
                    out.add(("extern", n, where(t["span"])))
                    break
            inst = fn.get("resolved_inst") or fn.get("inst") or ""
            short = name.split("::")[-1]
            if ("HashSet" in inst or "HashMap" in inst or "hash_set" in name or "hash_map" in name) and short in (
                    "into_iter", "iter", "iter_mut", "drain", "keys", "values", "values_mut", "into_keys", "into_values", "retain", "extract_if"):
                out.add(("hashiter", inst[:80], where(t["span"])))
    return out


class Effects:
    def __init__(self, facts):
        self.facts = facts
        self.cg = CallGraph(facts)
        self.kinds = {p: classify_static(s) for p, s in facts.statics.items()}
        self.local = {}
        for p, f in facts.fns.items():
            if f["kind"] in ("Fn", "AssocFn", "Closure", "StaticInit"):
                self.local[p] = local_effects(facts, p, self.kinds)

    def transitive(self, roots):
        """{effect: one function where it occurs} over everything reachable from roots"""
        out = {}
        for p in sorted(self.cg.reachable(roots)):
            for e in self.local.get(p, ()):
                out.setdefault(e, p)
        return out

    def impure(self, roots, allow=("once", "tls")):
        return {e: p for e, p in self.transitive(roots).items() if e[0] not in allow}
