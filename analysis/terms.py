"""Intraprocedural symbolic terms over MIR (reaching definitions -> expression DAG).

A *term* is a hashable tuple describing how a value is computed from the function's
parameters, constants, calls and phi-joins.  The rule packs use terms for provenance
(PROV), sibling agreement (SIB) and guard (GUARD) questions.  No value is ever computed
by running code of the crate; constants come from the compiler's own evaluation."""
import json
import sys

from .cfg import CFG
from .facts import strip_generics

sys.setrecursionlimit(20000)

CHECKED = {"AddWithOverflow": "Add", "SubWithOverflow": "Sub", "MulWithOverflow": "Mul"}


def const_term(c):
    """term for a driver constant operand"""
    named = c.get("named")
    if "promoted" in c:
        return ("promoted", c["promoted_of"], c["promoted"])
    v = c.get("value")
    return value_term(v, named, c.get("ty"))


def value_term(v, named=None, ty=None):
    if v is None:
        return ("const", "opaque", ty, named)
    k = v.get("k")
    if k == "int":
        return ("const", "int", int(v["v"]), named, v.get("ty"))
    if k == "bool":
        return ("const", "bool", 1 if v["v"] else 0, named, "bool")
    if k == "char":
        return ("const", "char", int(v["v"]), named, "char")
    if k == "float":
        return ("const", "float", v["bits"], named, v.get("ty"))
    if k == "str":
        return ("const", "str", v["v"], named, "&str")
    if k == "fn":
        return ("fnref", strip_generics(v.get("resolved") or v["path"]), v.get("resolved_inst") or v["inst"])
    if k == "static_ref":
        return ("static", v["path"])
    if k == "zst":
        return ("const", "zst", v.get("ty"), named, v.get("ty"))
    return ("const", "json", json.dumps(v, sort_keys=True), named, ty)


def is_const(t):
    return isinstance(t, tuple) and t and t[0] == "const"


_INT_RANGES = {"u8": (0, 255), "u16": (0, 65535), "u32": (0, 2**32 - 1), "u64": (0, 2**64 - 1), "usize": (0, 2**64 - 1), "u128": (0, 2**128 - 1),
               "i8": (-128, 127), "i16": (-32768, 32767), "i32": (-2**31, 2**31 - 1), "i64": (-2**63, 2**63 - 1), "isize": (-2**63, 2**63 - 1),
               "i128": (-2**127, 2**127 - 1)}


def const_int(t):
    if is_const(t) and t[1] in ("int", "bool", "char"):
        return t[2]
    if t and t[0] == "cast" and t[1] == "IntToInt" and len(t) > 3:
        v = const_int(t[2])              # `NAMED_CONST as u8`: the same number when it fits the target type
        r = _INT_RANGES.get(t[3])
        if v is not None and r is not None and r[0] <= v <= r[1]:
            return v
    return None


def const_name(t):
    if is_const(t):
        return t[3]
    return None


def float_of_bits(bits):
    import struct
    return struct.unpack(">d", bytes.fromhex(bits))[0]


def const_float(t):
    if is_const(t) and t[1] == "float":
        return float_of_bits(t[2])
    if t and t[0] == "un" and t[1] == "Neg":
        v = const_float(t[2])            # `-NAMED_CONST` is a negation at run time, of a compile-time value
        return None if v is None else -v
    return None


class CallSite:
    __slots__ = ("fn", "block", "term", "decl", "callee", "inst", "args", "dest", "span", "local", "kind")

    def __repr__(self):
        return "<call %s in %s bb%d>" % (self.callee, self.fn, self.block)


class FnTerms:
    def __init__(self, facts, path):
        self.facts = facts
        self.path = path
        self.fn = facts.fns[path]
        self.cfg = CFG(self.fn)
        self.blocks = self.fn["blocks"]
        self.nlocals = len(self.fn["locals"])
        self._defs = None
        self._in = None
        self._memo = {}
        self._calls = None
        self.types = {}  # term -> MIR type string (first seen)
        self.stores = []  # writes through pointers: (block, pos, place, rv)
        self._compute_defs()

    # ------------------------------------------------------------------ defs
    def _compute_defs(self):
        blocks = self.blocks
        defs_in_block = [dict() for _ in blocks]  # local -> sorted positions
        kinds = {}  # (b,pos,local) -> ('assign', stmt) | ('call', term) | ('escape', stmt)

        def add(b, pos, local, kind):
            defs_in_block[b].setdefault(local, []).append(pos)
            kinds[(b, pos, local)] = kind

        for b in self.cfg.reach:
            blk = blocks[b]
            for i, st in enumerate(blk["stmts"]):
                if st["k"] == "assign":
                    pl = st["place"]
                    if pl["proj"] and pl["proj"][0]["k"] == "deref":
                        self.stores.append((b, i, pl, st["rv"]))
                    else:
                        add(b, i, pl["local"], ("assign", st))
                    rv = st["rv"]
                    if rv["k"] in ("ref", "rawptr"):
                        mut = rv.get("mut", False) or ("Mut" in rv.get("kind", ""))
                        p2 = rv["place"]
                        if mut and not (p2["proj"] and p2["proj"][0]["k"] == "deref"):
                            if p2["local"] != pl["local"]:
                                add(b, i, p2["local"], ("escape", st))
                elif st["k"] == "set_discr":
                    pl = st["place"]
                    if not (pl["proj"] and pl["proj"][0]["k"] == "deref"):
                        add(b, i, pl["local"], ("setdiscr", st))
            t = blk["term"]
            if t["k"] == "call":
                pl = t["dest"]
                if pl["proj"] and pl["proj"][0]["k"] == "deref":
                    self.stores.append((b, len(blk["stmts"]), pl, None))
                else:
                    add(b, len(blk["stmts"]), pl["local"], ("call", t))
        self._defs = defs_in_block
        self._kinds = kinds
        # SSA phi placement: iterated dominance frontier of each local's def blocks
        cfg = self.cfg
        df = {b: set() for b in cfg.reach}
        for b in cfg.reach:
            preds = [p for p in cfg.pred[b] if p in cfg.reach]
            if len(preds) >= 2:
                for p in preds:
                    r = p
                    while r != cfg.idom[b]:
                        df[r].add(b)
                        r = cfg.idom[r]
        self._df = df
        def_blocks = {}
        for b in cfg.reach:
            for l in defs_in_block[b]:
                def_blocks.setdefault(l, set()).add(b)
        self._phi = {}
        for l, dbs in def_blocks.items():
            work = list(dbs | {0})
            placed = set()
            while work:
                x = work.pop()
                for y in df[x]:
                    if y not in placed:
                        placed.add(y)
                        work.append(y)
            self._phi[l] = placed

    # ------------------------------------------------------------------ lookup
    def local_at(self, local, b, pos):
        """term of the whole local as seen just before position pos of block b"""
        poss = self._defs[b].get(local)
        if poss:
            prev = [p for p in poss if p < pos]
            if prev:
                return self.def_term(b, prev[-1], local)
        return self.entry_term(b, local)

    def out_term(self, b, local):
        poss = self._defs[b].get(local)
        if poss:
            return self.def_term(b, poss[-1], local)
        return self.entry_term(b, local)

    def entry_term(self, b, local):
        if b in self._phi.get(local, ()):
            return ("phi", self.path, b, local)
        if b == 0:
            return self.param_term(local)
        return self.out_term(self.cfg.idom[b], local)

    def param_term(self, local):
        if 1 <= local <= self.fn["arg_count"]:
            return ("param", local)
        if local == 0:
            return ("unknown", "uninit-ret", (self.path,))
        return ("uninit", local)

    def phi_operands(self, phi):
        _, path, b, local = phi
        assert path == self.path
        return {p: self.out_term(p, local) for p in self.cfg.pred[b] if p in self.cfg.reach}

    def def_term(self, b, pos, local):
        key = (b, pos, local)
        if key in self._memo:
            return self._memo[key]
        self._memo[key] = ("unknown", "cycle", key)  # cycle guard (phi breaks real cycles)
        kind = self._kinds[key]
        if kind[0] == "assign":
            st = kind[1]
            pl = st["place"]
            val = self.rvalue(st["rv"], b, pos)
            if pl["proj"]:
                prev = self.local_at(local, b, pos)
                t = ("update", prev, self._proj_desc(pl["proj"], b, pos), val)
            else:
                t = val
        elif kind[0] == "escape":
            t = ("escaped", local, (self.path, b, pos))
        elif kind[0] == "setdiscr":
            prev = self.local_at(local, b, pos)
            t = ("update", prev, ("discr",), ("const", "int", kind[1]["variant_idx"], None, "variant"))
        else:
            t = self.call_term(kind[1], b)
        self._memo[key] = t
        if not (kind[0] == "assign" and kind[1]["place"]["proj"]) and kind[0] != "escape":
            self.types.setdefault(t, self.fn["locals"][local]["ty"])
        return t

    def _proj_desc(self, proj, b, pos):
        out = []
        for e in proj:
            k = e["k"]
            if k == "field":
                out.append(("field", e.get("name", e["i"])))
            elif k == "index":
                out.append(("index", self.local_at(e["local"], b, pos)))
            elif k == "cindex":
                out.append(("cindex", e["offset"], e["from_end"]))
            elif k == "downcast":
                out.append(("downcast", e["variant"]))
            elif k == "deref":
                out.append(("deref",))
            else:
                out.append((k,))
        return tuple(out)

    # ------------------------------------------------------------------ evaluation
    def place(self, pl, b, pos):
        t = self.local_at(pl["local"], b, pos)
        for e in pl["proj"]:
            t = self.project(t, e, b, pos)
        self.types.setdefault(t, pl["ty"])
        return t

    def tyof(self, t):
        ty = self.types.get(t)
        if ty is not None:
            return ty
        if t[0] == "param":
            return self.fn["locals"][t[1]]["ty"]
        if t[0] == "phi":
            return self.fn["locals"][t[3]]["ty"]
        if t[0] == "const":
            return t[4] if len(t) > 4 else None
        if t[0] == "cast":
            return t[3]
        if t[0] == "bin":
            if t[1] in ("Eq", "Ne", "Lt", "Le", "Gt", "Ge"):
                return "bool"
            return self.tyof(t[2])
        if t[0] == "un":
            return self.tyof(t[2])
        if t[0] == "deref":
            inner = self.tyof(t[1])
            if inner and inner.startswith("&"):
                inner = inner[1:].lstrip()
                return inner[4:].lstrip() if inner.startswith("mut ") else inner
            return None
        if t[0] == "ref" and len(t) > 2:
            inner = self.tyof(t[2])
            return ("&mut " if t[1] is True else "&") + inner if inner else None
        return None

    def project(self, t, e, b, pos):
        k = e["k"]
        if k == "deref":
            return mk_deref(t)
        if k == "field":
            r = mk_field(t, e.get("name", e["i"]), e["i"])
            if r[0] == "payload" and r[2][0] == "phi" and r[2][1] == self.path:
                r = self._payload_of_join(r)
            elif r[0] == "payload" and r[2][0] == "payload":
                r = self._payload_chain_of_join(r)
            elif r[0] == "field" and r[1][0] == "downcast" and r[1][1][0] == "phi" and r[1][1][1] == self.path:
                # a field of one variant of the crate's own enum, read from a join of literal constructors
                var = r[1][2]
                leaves, seen, st = [], set(), [r[1][1]]
                while st and len(seen) < 64:
                    x = st.pop()
                    if x in seen:
                        continue
                    seen.add(x)
                    if x[0] == "phi" and x[1] == self.path:
                        st.extend(self.phi_operands(x).values())
                    else:
                        leaves.append(x)
                if leaves and all(l[0] == "agg" and l[1] == "adt" and isinstance(l[2], str) for l in leaves):
                    cands = [l for l in leaves if l[2].endswith("::" + var)]
                    idx = e["i"]
                    vals = {strip_site(l[3][idx]) for l in cands if idx < len(l[3])}
                    if cands and len(vals) == 1 and all(idx < len(l[3]) for l in cands):
                        r = cands[0][3][idx]
            return r
        if k == "index":
            return ("index", t, self.local_at(e["local"], b, pos))
        if k == "cindex":
            return mk_cindex(t, e["offset"], e["from_end"])
        if k == "downcast":
            return ("downcast", t, e["variant"])
        return ("proj", t, k)

    def _payload_of_join(self, r):
        """payload(V, phi[...]) where exactly one joined value is a V(..) constructor and every other one is a constructor
        of a different variant (or a propagated error): the payload can only be that constructor's operand.  This is
        what `match helper() { Ok(x) => .. }` looks like once the helper's body has been spliced in."""
        var = r[1]
        leaves, seen, st = [], set(), [r[2]]
        while st:
            x = st.pop()
            if x in seen:
                continue
            seen.add(x)
            if x[0] == "phi" and x[1] == self.path:
                if len(seen) > 64:
                    return r
                st.extend(self.phi_operands(x).values())
            else:
                leaves.append(x)
        cands = [l for l in leaves if l[0] == "agg" and l[1] == "adt" and l[2].endswith("::" + var)]

        def other_variant(l):
            if l[0] == "agg" and l[1] == "adt" and l[2].rsplit("::", 1)[-1] in ("Ok", "Err", "Some", "None"):
                return not l[2].endswith("::" + var)
            return l[0] == "call" and isinstance(l[1], str) and l[1].endswith("::from_residual") and var in ("Ok", "Some")
        if len(cands) == 1 and len(cands[0][3]) == 1 and all(other_variant(l) for l in leaves if l is not cands[0]):
            return cands[0][3][0]
        return r

    def _payload_chain_of_join(self, r):
        """payload(V2, payload(V1, phi[...])): a helper returning Result<Option<T>, E> spliced in and matched as
        `Ok(Some(x))`: of the joined values only the V1(V2(x)) constructors can be meant; when there is exactly one, x"""
        chain = []
        x = r
        while x[0] == "payload":
            chain.append(x[1])
            x = x[2]
        if not (x[0] == "phi" and x[1] == self.path):
            return r
        chain.reverse()                      # outermost constructor first
        leaves, seen, st = [], set(), [x]
        while st:
            y = st.pop()
            if y in seen:
                continue
            seen.add(y)
            if y[0] == "phi" and y[1] == self.path:
                if len(seen) > 64:
                    return r
                st.extend(self.phi_operands(y).values())
            else:
                leaves.append(y)
        cur = leaves
        for var in chain:
            nxt = []
            for l in cur:
                if l[0] == "agg" and l[1] == "adt" and isinstance(l[2], str) and l[2].rsplit("::", 1)[-1] in ("Ok", "Err", "Some", "None"):
                    if l[2].endswith("::" + var) and len(l[3]) == 1:
                        inner = l[3][0]
                        if inner[0] == "phi" and inner[1] == self.path:
                            nxt.extend(self.phi_operands(inner).values())
                        else:
                            nxt.append(inner)
                elif l[0] == "call" and isinstance(l[1], str) and l[1].endswith("::from_residual"):
                    continue
                else:
                    return r                 # something that is not a literal constructor: cannot tell
            cur = nxt
        keys = {strip_site(c) for c in cur}
        return cur[0] if len(keys) == 1 else r

    def operand(self, op, b, pos):
        k = op["k"]
        if k in ("copy", "move"):
            return self.place(op["place"], b, pos)
        if k == "const":
            t = const_term(op)
            self.types.setdefault(t, op.get("ty"))
            return t
        if k == "fn":
            return value_term(op)
        return ("unknown", k, (self.path, b, pos))

    def rvalue(self, rv, b, pos):
        k = rv["k"]
        if k == "use":
            return self.operand(rv["op"], b, pos)
        if k == "repeat":
            return ("repeat", self.operand(rv["op"], b, pos), rv["n"])
        if k in ("ref", "rawptr"):
            pl = rv["place"]
            key = place_key(pl)
            # a reborrow `&mut *r` (or `&(*r).f`) keeps pointing into the object r was borrowed from
            if pl["proj"] and pl["proj"][0]["k"] == "deref":
                base = self.local_at(pl["local"], b, pos)
                if base[0] == "ref" and isinstance(base[3], str) and base[3]:
                    key = base[3] + "".join(".%s" % (e.get("name", e.get("i", e["k"]))) for e in pl["proj"][1:])
            mut = bool(rv["mut"]) if k == "ref" else "raw"
            return ("ref", mut, self.place(pl, b, pos), key)
        if k == "tls_ref":
            return ("tls", rv["path"])
        if k == "cast":
            return ("cast", rv["kind"], self.operand(rv["op"], b, pos), rv["to"])
        if k == "binop":
            return ("bin", rv["op"], self.operand(rv["a"], b, pos), self.operand(rv["b"], b, pos))
        if k == "unop":
            return ("un", rv["op"], self.operand(rv["a"], b, pos))
        if k == "discr":
            return ("discr", self.place(rv["place"], b, pos))
        if k == "aggregate":
            ops = tuple(self.operand(o, b, pos) for o in rv["ops"])
            a = rv["agg"]
            if a == "adt":
                return ("agg", "adt", rv["adt"] + "::" + rv["variant"], ops, tuple(rv.get("fields", [])))
            if a == "closure":
                return ("agg", "closure", rv["closure"], ops, ())
            return ("agg", a, "", ops, ())
        return ("unknown", k, (self.path, b, pos))

    def call_term(self, t, b):
        pos = len(self.blocks[b]["stmts"])
        f = t["func"]
        args = tuple(self.operand(a, b, pos) for a in t["args"])
        if f.get("k") == "fn":
            name = strip_generics(f.get("resolved") or f["path"])
        else:
            name = ("indirect", self.operand(f, b, pos))
        if isinstance(name, str) and name.endswith("box_assume_init_into_vec_unsafe"):
            # vec![a, b, c] on this toolchain: Box::new_uninit + raw write of the array + this call
            for i, st in enumerate(self.blocks[b]["stmts"]):
                if st["k"] == "assign" and st["place"]["proj"] and st["place"]["proj"][0]["k"] == "deref" \
                        and st["rv"]["k"] == "aggregate" and st["rv"]["agg"] == "array":
                    ops = tuple(self.operand(o, b, i) for o in st["rv"]["ops"])
                    return ("agg", "vec", "", ops, ())
        return ("call", name, args, (self.path, b))

    # ------------------------------------------------------------------ call sites
    def calls(self):
        if self._calls is not None:
            return self._calls
        out = []
        for b in sorted(self.cfg.reach):
            t = self.blocks[b]["term"]
            if t["k"] != "call":
                continue
            cs = CallSite()
            cs.fn = self.path
            cs.block = b
            cs.term = t
            f = t["func"]
            pos = len(self.blocks[b]["stmts"])
            if f.get("k") == "fn":
                cs.decl = strip_generics(f["path"])
                cs.callee = strip_generics(f.get("resolved") or f["path"])
                cs.inst = f.get("resolved_inst") or f["inst"]
                cs.local = f.get("resolved_local", f.get("local", False))
                cs.kind = f.get("resolved_kind", "")
            else:
                cs.decl = cs.callee = None
                cs.inst = None
                cs.local = False
                cs.kind = "indirect"
            cs.args = [self.operand(a, b, pos) for a in t["args"]]
            cs.dest = t["dest"]
            cs.span = t["span"]
            out.append(cs)
        self._calls = out
        return out

    def calls_to(self, suffix):
        return [c for c in self.calls() if c.callee and (c.callee == suffix or c.callee.endswith("::" + suffix) or c.callee.endswith(suffix))]

    def return_blocks(self):
        return list(self.cfg.returns)

    def return_term(self, b):
        return self.local_at(0, b, len(self.blocks[b]["stmts"]))

    def switch_term(self, b):
        t = self.blocks[b]["term"]
        assert t["k"] == "switch"
        return self.operand(t["discr"], b, len(self.blocks[b]["stmts"]))

    def conditions(self, b):
        """Edge conditions that dominate block b: list of (discr_term, values, is_otherwise, excluded_values, switch_block)."""
        from .cfg import switch_edge_values
        cc = self.__dict__.setdefault("_cond_cache", {})
        if b in cc:
            return cc[b]
        out = []
        cc[b] = out
        for d, s in self.cfg.dominating_edges(b):
            term = self.blocks[d]["term"]
            vals, other = switch_edge_values(term, s)
            excl = [int(v) for v, bb in term["targets"] if bb != s]
            out.append((self.switch_term(d), vals, other, excl, d))
        # a test of the variant of a value that was built as a literal Ok / Err / Some / None on each way into a join
        # (the usual picture after a Result-returning helper has been spliced in, followed by `?`) selects the ways in:
        # when exactly one of them fits, everything known on that way holds here as well
        seen_sw = {e[4] for e in out}
        for d_, vals, other, excl, sb in list(out):
            x = d_
            if x[0] != "discr":
                continue
            x = x[1]
            via_branch = False
            if x[0] == "call" and x[1] in TRY_BRANCH and len(x[2]) == 1:
                via_branch, x = True, x[2][0]
            while x[0] in ("ref", "deref"):
                x = x[2] if x[0] == "ref" else x[1]
            if not (x[0] == "phi" and x[1] == self.path):
                continue
            allowed = set(vals) if not other else None          # the otherwise edge: every variant that is not excluded
            leaves = []
            okl = True

            def go(t_, pred_, depth_):
                nonlocal okl
                if t_[0] == "phi" and t_[1] == self.path and depth_ < 6:
                    for p2, o2 in self.phi_operands(t_).items():
                        go(o2, p2, depth_ + 1)
                elif literal_variant(t_) is not None:
                    leaves.append((pred_, literal_variant(t_)))
                else:
                    okl = False
            go(x, None, 0)
            if not okl or not leaves:
                continue
            # variant index as tested: through Try::branch Continue(0) <-> Ok / Some, Break(1) <-> Err / None
            idxs = [(p_, variant_index(self.facts, v_, via_branch)) for p_, v_ in leaves]
            if any(i_ is None for _p, i_ in idxs):
                continue
            fit = [p_ for p_, i_ in idxs if (i_ in allowed if allowed is not None else i_ not in excl)]
            if len(fit) == 1 and fit[0] is not None and fit[0] != b:
                for e in self.conditions(fit[0]):
                    if e[4] not in seen_sw:
                        seen_sw.add(e[4])
                        out.append(e)
        return out


def variant_index(facts, v_, via=False):
    """discriminant value tested for the variant v_ (as returned by literal_variant); None when unknown"""
    if isinstance(v_, tuple):
        adt = facts.adts.get(v_[1]) if facts is not None else None
        if adt is None or adt["kind"] != "Enum" or via:
            return None
        for var in adt["variants"]:
            if var["name"] == v_[2]:
                return var["idx"] if var.get("discr") is None else int(var["discr"])
        return None
    if via:
        return 0 if v_ in ("Ok", "Some") else 1
    return {"Ok": 0, "Err": 1, "None": 0, "Some": 1}[v_]


def literal_variant(t):
    """'Ok' / 'Err' / 'Some' / 'None' when t is built as that variant whatever the inputs: a literal constructor, or the
    error hand-over of `?` (FromResidual::from_residual yields Err / None)"""
    if t[0] == "agg" and t[1] == "adt" and isinstance(t[2], str) and t[2].split("::")[-1] in ("Ok", "Err", "Some", "None"):
        return t[2].split("::")[-1]
    if t[0] == "agg" and t[1] == "adt" and isinstance(t[2], str) and t[2].count("::") >= 2 and not t[2].startswith("std::"):
        return ("adt",) + tuple(t[2].rsplit("::", 1))        # a variant of one of the crate's own enums
    if t[0] == "call" and isinstance(t[1], str) and t[1].endswith("::from_residual"):
        if "result::Result" in t[1]:
            return "Err"
        if "option::Option" in t[1]:
            return "None"
    return None


def _variant_test(ft, d):
    """(phi term, via Try::branch?) when the switch discriminant d tests the variant of a joined Result / Option"""
    if d[0] != "discr":
        return None
    x = d[1]
    via = False
    if x[0] == "call" and x[1] in TRY_BRANCH and len(x[2]) == 1:
        via, x = True, x[2][0]
    while x[0] in ("ref", "deref"):
        x = x[2] if x[0] == "ref" else x[1]
    if x[0] == "phi" and x[1] == ft.path:
        return x, via
    return None


def reachable_threaded(ft, pred, start):
    """blocks reachable after taking the edge pred -> start, where a switch on the variant of a value that was built as a
    literal Ok / Err / Some / None on the way taken follows only the matching edge (a `?` right after a spliced helper
    does not continue on the helper's Err result)"""
    tests = {}
    joins = set()
    for b in ft.cfg.reach:
        tm = ft.blocks[b]["term"]
        if tm["k"] == "switch":
            vt = _variant_test(ft, ft.switch_term(b))
            if vt is not None:
                tests[b] = vt
                st = [vt[0]]
                seen = set()
                while st:
                    ph = st.pop()
                    if ph in seen:
                        continue
                    seen.add(ph)
                    joins.add(ph[2])
                    for o in ft.phi_operands(ph).values():
                        if o[0] == "phi" and o[1] == ft.path:
                            st.append(o)
    seen = set()
    out = set()
    st = [(start, ((start, pred),) if start in joins else ())]
    while st:
        b, known = st.pop()
        if (b, known) in seen or len(seen) > 20000:
            continue
        seen.add((b, known))
        out.add(b)
        kd = dict(known)
        succs = list(ft.cfg.succ[b])
        if b in tests:
            x, via = tests[b]
            for _ in range(6):
                if x[0] == "phi" and x[1] == ft.path and x[2] in kd:
                    x = ft.phi_operands(x).get(kd[x[2]], ("unknown",))
                else:
                    break
            v_ = literal_variant(x)
            idx = variant_index(ft.facts, v_, via) if v_ is not None else None
            if idx is not None:
                tm = ft.blocks[b]["term"]
                hit = [bb for v, bb in tm["targets"] if int(v) == idx]
                succs = hit if hit else [tm["otherwise"]]
        for s_ in succs:
            k2 = dict(kd)
            if s_ in joins:
                k2[s_] = b
            st.append((s_, tuple(sorted(k2.items()))))
    return out


def place_key(pl):
    return "_%d%s" % (pl["local"], "".join(".%s" % (e.get("name", e.get("i", e["k"]))) for e in pl["proj"]))


# ---------------------------------------------------------------------- smart constructors

def mk_deref(t):
    if t[0] == "ref":
        return t[2]
    return ("deref", t)


TRY_BRANCH = ("<std::result::Result<T, E> as std::ops::Try>::branch", "<std::option::Option<T> as std::ops::Try>::branch")


def mk_field(t, name, idx):
    if t[0] == "downcast" and str(name) == "0":
        base, var = t[1], t[2]
        if var == "Continue" and base[0] == "call" and base[1] in TRY_BRANCH and len(base[2]) == 1:
            return ("payload", "Ok" if "Result" in base[1] else "Some", base[2][0])
        if var in ("Ok", "Some", "Err"):
            if base[0] == "agg" and base[1] == "adt" and isinstance(base[2], str) and base[2].endswith("::" + var) and len(base[3]) == 1:
                return base[3][0]           # (V(x) as V).0 is x
            return ("payload", var, base)
    if t[0] == "agg":
        kind, ops, names = t[1], t[3], t[4]
        if names and name in names:
            return ops[names.index(name)]
        if isinstance(idx, int) and idx < len(ops) and kind in ("tuple", "adt", "closure", "array"):
            return ops[idx]
    if t[0] == "bin" and t[1] in CHECKED:
        if idx == 0:
            return ("bin", CHECKED[t[1]], t[2], t[3])
        return ("ovf", t)
    if t[0] == "update":
        # reading a field just written
        proj = t[2]
        if len(proj) == 1 and proj[0][0] == "field":
            if proj[0][1] == name:
                return t[3]
            return mk_field(t[1], name, idx)
    return ("field", t, name)


def mk_cindex(t, off, from_end):
    if t[0] == "agg" and t[1] == "array" and not from_end and off < len(t[3]):
        return t[3][off]
    return ("cindex", t, off, from_end)


# ---------------------------------------------------------------------- generic helpers

def walk(t, seen=None):
    """pre-order over sub-terms (tuples whose first element is a tag string)"""
    if seen is None:
        seen = set()
    st = [t]
    while st:
        x = st.pop()
        if not isinstance(x, tuple) or not x or not isinstance(x[0], str):
            if isinstance(x, tuple):
                st.extend(x)
            continue
        if id(x) in seen:
            continue
        seen.add(id(x))
        yield x
        tag = x[0]
        if tag in ("const", "param", "phi", "static", "tls", "fnref", "promoted", "uninit", "escaped"):
            continue
        if tag == "unknown":
            continue
        for y in x[1:]:
            if isinstance(y, tuple):
                st.append(y)


_strip_cache = {}


def strip_site(t):
    """structural copy without call sites (for comparing two computations)"""
    if not isinstance(t, tuple):
        return t
    k = id(t)
    hit = _strip_cache.get(k)
    if hit is not None and hit[0] is t:
        return hit[1]
    r = _strip_site(t)
    if len(_strip_cache) > 2000000:
        _strip_cache.clear()
    _strip_cache[k] = (t, r)
    return r


def _strip_site(t):
    if t and t[0] == "call":
        return ("call", t[1], tuple(strip_site(a) for a in t[2]))
    if t and t[0] == "ref":
        return ("ref", t[1], strip_site(t[2]), t[3] if len(t) > 3 else "")
    if t and t[0] == "const":
        return (t[0], t[1], t[2], None, None)
    return tuple(strip_site(x) for x in t)


def subst_params(t, mapping, memo=None):
    """replace ('param', i) by mapping[i]"""
    if memo is None:
        memo = {}
    if not isinstance(t, tuple):
        return t
    k = id(t)
    if k in memo:
        return memo[k]
    if t and t[0] == "param":
        r = mapping.get(t[1], t)
    elif t and t[0] in ("const", "phi", "static", "tls", "fnref", "promoted", "unknown", "escaped", "uninit"):
        r = t
    elif t and t[0] == "deref":
        r = mk_deref(subst_params(t[1], mapping, memo))
    elif t and t[0] == "field":
        r = mk_field(subst_params(t[1], mapping, memo), t[2], None)
    else:
        r = tuple(subst_params(x, mapping, memo) for x in t)
    memo[k] = r
    return r


def fmt(t, depth=0):
    """compact human-readable rendering for reports"""
    if not isinstance(t, tuple) or not t:
        return str(t)
    if depth > 12:
        return "…"
    tag = t[0]
    d = depth + 1
    if tag == "param":
        return "arg%d" % t[1]
    if tag == "const":
        if t[3]:
            return t[3].split("::")[-1]
        if t[1] == "float":
            return repr(float_of_bits(t[2]))
        if t[1] == "json":
            return "<const>"
        return str(t[2])
    if tag == "bin":
        return "(%s %s %s)" % (fmt(t[2], d), t[1], fmt(t[3], d))
    if tag == "un":
        return "%s(%s)" % (t[1], fmt(t[2], d))
    if tag == "cast":
        return "(%s as %s)" % (fmt(t[2], d), t[3])
    if tag == "field":
        return "%s.%s" % (fmt(t[1], d), t[2])
    if tag == "deref":
        return "*%s" % fmt(t[1], d)
    if tag == "ref":
        return "&%s" % fmt(t[2], d)
    if tag == "index":
        return "%s[%s]" % (fmt(t[1], d), fmt(t[2], d))
    if tag == "cindex":
        return "%s[%d]" % (fmt(t[1], d), t[2])
    if tag == "call":
        n = t[1] if isinstance(t[1], str) else "<indirect>"
        return "%s(%s)" % (n.split("::")[-1] if "::" in n else n, ", ".join(fmt(a, d) for a in t[2]))
    if tag == "agg":
        return "%s{%s}" % (t[2].split("::")[-2] if t[1] == "adt" and "::" in t[2] else t[1], ", ".join(fmt(a, d) for a in t[3]))
    if tag == "phi":
        return "phi(bb%d,_%d)" % (t[2], t[3])
    if tag == "downcast":
        return "(%s as %s)" % (fmt(t[1], d), t[2])
    if tag == "payload":
        return "%s?" % fmt(t[2], d) if t[1] in ("Ok", "Some") else "err(%s)" % fmt(t[2], d)
    if tag == "discr":
        return "discr(%s)" % fmt(t[1], d)
    if tag == "update":
        return "%s{%s:=%s}" % (fmt(t[1], d), t[2], fmt(t[3], d))
    if tag == "static":
        return "static %s" % t[1].split("::")[-1]
    if tag == "fnref":
        return "fn %s" % t[1]
    if tag == "escaped":
        return "escaped(_%d)" % t[1]
    return "<%s>" % tag


_ft_cache = {}


def fn_terms(facts, path):
    key = (id(facts), path)
    if key not in _ft_cache:
        _ft_cache[key] = FnTerms(facts, path)
    return _ft_cache[key]


def strip_all(t):
    """strip_site plus removal of borrow place keys: for comparing computations across functions"""
    if not isinstance(t, tuple):
        return t
    if t and t[0] == "call":
        return ("call", t[1], tuple(strip_all(a) for a in t[2]))
    if t and t[0] == "ref":
        return ("ref", t[1], strip_all(t[2]))
    if t and t[0] == "const":
        return (t[0], t[1], t[2], None, None)
    return tuple(strip_all(x) for x in t)
