"""Abstract values for the range engine (intervals, float intervals, structs, enums, refs, vectors)."""
import math

# ('b',)                         bottom
# ('t',)                         top (unknown, any type)
# ('i', lo, hi)                  integer interval (finite Python ints)
# ('f', lo, hi, nan)             float interval (may be +-inf), nan = may be NaN
# ('s', ((name, av), ...))       struct / tuple (fields sorted by name)
# ('e', ((variant, av), ...))    enum: possible variants with payload struct
# ('r', av)                      reference / pointer to a value
# ('v', len_av, elem_av, elems)  vector / slice / array; elems = tuple of avs when known exactly, else None

BOT = ("b",)
TOP = ("t",)
BIG = 1 << 130

INT_BITS = {"u8": (8, False), "u16": (16, False), "u32": (32, False), "u64": (64, False), "usize": (64, False), "u128": (128, False),
            "i8": (8, True), "i16": (16, True), "i32": (32, True), "i64": (64, True), "isize": (64, True), "i128": (128, True)}
# Lengths of collections that EXIST in memory.  The language guarantees isize::MAX bytes per object; no 64-bit target has a
# user address space above 2^56 bytes (x86-64 LA57: 2^56, aarch64 LVA: 2^52), so an existing slice / vector of T holds at
# most 2^56 / size_of::<T>() elements.  This is an assumption of the C14 analysis (listed in its evidence); it is used only
# to bound lengths of existing objects, never requested allocation sizes.
MAXBYTES = 1 << 56
MAXLEN = MAXBYTES - 1


def int_range(ty):
    if ty == "bool":
        return (0, 1)
    if ty == "char":
        return (0, 0x10FFFF)
    if ty in INT_BITS:
        bits, signed = INT_BITS[ty]
        if signed:
            return (-(1 << (bits - 1)), (1 << (bits - 1)) - 1)
        return (0, (1 << bits) - 1)
    return None


SETMAX = 12


def I(lo, hi, vals=None):
    if lo > hi:
        return BOT
    if vals is not None:
        vals = frozenset(v for v in vals if lo <= v <= hi)
        if not vals:
            return BOT
        if len(vals) > SETMAX:
            return ("i", min(vals), max(vals))
        return ("i", min(vals), max(vals), vals)
    if lo == hi:
        return ("i", lo, hi, frozenset([lo]))
    return ("i", lo, hi)


def ivals(a):
    """explicit value set of an int value, or None"""
    if a[0] == "i" and len(a) > 3:
        return a[3]
    if a[0] == "i" and a[2] - a[1] < SETMAX:
        return frozenset(range(a[1], a[2] + 1))
    return None


def F(lo, hi, nan=False):
    return ("f", lo, hi, nan)


FTOP = ("f", -math.inf, math.inf, True)


def S(d):
    return ("s", tuple(sorted((str(k), v) for k, v in d.items())))


def sget(av, name):
    if av[0] != "s":
        return None
    for k, v in av[1]:
        if k == str(name):
            return v
    return None


def E(d):
    return ("e", tuple(sorted(d.items())))


def R(av):
    return ("r", av)


def V(ln, elem, elems=None):
    return ("v", ln, elem, elems)


def is_int(a):
    return a[0] == "i"


def join(a, b):
    if a == b:
        return a
    if a[0] == "b":
        return b
    if b[0] == "b":
        return a
    if a[0] == "t" or b[0] == "t":
        return TOP
    if a[0] != b[0]:
        return TOP
    k = a[0]
    if k == "i":
        if len(a) > 3 and len(b) > 3:
            return I(min(a[1], b[1]), max(a[2], b[2]), a[3] | b[3])
        return ("i", min(a[1], b[1]), max(a[2], b[2]))
    if k == "f":
        return ("f", min(a[1], b[1]), max(a[2], b[2]), a[3] or b[3])
    if k == "r":
        return ("r", join(a[1], b[1]))
    if k == "s":
        da, db = dict(a[1]), dict(b[1])
        if set(da) != set(db):
            return TOP
        return ("s", tuple(sorted((n, join(da[n], db[n])) for n in da)))
    if k == "e":
        da, db = dict(a[1]), dict(b[1])
        out = dict(da)
        for n, v in db.items():
            out[n] = join(out[n], v) if n in out else v
        return ("e", tuple(sorted(out.items())))
    if k == "v":
        elems = None
        if a[3] is not None and b[3] is not None and len(a[3]) == len(b[3]):
            elems = tuple(join(x, y) for x, y in zip(a[3], b[3]))
        return ("v", join(a[1], b[1]), join(a[2], b[2]), elems)
    return TOP


def widen(old, new, ty_range=None):
    """old \\/ new with jumps to the type bounds"""
    if old[0] == "b":
        return new
    if new[0] == "b":
        return old
    if old[0] != new[0]:
        return join(old, new)
    k = old[0]
    if k == "i":
        if len(old) > 3 and len(new) > 3 and len(old[3] | new[3]) <= SETMAX:
            # small explicit value sets: the union is itself a widening (a set can grow at most SETMAX times)
            u = old[3] | new[3]
            return I(min(u), max(u), u)
        lo, hi = old[1], old[2]
        tl, th = ty_range if ty_range else (-BIG, BIG)
        if new[1] < lo:
            lo = tl if new[1] >= tl else -BIG
        if new[2] > hi:
            hi = th if new[2] <= th else BIG
        if lo == old[1] and hi == old[2] and len(old) > 3 and len(new) > 3:
            return I(lo, hi, old[3] | new[3])
        return ("i", lo, hi)
    if k == "f":
        lo = old[1] if new[1] >= old[1] else -math.inf
        hi = old[2] if new[2] <= old[2] else math.inf
        return ("f", lo, hi, old[3] or new[3])
    if k == "r":
        return ("r", widen(old[1], new[1], ty_range))
    if k == "s":
        da, db = dict(old[1]), dict(new[1])
        if set(da) != set(db):
            return TOP
        return ("s", tuple(sorted((n, widen(da[n], db[n])) for n in da)))
    if k == "v":
        return ("v", widen(old[1], new[1], (0, MAXLEN)), widen(old[2], new[2], ty_range), None)
    return join(old, new)


def meet(a, b):
    """greatest lower bound (used for narrowing and refinement); conservative"""
    if a[0] == "t":
        return b
    if b[0] == "t":
        return a
    if a[0] == "b" or b[0] == "b":
        return BOT
    if a[0] != b[0]:
        return a
    k = a[0]
    if k == "i":
        lo, hi = max(a[1], b[1]), min(a[2], b[2])
        va, vb = (a[3] if len(a) > 3 else None), (b[3] if len(b) > 3 else None)
        vs = (va & vb) if (va is not None and vb is not None) else (va if va is not None else vb)
        return I(lo, hi, vs)
    if k == "f":
        lo, hi = max(a[1], b[1]), min(a[2], b[2])
        return ("f", lo, hi, a[3] and b[3])
    if k == "r":
        return ("r", meet(a[1], b[1]))
    if k == "s":
        da, db = dict(a[1]), dict(b[1])
        if set(da) != set(db):
            return a
        return ("s", tuple(sorted((n, meet(da[n], db[n])) for n in da)))
    if k == "v":
        return ("v", meet(a[1], b[1]), meet(a[2], b[2]), a[3] if a[3] is not None else b[3])
    return a


def show(a, depth=0):
    k = a[0]
    if k == "b":
        return "_|_"
    if k == "t":
        return "T"
    if k == "i":
        def f(x):
            if abs(x) >= (1 << 20):
                s = "-" if x < 0 else ""
                x = abs(x)
                if x & (x - 1) == 0:
                    return "%s2^%d" % (s, x.bit_length() - 1)
                if (x + 1) & x == 0:
                    return "%s2^%d-1" % (s, x.bit_length())
                return "%s~2^%d" % (s, x.bit_length())
            return str(x)
        if len(a) > 3 and 1 < len(a[3]) <= 6 and len(a[3]) != a[2] - a[1] + 1:
            return "{%s}" % ",".join(str(v) for v in sorted(a[3]))
        return "[%s, %s]" % (f(a[1]), f(a[2]))
    if k == "f":
        return "f[%g, %g%s]" % (a[1], a[2], ", NaN" if a[3] else "")
    if depth > 2:
        return k + "{..}"
    if k == "r":
        return "&" + show(a[1], depth + 1)
    if k == "s":
        return "{" + ", ".join("%s: %s" % (n, show(v, depth + 1)) for n, v in a[1]) + "}"
    if k == "e":
        return "|".join("%s%s" % (n, show(v, depth + 1)) for n, v in a[1])
    if k == "v":
        return "vec(len %s, %s)" % (show(a[1], depth + 1), show(a[2], depth + 1))
    return k


# ----------------------------------------------------------------------------- type strings

def split_generics(ty):
    """'a::B<X, Y<Z>>' -> ('a::B', ['X', 'Y<Z>'])"""
    i = ty.find("<")
    if i < 0 or not ty.endswith(">"):
        return ty, []
    base, inner = ty[:i], ty[i + 1:-1]
    args, depth, cur = [], 0, ""
    for ch in inner:
        if ch in "<([":
            depth += 1
        elif ch in ">)]":
            depth -= 1
        if ch == "," and depth == 0:
            args.append(cur.strip())
            cur = ""
        else:
            cur += ch
    if cur.strip():
        args.append(cur.strip())
    return base, args


ELEM_SIZE = {"u8": 1, "i8": 1, "bool": 1, "u16": 2, "i16": 2, "u32": 4, "i32": 4, "f32": 4, "char": 4, "u64": 8, "i64": 8, "usize": 8, "isize": 8, "f64": 8, "u128": 16, "i128": 16}


def size_of(elem_ty, facts=None):
    """size in bytes of a concrete type: primitives, or the compiler's layout as recorded by the driver; None if unknown"""
    t = elem_ty.strip()
    if t in ELEM_SIZE:
        return ELEM_SIZE[t]
    if facts is not None:
        v = getattr(facts, "type_sizes", {}).get(t)
        if v is not None:
            return int(v)
    return None


def maxlen_of(elem_ty, facts=None):
    """an object occupies at most isize::MAX bytes, so a slice of T has at most isize::MAX / size_of::<T>() elements"""
    return MAXLEN // max(1, size_of(elem_ty, facts) or 1)


def top_of_type(ty, facts=None, depth=0):
    if ty is None:
        return TOP
    ty = ty.strip()
    r = int_range(ty)
    if r:
        return I(*r)
    if ty in ("f64", "f32"):
        return FTOP
    if ty.startswith("&"):
        inner = ty[1:].strip()
        if inner.startswith("'"):
            inner = inner.split(" ", 1)[1] if " " in inner else inner
        if inner.startswith("mut "):
            inner = inner[4:]
        return R(top_of_type(inner, facts, depth + 1))
    if ty.startswith("*const ") or ty.startswith("*mut "):
        return R(top_of_type(ty.split(" ", 1)[1], facts, depth + 1))
    if ty.startswith("[") and ty.endswith("]"):
        inner = ty[1:-1]
        if ";" in inner:
            el, n = inner.rsplit(";", 1)
            try:
                n = int(n.strip())
            except ValueError:
                return V(I(0, MAXLEN), top_of_type(el.strip(), facts, depth + 1))
            return V(I(n, n), top_of_type(el.strip(), facts, depth + 1))
        return V(I(0, maxlen_of(inner, facts)), top_of_type(inner.strip(), facts, depth + 1))
    if ty.startswith("(") and ty.endswith(")"):
        if ty == "()":
            return S({})
        _b, args = split_generics("T<" + ty[1:-1] + ">")
        return S({str(i): top_of_type(a, facts, depth + 1) for i, a in enumerate(args)})
    base, args = split_generics(ty)
    if base in ("std::vec::Vec", "alloc::vec::Vec") and args:
        return V(I(0, maxlen_of(args[0], facts)), top_of_type(args[0], facts, depth + 1))
    if base in ("std::option::Option", "core::option::Option") and args:
        return E({"None": S({}), "Some": S({"0": top_of_type(args[0], facts, depth + 1)})})
    if base in ("std::result::Result", "core::result::Result") and len(args) == 2:
        return E({"Ok": S({"0": top_of_type(args[0], facts, depth + 1)}), "Err": S({"0": top_of_type(args[1], facts, depth + 1)})})
    if facts is not None and depth < 4:
        adt = facts.adts.get(facts.crate + "::" + base) or facts.adts.get(base)
        if adt is not None:
            if adt["kind"] == "Struct":
                v = adt["variants"][0]
                return S({f["name"]: top_of_type(f["ty"], facts, depth + 1) for f in v["fields"]})
            if adt["kind"] == "Enum":
                return E({v["name"]: S({f["name"]: top_of_type(f["ty"], facts, depth + 1) for f in v["fields"]}) for v in adt["variants"]})
    return TOP
