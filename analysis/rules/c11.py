"""C11 - cell boundary is a well-formed ring around the cell centre.
Decided: B1 ring closure (under the closed_ring option exactly one extra push, of element 0 of the same already
normalised vector, then only whole-vector operations); B2 the requested subdivision is honoured (split_edges
receives opts.segments when present); B3 no vertex is dropped or duplicated between the split and the returned
vector (each stage is a map-like loop with exactly one push per element; normalize_longitudes is a map+collect).
Not decided: finiteness, latitude range, orientation, 180-degree window, corner stability (numerical)."""
from ..terms import fn_terms, fmt, strip_site, walk, const_int
from ..query import option_default, closure_item_source, loops_of, every_iteration, pushes_to, mutators_of, ref_key, returns_under, is_variant
from ..run import where
from .cell_common import *

SPLIT = "a5::geometry::pentagon::PentagonShape::split_edges"
NORM = "a5::core::coordinate_transforms::normalize_longitudes"

EXPL = ("GUARD/PROV on cell_to_boundary: the extra closing point is pushed only when options.closed_ring is true, it is "
        "element 0 of the vector that is returned, and after it only reverse() touches the vector; split_edges receives "
        "options.segments when it is Some; the unproject and lon/lat stages push exactly once per input element and "
        "normalize_longitudes maps element-wise. Numerical well-formedness of the ring is NOT decided.")


def run(ctx):
    facts, run = ctx.facts, ctx.run
    run.explanation = EXPL
    run.rule_text = "C11.B1 GUARD/PROV ring closure, C11.B2 PROV subdivision argument, C11.B3 length preservation of the stages"
    if C2B not in facts.fns:
        run.missing("C11", C2B)
        return
    ft = fn_terms(facts, C2B)
    w = where(facts.fns[C2B]["span"])
    # the returned vector local
    oks = [t for t in returns_under(ft, {}) if is_variant(t, "Ok")]
    ret_keys = set()
    for t in oks:
        v = t[3][0]
        if v[0] == "escaped":
            ret_keys.add("_%d" % v[1])
    empties = [t for t in oks if t[3][0][0] == "call" and t[3][0][1].endswith("Vec::new")]
    if len(ret_keys) != 1:
        run.bad("C11.B1", "returned-vector", "cannot identify the returned boundary vector (%s) - unrecognised idiom" % [fmt(t) for t in oks], w)
        return
    key = next(iter(ret_keys))
    muts = mutators_of(ft, key)
    pushes = pushes_to(ft, key)
    # B1
    def is_opts(t):
        # the options value: the parameter itself, or its payload-or-default however that is spelled
        od = option_default(ft, t)
        return od is not None and od[0] == ("param", 2)
    opts_field = lambda t, name: t[0] == "field" and t[2] == name and (any(x == ("param", 2) for x in walk(t)) or is_opts(t[1]))
    if len(pushes) != 1:
        run.bad("C11.B1", "closing-push", "expected exactly one push into the returned vector, found %d" % len(pushes), w)
    else:
        p = pushes[0]
        conds = ft.conditions(p.block)
        guard = [(d, vals, other, excl) for d, vals, other, excl, _b in conds if opts_field(d, "closed_ring")]
        okg = len(guard) == 1 and ((guard[0][2] and 0 in guard[0][3]) or (guard[0][1] and 0 not in guard[0][1]))
        run.inst("C11.B1", "closing-push-guard", okg, "closing point pushed under %s" % ([("%s in %s%s" % (fmt(d), v, " or otherwise" if o else "")) for d, v, o, e in guard] or "no closed_ring condition"), where(p.span))
        val = peel(p.args[1])
        okv = val[0] == "call" and val[1].endswith("::index") and ref_key(val[2][0]) == key and const_int(val[2][1]) == 0
        if not okv and val[0] == "call" and (val[1].endswith("::first") or val[1].endswith("::index")):
            okv = False
        run.inst("C11.B1", "closing-push-value", okv, "pushed value = %s (must be element 0 of the same vector)" % fmt(val), where(p.span))
        # after the push only whole-vector permutations
        later = [c for c in muts if c is not p and ft.cfg.can_reach(p.block, c.block)]
        okl = all(c.callee.endswith("::reverse") or c.callee.endswith("::deref_mut") or c.callee.endswith("as_mut_slice") for c in later)
        run.inst("C11.B1", "after-closing", okl, "after the closing push the vector is touched only by %s" % sorted({c.callee.split("::")[-1] for c in later}), w)
        # the vector at the time of the push is the normalised one
        src = None
        for b in sorted(ft.cfg.reach):
            for pos, st in enumerate(ft.blocks[b]["stmts"]):
                pass
        init = [c for c in ft.calls() if c.callee == NORM]
        run.inst("C11.B1", "normalised-first", len(init) == 1 and ft.cfg.dominates(init[0].block, p.block) and init[0].dest["local"] == int(key[1:]),
                 "the vector is the result of normalize_longitudes, computed before closing", w)
    # B2
    sp = [c for c in ft.calls() if c.callee == SPLIT]
    if len(sp) != 1:
        run.bad("C11.B2", "split-call", "expected one split_edges call, found %d" % len(sp), w)
    else:
        n = sp[0].args[1]
        while n[0] == "cast":
            n = n[2]
        ok = False
        why = "subdivision argument is %s" % fmt(n)
        if n[0] == "call" and (n[1].endswith("Option::unwrap_or_else") or n[1].endswith("Option::unwrap_or") or n[1].endswith("Option::map_or") or n[1].endswith("Option::map_or_else")):
            ok = opts_field(n[2][0], "segments")
        elif n[0] == "phi":
            # match form: Some(v) => v
            ops = ft.phi_operands(n).values()
            ok = any(o[0] == "payload" and o[1] == "Some" and opts_field(o[2], "segments") for o in ops)
        run.inst("C11.B2", "segments-honoured", ok, why + " (must be options.segments when present)", where(sp[0].span))
        run.inst("C11.B2", "split-own-pentagon", pentagon_of_decoded(sp[0].args[0]), "split applies to %s" % fmt(sp[0].args[0]), where(sp[0].span))
    # B3: the vector handed to normalize_longitudes is a length- and order-preserving image of the split pentagon's vertices
    lps = [l for l in loops_of(ft) if l.next]
    VERTS = "a5::geometry::pentagon::PentagonShape::get_vertices_vec"
    norm_calls = [c for c in ft.calls() if c.callee == NORM]
    if len(norm_calls) != 1:
        run.bad("C11.B3", "ring-length-preserved", "expected one normalize_longitudes call, found %d" % len(norm_calls), w)
    else:
        t = norm_calls[0].args[0]
        stages, why, okc = [], None, False
        for _ in range(40):
            t = peel(t)
            if t[0] == "call" and t[1] == VERTS:
                inner = peel(t[2][0])
                okc = inner[0] == "call" and inner[1] == SPLIT
                why = None if okc else "vertices are taken from %s, not from the split pentagon" % fmt(inner)[:80]
                break
            if t[0] == "payload" and t[1] in ("Ok", "Some"):
                t = t[2]
                continue
            if t[0] == "call" and isinstance(t[1], str) and t[2]:
                short = t[1].split("::")[-1]
                if short in ("collect", "into_iter", "iter", "copied", "cloned", "deref", "as_slice", "to_vec", "branch"):
                    t = t[2][0]
                    continue
                if short == "map" and len(t[2]) == 2:
                    stages.append("map@%s" % fmt(t[2][1])[:40])
                    t = t[2][0]
                    continue
                why = "stage %s is not known to keep one output per input" % short
                break
            if t[0] in ("phi", "escaped"):
                key2 = "_%d" % (t[3] if t[0] == "phi" else t[1])
                ps = pushes_to(ft, key2)
                others = [c for c in mutators_of(ft, key2) if c not in ps]
                lp = [l for l in lps if len(ps) == 1 and ps[0].block in l.own]
                if len(ps) != 1 or others or len(lp) != 1 or not ps[0].callee.endswith("Vec::push"):
                    why = "vector %s is filled by %d push site(s) and touched by %s - not one push per element" % (key2, len(ps), sorted({c.callee.split("::")[-1] for c in others}))
                    break
                lp, c = lp[0], ps[0]
                ev = every_iteration(ft, lp, c.block)
                uses_item = any(strip_site(x) == strip_site(lp.item) for x in walk(c.args[1]))
                early = [(b, s2) for b, s2 in lp.exits if b != lp.item_switch and ft.blocks[s2]["term"]["k"] != "unreachable"]
                # early exits must leave the function with Err (the `?` on the projection), never continue with a short vector
                bad_early = []
                for b, s2 in early:
                    from ..terms import reachable_threaded
                    reach = reachable_threaded(ft, b, s2)
                    if any(c2.block in reach for c2 in ft.calls() if c2.callee and (c2.callee == NORM or c2.callee.endswith("Vec::push"))):
                        bad_early.append((b, s2))
                if not (ev and uses_item and not bad_early) or lp.source is None:
                    why = "push loop into %s: every iteration pushes: %s, value derived from the element: %s, early exits that keep going: %s" % (key2, ev, uses_item, bad_early)
                    break
                stages.append("push-loop@%s" % key2)
                t = lp.source
                continue
            why = "cannot follow the ring back through %s" % fmt(t)[:80]
            break
        run.inst("C11.B3", "ring-length-preserved", okc and why is None,
                 "normalize_longitudes receives the split pentagon's vertices through %d element-wise stage(s) %s%s" % (len(stages), stages, "" if why is None else " - " + why), where(norm_calls[0].span))
        run.floor("C11.B3", "map-like stages in cell_to_boundary", len(stages), 1)
    # normalize_longitudes is element-wise
    if NORM not in facts.fns:
        run.missing("C11.B3", NORM)
    else:
        fn = fn_terms(facts, NORM)
        rts = returns_under(fn, {})
        shapes = []
        for t in rts:
            calls = [x[1] for x in walk(t) if x[0] == "call"]
            if t == ("param", 1):
                shapes.append("identity")
            elif any(c.endswith("::collect") for c in calls) and any(c.endswith("::map") for c in calls) and not any(c.endswith(s) for c in calls for s in ("::filter", "::skip", "::take", "::step_by", "::dedup", "::filter_map", "::flat_map", "::chain")):
                src_ok = any(x == ("param", 1) for x in walk(t))
                shapes.append("map+collect" if src_ok else "other")
            else:
                shapes.append("other")
        run.inst("C11.B3", "normalize-elementwise", shapes and all(s in ("identity", "map+collect") for s in shapes), "normalize_longitudes returns %s of its input" % shapes, where(facts.fns[NORM]["span"]))
    # B4: the unwrapping reference is a longitude on every path (centre longitude, or the first point's longitude near a pole)
    if NORM in facts.fns:
        fn = fn_terms(facts, NORM)
        refs = []
        for p_, f_ in facts.fns.items():
            if not p_.startswith(NORM) or f_["kind"] not in ("Fn", "Closure"):
                continue
            fx = fn_terms(facts, p_)
            for b in sorted(fx.cfg.reach):
                t = fx.blocks[b]["term"]
                if t["k"] != "switch":
                    continue
                d = fx.switch_term(b)
                if d[0] == "bin" and d[1] in ("Gt", "Lt", "Ge", "Le") and d[2][0] == "bin" and d[2][1] == "Sub":
                    from ..terms import const_float
                    c_ = const_float(d[3])
                    if c_ is not None and abs(abs(c_) - 180.0) < 1e-9:
                        refs.append((fx, d[2][3]))
        def leaf_calls(fx, t, seen):
            out = []
            for x in walk(t):
                if x[0] == "call" and isinstance(x[1], str) and (x[1].endswith("::longitude") or x[1].endswith("::latitude")):
                    out.append(x[1].split("::")[-1])
                if x[0] == "phi" and x not in seen and x[1] == fx.path:
                    seen.add(x)
                    for o in fx.phi_operands(x).values():
                        out += leaf_calls(fx, o, seen)
                if x[0] == "deref" and x[1][0] == "field" and x[1][1][0] == "deref" and x[1][1][1] == ("param", 1):
                    # captured variable of the closure: resolve in the parent through the closure aggregate
                    idx = x[1][2]
                    for c in fn.calls():
                        for a in c.args:
                            for y in walk(a):
                                if y[0] == "agg" and y[1] == "closure" and y[2] == fx.path and isinstance(idx, int) and idx < len(y[3]):
                                    cap = y[3][idx]
                                    out += leaf_calls(fn, cap, seen)
            return out
        kinds = []
        for fx, rt in refs:
            kinds += leaf_calls(fx, rt, set())
        run.inst("C11.B4", "unwrap-reference-is-longitude", bool(refs) and bool(kinds) and all(k == "longitude" for k in kinds),
                 "the reference the ring is unwrapped around derives from %s on its %d path(s) (must be longitudes only)" % (sorted(set(kinds)), len(kinds)), where(facts.fns[NORM]["span"]))
    # B5: each ring point is pulled towards the reference individually: every +-180 comparison tests that point's own longitude
    if NORM in facts.fns:
        per_point, not_per_point, not_difference = 0, [], []
        for p_, f_ in sorted(facts.fns.items()):
            if not p_.startswith(NORM) or f_["kind"] not in ("Fn", "Closure"):
                continue
            fx = fn_terms(facts, p_)
            its = closure_item_source(facts, p_) if f_["kind"] == "Closure" else None
            lpsx = loops_of(fx)
            for b in sorted(fx.cfg.reach):
                t = fx.blocks[b]["term"]
                if t["k"] != "switch":
                    continue
                d = fx.switch_term(b)
                from ..terms import const_float as _cf
                if not (d[0] == "bin" and d[1] in ("Gt", "Lt", "Ge", "Le") and _cf(d[3]) is not None and abs(abs(_cf(d[3])) - 180.0) < 1e-9):
                    continue
                # the tested variable, through its own updates
                def own_of(term):
                    seen_, st_ = set(), [term]
                    while st_:
                        y = st_.pop()
                        for x in walk(y):
                            if x[0] == "call" and isinstance(x[1], str) and x[1].endswith("::longitude") and x[2]:
                                a = peel(x[2][0])
                                if its is not None and a == ("param", 2):
                                    return True
                                if any(l.item is not None and strip_site(peel(l.item)) == strip_site(a) for l in lpsx):
                                    return True
                            if x[0] == "phi" and x[1] == fx.path and x not in seen_:
                                seen_.add(x)
                                st_.extend(fx.phi_operands(x).values())
                    return False
                own = own_of(d[2])
                if own:
                    per_point += 1
                    # what is compared with +-180 is the signed distance of the point from the reference: the point's
                    # longitude and the reference enter it with opposite signs (`lon - ref`, `-(ref - lon)`, ..)
                    def leaves(t, sg):
                        if t[0] == "bin" and t[1] in ("Add", "Sub"):
                            return leaves(t[2], sg) + leaves(t[3], sg if t[1] == "Add" else -sg)
                        if t[0] == "un" and t[1] == "Neg":
                            return leaves(t[2], -sg)
                        return [(sg, t)]
                    lv = leaves(d[2], 1)
                    mine = [sg for sg, l in lv if own_of(l)]
                    refs_ = [sg for sg, l in lv if not own_of(l) and _cf(l) is None]
                    if len(lv) > 1 and not (len(mine) == 1 and refs_ and all(sg == -mine[0] for sg in refs_)):
                        not_difference.append(fmt(d)[:70])
                else:
                    not_per_point.append(fmt(d)[:60])
        run.inst("C11.B5", "wrap-per-point", per_point >= 2 and not not_per_point,
                 "%d comparison(s) with +-180 test the longitude of the point being mapped%s" % (per_point, "" if not not_per_point else "; these do not: %s" % not_per_point[:2]),
                 where(facts.fns[NORM]["span"]))
        run.inst("C11.B5", "wrap-tests-distance-from-reference", not not_difference,
                 "in every such comparison the point's longitude and the reference enter with opposite signs%s" % ("" if not not_difference else "; not in: %s" % not_difference[:2]),
                 where(facts.fns[NORM]["span"]))
    # B8: the reference the ring is unwrapped around is the direction of the SUM of the ring points.  What can be
    # decided from the shape of the code, and is necessary: wherever the function (or a closure of it) builds a
    # 3-vector from components of two different points (accumulator and ring point), the two horizontal slots - the
    # ones the reference longitude is read from - ADD the point's contribution.  (A difference mirrors the reference
    # and splits rings on the far side; mixed-up components, the vertical slot and the rescaling of the sum only move
    # the reference by less than a quarter turn, which no ring away from the poles notices - measured with the
    # mutation probe, DESIGN 13.15 - so they are not required here.)  A centre computed some other way is not judged.
    if NORM in facts.fns:
        from .wrap_common import _component
        acc, bad8 = 0, []
        for p_, f_ in sorted(facts.fns.items()):
            if not p_.startswith(NORM) or f_["kind"] not in ("Fn", "Closure"):
                continue
            fx = fn_terms(facts, p_)
            seen8 = set()
            for c in fx.calls():
                if not (isinstance(c.callee, str) and c.callee.endswith("::new") and len(c.args) == 3):
                    continue
                k8 = tuple(strip_site(a) for a in c.args)
                if k8 in seen8:
                    continue
                seen8.add(k8)
                args = [peel(a) for a in c.args]
                if not all(a[0] == "bin" and a[1] in ("Add", "Sub") for a in args):
                    continue
                pairs = [(_component(a[2]), _component(a[3])) for a in args]
                if all(x is not None and y is not None and x[1] != y[1] for x, y in pairs):
                    acc += 1
                    for slot in (0, 1):
                        if args[slot][1] != "Add":
                            bad8.append("slot %s = %s" % ("xyz"[slot], fmt(args[slot])[:50]))
        if acc == 0:
            run.note("C11.B8 not evaluated: no component-wise combination of two points found in normalize_longitudes (the centre is computed some other way)")
        run.inst("C11.B8", "centre-accumulates-sum", not bad8,
                 "%d accumulation(s) of a 3-vector from two points; the horizontal slots add the point's contribution%s" % (
                     acc, "" if not bad8 else "; not so: %s" % bad8[:2]), where(facts.fns[NORM]["span"]), nontrivial=acc > 0)
    # B6: the ring is split from the shape's exact vertex list, not from the padded fixed-size accessor
    GV = "a5::geometry::pentagon::PentagonShape::get_vertices"
    for user in (SPLIT, C2B):
        if user in facts.fns:
            fu = fn_terms(facts, user)
            pads = [c for c in fu.calls() if c.callee == GV]
            run.inst("C11.B6", "exact-vertex-list:" + user.split("::")[-1], not pads,
                     "%s reads the shape's vertices through %s" % (user.split("::")[-1], "the exact-length list" if not pads else "get_vertices(), the 5-slot array that pads triangles with (0,0)"),
                     where(pads[0].span) if pads else where(fu.fn["span"]))
    # B6 (census): the padded accessor is read by the two functions that take exactly the first three corners of a triangle
    # they built themselves, and by nobody else - in particular not by anything a boundary goes through (a Clone written
    # through PentagonShape::new(self.get_vertices()) turns a 3-vertex shape into a 5-vertex one)
    GV_OK = ("a5::core::tiling::get_quintant_vertices", "a5::projections::dodecahedron::DodecahedronProjection::get_base_face_triangle")
    gv_users = sorted({p_ for p_, f_ in facts.fns.items() if f_["kind"] in ("Fn", "AssocFn", "Closure") and p_ not in getattr(facts, "spliced_helpers", ())
                       and any(c_.callee == GV for c_ in fn_terms(facts, p_).calls())})
    extra_gv = [p_ for p_ in gv_users if p_ not in GV_OK and not any(p_.startswith(ok_ + "::{closure") for ok_ in GV_OK)]
    run.inst("C11.B6", "padded-accessor-readers", not extra_gv,
             "get_vertices() (5 slots, triangles padded with (0,0)) is read by %s%s" % ([u.split("::")[-1] for u in gv_users], "" if not extra_gv else "; not among the two triangle builders: %s" % [u.split("::")[-2:] for u in extra_gv]),
             where(facts.fns[extra_gv[0]]["span"]) if extra_gv else None)
    # B7: split_edges emits, for every vertex of the shape, that vertex followed by exactly segments - 1 interior points:
    # the number of points per edge is an integer count, never the outcome of floating-point accumulation
    if SPLIT in facts.fns:
        from ..query import seq_nth, linear
        fs = fn_terms(facts, SPLIT)
        ws = where(facts.fns[SPLIT]["span"])
        pushes = [c for c in fs.calls() if c.callee and c.callee.endswith("Vec::push") and c.args]
        keys = {ref_key(c.args[0]) for c in pushes}
        all_l = loops_of(fs)
        top = [l for l in all_l if not any(l.body < m.body for m in all_l)]
        top = [l for l in top if any(c.block in l.body for c in pushes)]
        why7 = None
        if len(keys) != 1 or len(top) != 1:
            why7 = "expected one vector filled inside one loop over the shape's vertices, found %d vector(s) / %d loop(s) - unrecognised idiom, cannot decide" % (len(keys), len(top))
        else:
            O = top[0]
            key7 = list(keys)[0]
            others = [c for c in mutators_of(fs, key7) if c not in pushes and c.block in O.body]
            nested = [l for l in all_l if l.body < O.body and not any(l.body < m.body < O.body for m in all_l)]
            own_p = [c for c in pushes if c.block in O.own]
            verts = lambda t_: any(x[0] == "field" and x[2] == "vertices" and any(y == ("param", 1) for y in walk(x)) for x in walk(t_))
            r_o = seq_nth(fs, O.source) if O.source is not None else None
            if others:
                why7 = "the result vector is also changed by %s inside the loop" % sorted({c.callee.split("::")[-1] for c in others})
            elif r_o is None or r_o[1] == ("inf",) or not ((r_o[1] is None and verts(O.source) and not any(
                    x[0] == "call" and isinstance(x[1], str) and x[1].split("::")[-1] in ("skip", "take", "step_by", "filter", "skip_while", "take_while", "filter_map", "chain", "flat_map")
                    and not any(y[0] == "call" and isinstance(y[1], str) and y[1].endswith("::cycle") for y in walk(x)) for x in walk(O.source)))
                    or (r_o[1] is not None and linear(r_o[1])[1] == 0 and [c_ for c_ in linear(r_o[1])[0].values() if c_ != 0] == [1] and verts(r_o[1]))):
                why7 = "the outer loop does not run once per vertex of the shape (source %s)" % (fmt(O.source)[:80] if O.source is not None else "not an integer-counted loop")
            elif len(own_p) != 1 or not every_iteration(fs, O, own_p[0].block) or not (
                    verts(own_p[0].args[1]) or any(strip_site(x) == strip_site(O.item) for x in walk(own_p[0].args[1]))):
                why7 = "each edge must start with exactly one push of its own vertex (found %d push(es) directly in the vertex loop)" % len(own_p)
            else:
                inner_p = [l for l in nested if any(c.block in l.body for c in pushes)]
                if len(inner_p) != 1:
                    why7 = "expected one loop adding the interior points of an edge, found %d" % len(inner_p)
                else:
                    I = inner_p[0]
                    ip = [c for c in pushes if c.block in I.body]
                    r_i = seq_nth(fs, I.source) if I.source is not None else None
                    if I.source is None or r_i is None or r_i[1] is None:
                        why7 = "the interior points of an edge are added by a loop whose trip count is not an integer count (it must run exactly segments - 1 times)"
                    else:
                        co, k_ = linear(r_i[1])
                        co = {strip_site(a): c_ for a, c_ in co.items() if c_ != 0}
                        early = [(b, s2) for b, s2 in I.exits if b != I.item_switch and fs.blocks[s2]["term"]["k"] != "unreachable" and not fs.blocks[s2].get("cleanup")]
                        if not (co == {("param", 2): 1} and k_ == -1):
                            why7 = "the interior-point loop runs %s times, not segments - 1" % fmt(r_i[1])[:80]
                        elif len(ip) != 1 or ip[0].block not in I.own or not every_iteration(fs, I, ip[0].block) or early:
                            why7 = "the interior-point loop must push exactly one point per iteration and leave only when the count is exhausted (pushes %d, early exits %s)" % (len(ip), early)
        run.inst("C11.B7", "points-per-edge", why7 is None,
                 "split_edges pushes each vertex followed by exactly segments - 1 interior points, counted in integers" if why7 is None else why7, ws)
    run.inst("C11.B1", "world-cell-empty", len(empties) <= 1, "the only other Ok result is the empty ring of the world cell", w, nontrivial=False)
    run.floor("C11", "rule instances", len(run.instances), 10)
