"""Structural rules shared by the coordinate packs: periodic wrap-around consistency and component pairing."""
from ..terms import fn_terms, fmt, strip_site, walk, const_float
from ..run import where


def _affine_var(t):
    """t == x - c (or x, or x + c) with x a loop-carried / joined float variable: returns x"""
    while t[0] == "bin" and t[1] in ("Sub", "Add"):
        t = t[2]
    return t if t[0] == "phi" else None


def check_wraps(facts, run, rule, prefixes):
    """wherever a value is pulled back into a window by `if / while x - c > A { x -= B }` (or `< -A`, `+= B`), the step
    must be the window's width, B == 2*A: a step of A (or any other) lands outside the window or on another branch.
    Returns the number of wrap sites checked."""
    n = 0
    for path, f in sorted(facts.fns.items()):
        if f["kind"] not in ("Fn", "AssocFn", "Closure") or not any(path.startswith(p) for p in prefixes):
            continue
        ft = fn_terms(facts, path)
        for b in sorted(ft.cfg.reach):
            tm = ft.blocks[b]["term"]
            if tm["k"] != "switch":
                continue
            d = ft.switch_term(b)
            if not (d[0] == "bin" and d[1] in ("Gt", "Lt", "Ge", "Le")):
                continue
            A = const_float(d[3])
            if A is None or A == 0.0 or (ft.tyof(d[2]) or "f64") not in ("f64", "f32"):
                continue
            # the compared quantity is x, or x - c / x + c: candidates for "the variable that is wrapped"
            cands = {strip_site(d[2])}
            y = d[2]
            while y[0] == "bin" and y[1] in ("Sub", "Add"):
                y = y[2]
                cands.add(strip_site(y))
            true_succ = tm["otherwise"]
            for local, heads in ft._phi.items():
                if (ft.fn["locals"][local]["ty"]) not in ("f64", "f32"):
                    continue
                for hb in heads:
                    if hb not in ft.cfg.reach:
                        continue
                    ph = ("phi", ft.path, hb, local)
                    for pred, v in ft.phi_operands(ph).items():
                        if not (v[0] == "bin" and v[1] in ("Sub", "Add") and strip_site(v[2]) in cands and const_float(v[3]) is not None):
                            continue
                        if not (pred == true_succ or ft.cfg.dominates(true_succ, pred)) or not ft.cfg.edge_dominates(b, true_succ, pred):
                            continue
                        B = const_float(v[3]) * (1.0 if v[1] == "Sub" else -1.0)      # the amount subtracted
                        want = 2.0 * A                                                 # x > A: subtract 2A; x < -A: subtract -2|A|
                        n += 1
                        nm = path.split("::")[-1] if "{closure" not in path else path.split("::")[-2] + "::closure"
                        run.inst(rule, "wrap:%s:%s%g" % (nm, d[1], A), abs(B - want) <= 1e-12 * max(1.0, abs(want)),
                                 "value compared with %g is moved by %g (a wrap back into a window of half-width %g must move by %g)" % (A, -B, abs(A), -want),
                                 where(tm.get("span")))
    return n


def _phis_of_local(ft, local):
    out = []
    for b in ft._phi.get(local, ()):
        if b in ft.cfg.reach:
            out.append(("phi", ft.path, b, local))
    return out


def _component(t):
    """(component name, point term) for p.x() / p.y() / p.z() or a field read .x/.y/.z"""
    while t[0] in ("ref", "deref"):
        t = t[2] if t[0] == "ref" else t[1]
    if t[0] == "call" and isinstance(t[1], str) and len(t[2]) == 1 and t[1].split("::")[-1] in ("x", "y", "z"):
        p = t[2][0]
        while p[0] in ("ref", "deref"):
            p = p[2] if p[0] == "ref" else p[1]
        return t[1].split("::")[-1], strip_site(p)
    if t[0] == "field" and str(t[2]) in ("x", "y", "z"):
        return str(t[2]), strip_site(t[1])
    return None


def check_component_pairing(facts, run, rule, paths):
    """a difference (or sum) of two coordinates of two different points pairs the same component: p.x - q.x, never p.x - q.y"""
    n = 0
    for path in paths:
        if path not in facts.fns:
            run.missing(rule, path)
            continue
        ft = fn_terms(facts, path)
        seen = set()
        bad = []
        for b in sorted(ft.cfg.reach):
            for i, st in enumerate(ft.blocks[b]["stmts"]):
                if st["k"] != "assign" or st["rv"]["k"] != "binop" or st["rv"]["op"] not in ("Sub", "Add"):
                    continue
                t = ft.rvalue(st["rv"], b, i)
                if t[0] != "bin":
                    continue
                ca, cb = _component(t[2]), _component(t[3])
                if ca is None or cb is None or ca[1] == cb[1]:
                    continue
                k = strip_site(t)
                if k in seen:
                    continue
                seen.add(k)
                n += 1
                if ca[0] != cb[0]:
                    bad.append("%s (at line %s)" % (fmt(t)[:60], (st.get("span") or {}).get("line")))
        run.inst(rule, "components:" + path.split("::")[-1], not bad and n > 0,
                 "%d coordinate differences between distinct points, all pairing like components" % len(seen) if not bad else "mixed components: %s" % bad[:2],
                 where(ft.fn["span"]))
    return n
