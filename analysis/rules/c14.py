"""C14 - total API: malformed IDs and out-of-range resolutions give Err, never a crash.
Decided (strong partial): for ALL u64 x i32 (x Option / slice / option structs) from the 13 API entry points, every
integer-determined failure site reachable in any calling context is discharged by abstract interpretation:
arithmetic overflow, shift amounts, division, sign-losing / truncating casts, indexing, unwrap/expect/panic,
allocation sizes; results of hierarchy calls are canonical (serialize results or the world cell); fallible entry
points return Result<_, String>.  Sites outside the reach of the domains are listed, reviewed assumptions
(assumptions.json) - float geometry, beyond the 4^8 bound, C11's own quantifier.  Termination is decided only in
the form "no loop bound / allocation size is a wrapped negative number"."""
import json
import os

from ..callgraph import api_entry_points, CallGraph, API
from ..ranges import Engine
from ..terms import fn_terms, fmt, walk, const_int, strip_site
from ..query import returns_under, is_variant, pushes_to
from ..run import VERIF, where
from ..facts import strip_generics
from ..avals import show

SER = "a5::core::serialization::serialize"

EXPL = ("OBL: sparse interprocedural range analysis (intervals, small value sets, float intervals, shapes, linear facts with "
        "Fourier-Motzkin entailment, vector lengths, struct-field invariants, power-of-two and positional-sum lemmas, "
        "case splits on decoded resolution) over the typed MIR from the 13 public entry points with top arguments; "
        "every obligation is discharged, input-independent (once-cell initialisers), a reviewed assumption, or a violation. "
        "CENSUS of entry points, PROV of canonical results, signature check. Float-geometry panics are assumptions, not verdicts.")


def load_assumptions():
    p = os.path.join(VERIF, "assumptions.json")
    with open(p) as fh:
        return {a["key"]: a for a in json.load(fh)["assumptions"]}


def run(ctx):
    facts, run = ctx.facts, ctx.run
    run.explanation = EXPL
    run.rule_text = "C14.E CENSUS entry points; C14.O OBL obligation discharge (instance = obligation key); C14.S signatures; C14.C PROV canonical results"
    tier = ctx.tier
    # ---------------- E: entry points
    api = api_entry_points(facts)
    run.floor("C14.E", "public API entry points re-exported at the crate root", len(api), 13)
    missing = [p for p in API if p not in api]
    run.inst("C14.E", "entry-points", not missing, "the 13 documented API functions are re-exported (%d found; missing: %s)" % (len(api), missing))
    extra = [p for p in api if p not in API]
    for p in extra:
        run.note("additional public entry point analysed: %s" % p)
    # ---------------- O: obligations
    eng = Engine(facts, precision=1 if tier == "thorough" else 0)
    obs = eng.analyze([(p, None) for p in api])
    assume = load_assumptions()
    by_sig = {a["sig"]: a for a in assume.values() if a.get("sig")}
    for a in assume.values():
        for s2 in a.get("alt_sigs", []):
            by_sig.setdefault(s2, a)
    # sites that state the very fact of an assumption a second time (an assertion in front of the access it protects)
    by_also = {}
    for a in assume.values():
        for s2 in a.get("also_sigs", []):
            by_also.setdefault(s2, a)
    also_used = set()
    sig_used = {}
    counts = {"discharged": 0, "assumed": 0, "constant": 0, "failed": 0}
    used = set()
    for key, o in sorted(obs.items()):
        if o.status == "discharged":
            counts["discharged"] += 1
            continue
        if o.status == "constant":
            counts["constant"] += 1
            run.note("input-independent (settled by any run, not claimed): %s -- %s" % (key, o.detail[:120]))
            continue
        a = assume.get(key)
        if a is None:
            # the same site after a rename of locals: matched by its name-free signature, at most `count` (default 1)
            # undischarged obligations per listed assumption - a second site with the same shape is still reported
            a2 = by_sig.get(getattr(o, "sig", None))
            if a2 is None and getattr(o, "sig", None):
                # assumptions scoped to a module: the function part of the signature is compared by its module
                ps = o.sig.split("|")
                for cand in assume.values():
                    if cand.get("scope") == "module" and cand.get("sig"):
                        cs = cand["sig"].split("|")
                        if len(cs) == len(ps) and cs[0] == ps[0] and cs[2:] == ps[2:] and cs[1].split("::")[:3] == ps[1].split("::")[:3]:
                            a2 = cand
            if a2 is not None and sig_used.get(a2["key"], 0) < a2.get("count", 1) and a2["key"] not in obs:
                sig_used[a2["key"]] = sig_used.get(a2["key"], 0) + 1
                a = a2
            a3 = by_also.get(getattr(o, "sig", None))
            if a is None and a3 is not None and (a3["key"], o.sig) not in also_used:
                also_used.add((a3["key"], o.sig))
                a = a3
        if a is not None:
            key_ = key
            key = a["key"]
            used.add(key)
            if a.get("quick_only") and tier == "thorough":
                run.bad("C14.O", key, "marked provable at the thorough precision but not discharged: %s (context %s)" % (o.detail, o.ctx), o.where)
                counts["failed"] += 1
                continue
            counts["assumed"] += 1
            run.assume("%s [%s] %s" % (key, a["class"], a["reason"]))
            continue
        counts["failed"] += 1
        run.bad("C14.O", key, "%s obligation not discharged: %s ; context %s" % (o.kind, o.detail, o.ctx), o.where)
    run.assume("GLOBAL [platform] a slice / vector that exists in memory occupies at most 2^56 bytes (largest user address space of any 64-bit target); "
               "bounds len() of existing collections only, never a requested allocation size")
    for pth, msg in sorted(getattr(eng, "ptr_checks_skipped", ())):
        run.note("compiler-inserted raw-pointer check not claimed here (unsafe code is confined by C13.P5): %s in %s" % (msg, pth))
    total = len(obs)
    run.inst("C14.O", "obligations-discharged", True,
             "%d obligations from %d live contexts (%d contexts analysed): %d discharged, %d reviewed assumptions, %d input-independent, %d violations" % (
                 total, len(eng.live), len(eng.ctxs), counts["discharged"], counts["assumed"], counts["constant"], counts["failed"]), nontrivial=False)
    run.floor("C14.O", "obligations enumerated", total, 330)
    run.floor("C14.O", "functions analysed from the API", len({p for p, _a in eng.live}), 150)
    run.extra.update({"obligations": total, "discharged": counts["discharged"], "assumed": counts["assumed"], "input_independent": counts["constant"],
                      "contexts": len(eng.ctxs), "live_contexts": len(eng.live),
                      "case_splits": [{"fn": k[0], "args": list(k[1]), "how": v[0], "cases": v[1]} for k, v in list(eng.splits.items())[:40]],
                      "assumed_total_externals": sorted(eng.assumed_total),
                      "by_kind": _by_kind(obs), "precision": eng.precision})
    # representative discharged obligations as samples
    shown = 0
    for key, o in sorted(obs.items()):
        if o.status == "discharged" and o.input_dep and shown < 30 and o.kind in ("OVF", "IDX", "SHIFT", "CAST", "DIV"):
            run.ok("C14.O", key, o.detail[:160], o.where)
            shown += 1
    stale = [k for k in assume if k not in used and not (assume[k].get("quick_only") and tier == "thorough")]
    for k in stale:
        run.note("assumption entry no longer needed (obligation discharged or gone): %s" % k)
    # ---------------- S: signatures
    for p in api:
        f = facts.fns[p]
        rt = f["ret_ty"]
        if "Result<" in rt:
            run.inst("C14.S", "signature:" + p.split("::")[-1], rt.endswith("std::string::String>"), "%s returns %s" % (p.split("::")[-1], rt), where(f["span"]), nontrivial=False)
        else:
            # infallible by signature: must not have undischarged obligations of its own
            bad = [k for k, o in obs.items() if o.fn == p and o.status == "failed" and k not in assume]
            run.inst("C14.S", "signature:" + p.split("::")[-1], not bad, "%s returns %s (no error channel): every obligation in its body is discharged" % (p.split("::")[-1], rt), where(f["span"]), nontrivial=False)
    # dropped Results on API paths
    cg = CallGraph(facts)
    reach = cg.reachable(api)
    dropped = []
    for p in sorted(reach):
        f = facts.fns[p]
        if f["kind"] not in ("Fn", "AssocFn", "Closure"):
            continue
        uses = _local_uses(f)
        for b in f["blocks"]:
            t = b["term"]
            if b["cleanup"] or t["k"] != "call" or t["func"].get("k") != "fn":
                continue
            name = strip_generics(t["func"].get("resolved") or t["func"]["path"])
            if name not in facts.fns:
                continue
            if "Result<" not in facts.fns[name]["ret_ty"]:
                continue
            d = t["dest"]["local"]
            if uses.get(d, 0) == 0:
                dropped.append((p, name, where(t["span"])))
    run.inst("C14.S", "no-dropped-errors", not dropped, "local calls returning Result whose value is never read: %s" % (dropped or "none"))
    # ---------------- C: canonical results
    S = "a5::core::serialization::"
    for p in ("a5::core::cell::lonlat_to_cell", S + "cell_to_children", S + "cell_to_parent", S + "get_res0_cells"):
        if p not in facts.fns:
            run.missing("C14.C", p)
            continue
        ft = fn_terms(facts, p)
        bad = []
        n = 0
        for t in returns_under(ft, {}):
            n += 1
            if is_variant(t, "Err") or (t[0] == "call" and t[1].endswith("::from_residual")):
                continue
            if t[0] == "call" and t[1] in (SER, S + "cell_to_children"):
                continue
            if t[0] == "call" and t[1].endswith("::collect") and t[2] and t[2][0][0] == "call" and t[2][0][1].endswith("::map") and len(t[2][0][2]) == 2:
                # iterator pipeline collected into Result<Vec<_>,_>: every item is what the last map closure returns
                clos = t[2][0][2][1]
                while clos[0] in ("ref", "deref"):
                    clos = clos[2] if clos[0] == "ref" else clos[1]
                if clos[0] == "agg" and clos[1] == "closure" and clos[2] in facts.fns:
                    fcl = fn_terms(facts, clos[2])
                    rts = [fcl.return_term(rb) for rb in fcl.return_blocks()]
                    if rts and all(r[0] == "call" and r[1] == SER for r in rts):
                        continue
            if is_variant(t, "Ok"):
                v = t[3][0]
                if const_int(v) == 0:
                    continue
                if v[0] == "payload" and v[2][0] == "call" and v[2][1] == SER:
                    continue
                if v[0] == "agg" and v[1] == "vec" and all(x[0] == "payload" and x[2][0] == "call" and x[2][1] == SER for x in v[3]):
                    continue
                if v[0] in ("phi", "escaped"):
                    key = "_%d" % (v[3] if v[0] == "phi" else v[1])
                    ps = pushes_to(ft, key)
                    if ps and all(c.callee.endswith("Vec::push") and c.args[1][0] == "payload" and c.args[1][2][0] == "call" and c.args[1][2][1] == SER for c in ps):
                        continue
            bad.append(fmt(t)[:100])
        run.inst("C14.C", "canonical:" + p.split("::")[-1], not bad and n > 0, "every successful result is a serialize() result or the world cell%s" % ("" if not bad else "; raw values returned: %s" % bad), where(ft.fn["span"]))
    # ---------------- C (collections): compact / uncompact return only canonical IDs - every ID that reaches the result is
    # the output of serialize / cell_to_parent / cell_to_children (or the world cell), or an element of a collection of which
    # that holds; a raw element of the input slice must not travel through untouched (an alias with stray bits below the
    # marker, or a bit pattern that is no cell, would come back as it went in)
    CANON = (SER, S + "cell_to_children", S + "cell_to_parent")
    for p in ("a5::core::compact::compact", "a5::core::compact::uncompact"):
        if p not in facts.fns:
            run.missing("C14.C", p)
            continue
        ft = fn_terms(facts, p)
        raw = _raw_ids_in_result(facts, ft, CANON)
        for site, what in raw:
            run.inst("C14.C", "canonical:%s:%s" % (p.split("::")[-1], site), False,
                     "an ID reaches the result without passing through serialize / cell_to_parent / cell_to_children: %s" % what, where(ft.fn["span"]))
        if not raw:
            run.inst("C14.C", "canonical:" + p.split("::")[-1], True, "every ID in the result is a serialize / cell_to_parent / cell_to_children output, the world cell, or an element of a collection of such", where(ft.fn["span"]))
    # ---------------- thorough: the release profile has the same arithmetic sites
    if ctx.facts_release is not None:
        diffs = []
        for p, f in facts.fns.items():
            g = ctx.facts_release.fns.get(p)
            if g is None:
                diffs.append((p, "missing in release"))
                continue
            a, b = _arith_sites(f), _arith_sites(g)
            if a != b:
                diffs.append((p, a, b))
        run.inst("C14.X", "release-profile-same-sites", not diffs, "arithmetic/shift/div/index operations per function are identical in the overflow-checked and the release-like extraction (%d functions compared; differences: %s)" % (len(facts.fns), diffs[:3]))


def _raw_ids_in_result(facts, ft, CANON):
    """[(site key, description)] for every way a non-canonical ID can get into the vector the function returns.
    Provenance over the function's own terms: values, vectors (by local), iteration items and element reads."""
    from ..query import loops_of, mutators_of
    lps = loops_of(ft)
    items = {}
    for l in lps:
        if l.item is not None and l.source is not None:
            items[strip_site(l.item)] = l.source
    memo = {}
    raw = []

    def peel(t):
        while True:
            if t[0] in ("ref", "deref"):
                t = t[2] if t[0] == "ref" else t[1]
            elif t[0] == "cast" and t[1] == "PointerCoercion":
                t = t[2]
            elif t[0] == "call" and isinstance(t[1], str) and t[2] and t[1].split("::")[-1] in ("clone", "copied", "cloned", "deref", "as_slice", "to_vec", "iter", "into_iter", "by_ref", "borrow", "enumerate"):
                t = t[2][0]
            else:
                return t

    def value_ok(t, depth=0):
        """is the ID-valued (or ID-collection-valued) term canonical?"""
        if depth > 40:
            return False
        t = peel(t)
        k = strip_site(t)
        if k in memo:
            return memo[k]
        memo[k] = True          # a cycle adds nothing new
        r = _value_ok(t, depth)
        memo[k] = r
        return r

    def _value_ok(t, depth):
        if strip_site(t) in items:
            return value_ok(items[strip_site(t)], depth + 1)     # a loop item: judged as the sequence it comes from
        if t[0] == "const":
            return const_int(t) == 0 or (len(t) > 3 and isinstance(t[3], str) and t[3].endswith("WORLD_CELL"))
        if t[0] == "payload":
            return value_ok(t[2], depth + 1) if t[1] in ("Ok", "Some") else True
        if t[0] == "field" and str(t[2]).isdigit():
            # a component of an iteration item: of `a.zip(b)` component 0 comes from a and 1 from b; of `x.enumerate()`
            # component 1 comes from x and 0 is a position, not an ID
            b_ = peel(t[1])
            src = items.get(strip_site(b_))
            if src is not None:
                s_ = src
                for _ in range(8):
                    while s_[0] in ("ref", "deref"):
                        s_ = s_[2] if s_[0] == "ref" else s_[1]
                    if s_[0] == "call" and isinstance(s_[1], str) and s_[2]:
                        sh = s_[1].split("::")[-1]
                        if sh == "zip" and len(s_[2]) == 2:
                            return value_ok(s_[2][int(t[2])], depth + 1) if int(t[2]) in (0, 1) else False
                        if sh == "enumerate":
                            return value_ok(s_[2][0], depth + 1) if int(t[2]) == 1 else False
                        if sh in ("into_iter", "iter", "by_ref", "copied", "cloned", "rev", "skip", "take", "peekable"):
                            s_ = s_[2][0]
                            continue
                    break
            return value_ok(t[1], depth + 1)
        if t[0] == "call" and isinstance(t[1], str):
            if t[1] in CANON:
                return True
            short = t[1].split("::")[-1]
            if short in ("collect", "from_iter", "unwrap", "expect", "branch") and t[2]:
                return value_ok(t[2][0], depth + 1)
            if short in ("new", "with_capacity") and ("Vec" in t[1] or "HashSet" in t[1] or "BTreeSet" in t[1]):
                return True
            if short == "map" and len(t[2]) == 2:
                clos = peel(t[2][1])
                if clos[0] == "fnref":
                    return clos[1] in CANON
                if clos[0] == "agg" and clos[1] == "closure" and clos[2] in facts.fns:
                    fcl = fn_terms(facts, clos[2])
                    rts = [fcl.return_term(rb) for rb in fcl.return_blocks()]
                    return bool(rts) and all(_closure_ret_ok(r) for r in rts)
                return False
            if short in ("index", "get", "first", "last", "next", "pop") and t[2]:
                return value_ok(t[2][0], depth + 1)       # an element of a collection
            if short in ("chain", "zip") and len(t[2]) == 2:
                return value_ok(t[2][0], depth + 1) and value_ok(t[2][1], depth + 1)
            return False
        if t[0] == "index":
            return value_ok(t[1], depth + 1)
        if t[0] == "agg" and t[1] == "tuple":
            # a record kept per cell (`(cell, fan_out)`): its ID-typed components count, the others are not IDs
            return all(value_ok(x, depth + 1) or (ft.tyof(x) or "u64") not in ("u64", "&u64") for x in t[3])
        if t[0] == "agg" and t[1] in ("vec", "array"):
            return all(value_ok(x, depth + 1) for x in t[3])
        if t[0] == "agg" and t[1] == "adt" and isinstance(t[2], str) and t[2].split("::")[-1] in ("Ok", "Some") and t[3]:
            return value_ok(t[3][0], depth + 1)
        if t[0] == "param":
            return False                                     # the raw input
        if t[0] in ("phi", "escaped"):
            if strip_site(t) in items:
                return value_ok(items[strip_site(t)], depth + 1)
            local = t[3] if t[0] == "phi" else t[1]
            return vec_ok(local, depth + 1) if _is_coll(local) else (t[0] == "phi" and all(value_ok(o, depth + 1) for o in ft.phi_operands(t).values()))
        return False

    def _closure_ret_ok(r):
        r0 = r
        while r0[0] in ("ref", "deref"):
            r0 = r0[2] if r0[0] == "ref" else r0[1]
        return r0[0] == "call" and r0[1] in CANON

    def _is_coll(local):
        ty = ft.fn["locals"][local]["ty"]
        return any(s_ in ty for s_ in ("Vec<", "HashSet<", "BTreeSet<", "[u64"))

    vmemo = {}

    def vec_ok(local, depth):
        if local in vmemo:
            return vmemo[local]
        vmemo[local] = True
        ok = True
        key = "_%d" % local
        # whole-local definitions
        for b in sorted(ft.cfg.reach):
            for pos in ft._defs[b].get(local, []):
                kind = ft._kinds[(b, pos, local)]
                if kind[0] in ("assign", "call") and not (kind[0] == "assign" and kind[1]["place"]["proj"]):
                    dt = ft.def_term(b, pos, local)
                    if not value_ok(dt, depth + 1):
                        ok = False
                        raw.append(("def:%s" % (ft.fn["locals"][local].get("name") or key), fmt(dt)[:100]))
        for c in mutators_of(ft, key):
            short = (c.callee or "").split("::")[-1]
            if short in ("push", "insert", "push_back") and len(c.args) >= 2:
                if not value_ok(c.args[-1], depth + 1):
                    ok = False
                    raw.append(("push:%s" % (ft.fn["locals"][local].get("name") or key), fmt(c.args[-1])[:100]))
            elif short in ("extend", "append", "extend_from_slice") and len(c.args) == 2:
                if not value_ok(c.args[1], depth + 1):
                    ok = False
                    raw.append(("extend:%s" % (ft.fn["locals"][local].get("name") or key), fmt(c.args[1])[:100]))
        vmemo[local] = ok
        return ok

    for t in returns_under(ft, {}):
        if is_variant(t, "Err") or (t[0] == "call" and t[1].endswith("::from_residual")):
            continue
        v = t[3][0] if is_variant(t, "Ok") else t
        if not value_ok(v):
            if not raw:
                raw.append(("result", fmt(v)[:100]))
    # one report per distinct site
    seen, out = set(), []
    for k, w_ in raw:
        if k not in seen:
            seen.add(k)
            out.append((k, w_))
    return out


def _by_kind(obs):
    out = {}
    for o in obs.values():
        d = out.setdefault(o.kind, {})
        d[o.status] = d.get(o.status, 0) + 1
    return out


def _local_uses(f):
    uses = {}

    def visit(o):
        if isinstance(o, dict):
            if "local" in o and "proj" in o:
                uses[o["local"]] = uses.get(o["local"], 0) + 1
                for e in o["proj"]:
                    if e.get("k") == "index":
                        uses[e["local"]] = uses.get(e["local"], 0) + 1
                return
            for k, v in o.items():
                visit(v)
        elif isinstance(o, list):
            for v in o:
                visit(v)
    for b in f["blocks"]:
        if b["cleanup"]:
            continue
        for st in b["stmts"]:
            if st["k"] == "assign":
                visit(st["rv"])
                if st["place"]["proj"]:
                    visit(st["place"])
        t = b["term"]
        if t["k"] == "call":
            visit(t["args"])
            visit(t["func"])
        elif t["k"] == "switch":
            visit(t["discr"])
        elif t["k"] == "assert":
            visit(t["cond"])
        elif t["k"] == "return":
            uses[0] = uses.get(0, 0) + 1
        elif t["k"] == "drop":
            pass
    return uses


def _arith_sites(f):
    c = {}
    for b in f["blocks"]:
        if b["cleanup"]:
            continue
        for st in b["stmts"]:
            if st["k"] == "assign" and st["rv"]["k"] == "binop":
                op = st["rv"]["op"].replace("WithOverflow", "").replace("Unchecked", "")
                a_ = st["rv"].get("a") or {}
                if op == "Sub" and a_.get("k") == "const" and str(a_.get("named", "")).endswith("SizedTypeProperties::ALIGN"):
                    continue   # the compiler's own alignment check before a raw-pointer dereference (debug assertions only)
                if op in ("Add", "Sub", "Mul", "Div", "Rem", "Shl", "Shr"):
                    c[op] = c.get(op, 0) + 1
        t = b["term"]
        if t["k"] == "call" and t["func"].get("k") == "fn":
            n = strip_generics(t["func"].get("resolved") or t["func"]["path"])
            if n.endswith("::index") or n.endswith("::index_mut") or n.endswith("::pow"):
                c[n.split("::")[-1]] = c.get(n.split("::")[-1], 0) + 1
    return c
