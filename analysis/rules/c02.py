"""C02 - a cell's centre and every interior point map back to that cell.
Decided (thin): R1 the centre is the inverse projection, on the cell's own face, of the planar centroid of
get_pentagon(decode(cell)); R2 get_pentagon (used for centre and boundary) and a5cell_contains_point (used by
the lookup) build the cell geometry with the same constructors, thresholds and quintant.
Not decided: the round trip itself (composition of C15, C17 and the probe search; numerical)."""
from ..terms import fn_terms, fmt, strip_site, strip_all, walk, const_int
from ..query import ieval, Undetermined
from ..run import where
from .cell_common import *

T = "a5::core::tiling::"
CONSTRUCTORS = (T + "get_quintant_vertices", T + "get_face_vertices", T + "get_pentagon_vertices", GETP)
S2Q = "a5::core::origin::segment_to_quintant"
CENTER = "a5::geometry::pentagon::PentagonShape::get_center"
TOLL = "a5::core::coordinate_transforms::to_lon_lat"

EXPL = ("PROV: cell_to_lonlat returns to_lon_lat(inverse(get_center(get_pentagon(decode(cell))), decode(cell).origin_id)). "
        "SIB: for every resolution regime (quintant level, face level, curve levels) get_pentagon and a5cell_contains_point "
        "select the same tiling constructor with the same quintant = segment_to_quintant(cell.segment, cell.origin()).0, and "
        "cell_to_boundary / cell_to_lonlat use get_pentagon. The centre/interior round trip itself is NOT decided.")


def dispatch(facts, path):
    """{regime: [(callee, stripped args, call site)]}: which tiling constructor builds the geometry for resolution 0, for
    resolution 1 and for the curve levels ('else': one entry if all of 2..29 agree), decided by evaluating the guards on
    the cell's resolution for every r in 0..29 - whether they are written as ==-tests, early returns or a match"""
    from ..query import regime_assumptions, feasible_blocks
    ft = fn_terms(facts, path)
    res_t = ("field", ("deref", ("param", 1)), "resolution")
    per_r = {}
    for r in range(0, 30):       # every resolution, not a sample: a guard may single out any one level
        A = regime_assumptions(ft, res_t, r, r)
        feas = feasible_blocks(ft, A)
        per_r[r] = [(c.callee, tuple(strip_all(a) for a in c.args), c) for c in ft.calls() if c.callee in CONSTRUCTORS and c.block in feas]
    out = {}
    if per_r[0]:
        out[("eq", 0)] = per_r[0]
    if per_r[1]:
        out[("eq", 1)] = per_r[1]
    els, seen = [], set()
    for r in range(2, 30):
        k = tuple((a, b) for a, b, _c in per_r[r])
        if k not in seen:
            seen.add(k)
            els += per_r[r]
    out["else"] = els
    return out


def run(ctx):
    facts, run = ctx.facts, ctx.run
    run.explanation = EXPL
    run.rule_text = "C02.R1 PROV on cell_to_lonlat; C02.R2 SIB dispatch tables of get_pentagon vs a5cell_contains_point"
    for p in (C2L, GETP, CONT, C2B):
        if p not in facts.fns:
            run.missing("C02", p)
            return
    # ---- R1
    ft = fn_terms(facts, C2L)
    invs = [c for c in ft.calls() if c.callee == INV]
    run.floor("C02.R1", "inverse-projection call sites in cell_to_lonlat", len(invs), 1)
    for c in invs:
        pt = peel(c.args[1])
        ok = pt[0] == "call" and pt[1] == CENTER and pentagon_of_decoded(pt[2][0])
        run.inst("C02.R1", "centre-is-centroid-of-own-pentagon", ok, "unprojected point = %s" % fmt(pt), where(c.span))
        fa = peel(c.args[2])
        run.inst("C02.R1", "centre-own-face", fa[0] == "field" and fa[2] == "origin_id" and decoded_cell(fa[1]), "face = %s" % fmt(fa), where(c.span))
    from ..query import returns_under, is_variant
    oks = [t for t in returns_under(ft, {}) if is_variant(t, "Ok")]
    good = [t for t in oks if t[3][0][0] == "call" and t[3][0][1] == TOLL and t[3][0][2][0][0] == "payload" and t[3][0][2][0][2][0] == "call" and t[3][0][2][0][2][1] == INV]
    world = [t for t in oks if t not in good]
    # `inverse(..).map(to_lon_lat)` is the same result spelled with a combinator
    for t in returns_under(ft, {}):
        if t[0] == "call" and isinstance(t[1], str) and t[1].endswith("Result::map") and len(t[2]) == 2 \
                and t[2][0][0] == "call" and t[2][0][1] == INV and t[2][1][0] == "fnref" and t[2][1][1] == TOLL:
            good.append(t)
    run.inst("C02.R1", "centre-returned", len(good) == 1 and len(world) <= 1, "Ok results: %s" % [fmt(t)[:90] for t in oks], where(facts.fns[C2L]["span"]))
    # ---- R2
    dp, dc = dispatch(facts, GETP), dispatch(facts, CONT)
    for regime in sorted(dp, key=str):
        a = dp[regime]
        b = dc.get(regime) or dc.get("else", [])
        key = "geometry[%s]" % (regime if isinstance(regime, str) else "resolution==%s" % regime[1])
        if len(a) != 1 or len(b) != 1:
            run.bad("C02.R2", key, "get_pentagon has %d constructor(s), a5cell_contains_point %d in this regime" % (len(a), len(b)))
            continue
        (ca, aa, sa), (cb, ab, sb) = a[0], b[0]
        via_getp = cb == GETP and peel(sb.args[0]) == ("param", 1)
        same = ca == cb and aa == ab
        run.inst("C02.R2", key, via_getp or same, "get_pentagon: %s(%s) ; containment: %s(%s)" % (
            ca.split("::")[-1], ", ".join(fmt(x) for x in sa.args)[:120], cb.split("::")[-1], ", ".join(fmt(x) for x in sb.args)), where(sb.span))
    extra = [r for r in dc if r not in dp]
    run.inst("C02.R2", "regimes", not extra and len(dp) == 3, "regimes handled: get_pentagon %s, containment %s" % (sorted(map(str, dp)), sorted(map(str, dc))))
    # quintant provenance inside get_pentagon
    fp = fn_terms(facts, GETP)
    for c in fp.calls():
        if c.callee in (T + "get_quintant_vertices", T + "get_pentagon_vertices"):
            q = c.args[0] if c.callee.endswith("get_quintant_vertices") else c.args[1]
            okq = q[0] == "field" and str(q[2]) == "0" and q[1][0] == "call" and q[1][1] == S2Q
            if okq:
                sa = q[1][2]
                okq = peel(sa[0]) == ("field", ("param", 1), "segment") or (peel(sa[0])[0] == "field" and peel(sa[0])[2] == "segment")
                okq = okq and peel(sa[1])[0] == "call" and peel(sa[1])[1].endswith("A5Cell::origin")
            run.inst("C02.R2", "quintant-source:" + c.callee.split("::")[-1], okq, "quintant = %s" % fmt(q), where(c.span))
    # census: who else builds cell geometry on the API paths
    users = {}
    for path, f in facts.fns.items():
        if f["kind"] not in ("Fn", "AssocFn", "Closure"):
            continue
        for b in f["blocks"]:
            t = b["term"]
            if t["k"] == "call" and t["func"].get("k") == "fn":
                from ..facts import strip_generics
                nm = strip_generics(t["func"].get("resolved") or t["func"]["path"])
                if nm == GETP:
                    users.setdefault(path, 0)
                    users[path] += 1
    # (the containment test either calls get_pentagon or builds the same geometry itself: that is what the geometry[..]
    # instances above decide regime by regime; the census is about the two reporting functions)
    run.inst("C02.R2", "get_pentagon-callers", {C2L, C2B} <= set(users), "get_pentagon is called from %s" % sorted(u.split("::")[-1] for u in users))
    run.floor("C02", "rule instances", len(run.instances), 10)
