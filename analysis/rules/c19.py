"""C19 - geodetic<->authalic and lon/lat<->sphere conversions are exact inverses.
Decided: coefficient tables within a proven-harmless drift of the reference series (A1); forward/inverse each
apply their own table (A2); from_lon_lat / to_lon_lat are affine mirror images: same offset with opposite sign,
reciprocal degree/radian factors, the same colatitude constant, forward paired with inverse (A3).
Not decided: the 1e-12 round trip, monotonicity, agreement with the closed form (numerical)."""
import json
import math
import os

from ..terms import fn_terms, fmt, strip_site, walk
from ..query import inline_calls, faffine, fconst
from ..consts import const_py
from ..run import VERIF, where
from .hilbert_common import globals_in

FROM = "a5::core::coordinate_transforms::from_lon_lat"
TO = "a5::core::coordinate_transforms::to_lon_lat"
FWD = "a5::projections::authalic::AuthalicProjection::forward"
INV = "a5::projections::authalic::AuthalicProjection::inverse"
APPLY = "a5::projections::authalic::AuthalicProjection::apply_coefficients"
G2A = "a5::projections::authalic::GEODETIC_TO_AUTHALIC"
A2G = "a5::projections::authalic::AUTHALIC_TO_GEODETIC"
OFF = "a5::core::coordinate_transforms::LONGITUDE_OFFSET"

EXPL = ("TAB: each authalic coefficient table differs from the reference series by sum (k+1)|delta_k| <= 1e-15 rad, "
        "three orders below the property's tolerance whatever linear summation scheme is used. PROV: forward applies "
        "the geodetic->authalic table, inverse the authalic->geodetic one. SIB: from_lon_lat computes theta = "
        "(lon + c)*k and phi = H - forward(lat*k); to_lon_lat computes lon = theta*k' - c' and lat = inverse(H' - phi)*k' "
        "with c = c' = LONGITUDE_OFFSET, k*k' = 1, H = H' = pi/2 (affine forms derived from the MIR, constants from "
        "the compiler). The numerical round-trip bounds are NOT decided.")


def rel(a, b):
    return abs(a - b) <= 1e-15 * max(abs(a), abs(b))


def run(ctx):
    facts, run = ctx.facts, ctx.run
    run.explanation = EXPL
    run.rule_text = "C19.A1 TAB drift bound, C19.A2 PROV table use, C19.A3 SIB affine mirror of from_lon_lat/to_lon_lat"
    ref = json.load(open(os.path.join(VERIF, "reference", "constants.json")))["consts"]
    # A1
    for name in (G2A, A2G):
        cur = const_py(facts, name)
        if cur is None:
            run.missing("C19.A1", name)
            continue
        r = ref[name]
        if len(cur) != len(r):
            run.bad("C19.A1", "drift:" + name, "series has %d coefficients, reference %d" % (len(cur), len(r)), where(facts.consts[name]["span"]))
            continue
        bound = sum((k + 1) * abs(a - b) for k, (a, b) in enumerate(zip(cur, r)))
        run.inst("C19.A1", "drift:" + name, bound <= 1e-15, "sum (k+1)|delta_k| = %.3e rad (limit 1e-15; property tolerance 1e-12)" % bound, where(facts.consts[name]["span"]))
    # A2
    for fn, tab in ((FWD, G2A), (INV, A2G)):
        if fn not in facts.fns:
            run.missing("C19.A2", fn)
            continue
        ft = fn_terms(facts, fn)
        rts = [ft.return_term(b) for b in ft.return_blocks()]
        ok = False
        why = "unrecognised idiom - cannot decide: %s" % [fmt(t) for t in rts]
        if len(rts) == 1:
            t = rts[0]
            calls = [x for x in walk(t) if x[0] == "call" and x[1] == APPLY]
            if len(calls) == 1 and strip_site(t) == strip_site(calls[0]):
                g = globals_in(facts, calls[0][2][2])
                ang = calls[0][2][1]
                ok = g == {tab} and ang == ("param", 2)
                why = "%s returns apply_coefficients(self, %s, %s)" % (fn.split("::")[-1], fmt(ang), sorted(x.split("::")[-1] for x in g))
        run.inst("C19.A2", "table:" + fn.split("::")[-1], ok, why, where(facts.fns[fn]["span"]))
    # A3
    for p in (FROM, TO):
        if p not in facts.fns:
            run.missing("C19.A3", p)
            return
    off = const_py(facts, OFF)
    stop = (FWD, INV)
    ff, ft_ = fn_terms(facts, FROM), fn_terms(facts, TO)
    rf = [inline_calls(facts, ff.return_term(b), stop=stop) for b in ff.return_blocks()]
    rt = [inline_calls(facts, ft_.return_term(b), stop=stop) for b in ft_.return_blocks()]
    if len(rf) != 1 or len(rt) != 1 or rf[0][0] != "agg" or rt[0][0] != "agg":
        run.bad("C19.A3", "shape", "unrecognised idiom - cannot decide")
        return
    sph = dict(zip(rf[0][4], rf[0][3]))
    ll = dict(zip(rt[0][4], rt[0][3]))

    def leaf(t):  # unwrap Radians{x} / Degrees{x}
        while t[0] == "agg" and len(t[3]) == 1:
            t = t[3][0]
        return t

    def fld(*names):
        t = ("param", 1)
        for n in names:
            t = ("field", t, n)
        return t
    lon_in, lat_in = fld("longitude", "0"), fld("latitude", "0")
    th_in, ph_in = fld("theta", "0"), fld("phi", "0")
    def callof(x):
        return x if x[0] == "call" else x[1]
    is_fwd = lambda x: (x[0] == "call" and x[1] == FWD) or (x[0] == "field" and x[1][0] == "call" and x[1][1] == FWD)
    is_inv = lambda x: (x[0] == "call" and x[1] == INV) or (x[0] == "field" and x[1][0] == "call" and x[1][1] == INV)
    w1 = where(facts.fns[FROM]["span"])
    w2 = where(facts.fns[TO]["span"])
    try:
        a_th = faffine(leaf(sph["theta"]), lambda x: strip_site(x) == lon_in)
        a_ph = faffine(leaf(sph["phi"]), is_fwd)
        a_lon = faffine(leaf(ll["longitude"]), lambda x: strip_site(x) == th_in)
        a_lat = faffine(leaf(ll["latitude"]), is_inv)
    except KeyError as e:
        run.bad("C19.A3", "shape", "field %s not found in the constructed value" % e)
        return
    if None in (a_th, a_ph, a_lon, a_lat) or a_th[2] is None or a_ph[2] is None or a_lon[2] is None or a_lat[2] is None:
        run.bad("C19.A3", "shape", "conversion is not affine in (lon, forward(lat)) / (theta, inverse(..)) - unrecognised idiom, cannot decide: theta=%s phi=%s lon=%s lat=%s" % (
            fmt(leaf(sph.get("theta", ()))), fmt(leaf(sph.get("phi", ()))), fmt(leaf(ll.get("longitude", ()))), fmt(leaf(ll.get("latitude", ())))))
        return
    k1, b1 = a_th[0], a_th[1]
    k2, b2 = a_lon[0], a_lon[1]
    run.inst("C19.A3", "deg-rad-factors", rel(k1, math.pi / 180) and rel(k2, 180 / math.pi) and abs(k1 * k2 - 1) <= 4e-16,
             "theta = %.17g*lon + %.17g ; lon = %.17g*theta + %.17g (factors must be pi/180 and 180/pi)" % (k1, b1, k2, b2), w1)
    off_in = b1 / k1 if k1 else float("nan")
    run.inst("C19.A3", "offset-pair", off is not None and abs(off_in - off) <= 1e-12 and abs(b2 + off) <= 1e-12,
             "offset added on the way in = %.15g, subtracted on the way out = %.15g, LONGITUDE_OFFSET = %s" % (off_in, -b2, off), w1)
    g1 = globals_in(facts, leaf(sph["theta"]))
    g2 = globals_in(facts, leaf(ll["longitude"]))
    run.inst("C19.A3", "offset-same-constant", OFF in g1 and OFF in g2, "both directions read the named constant LONGITUDE_OFFSET (%s / %s)" % (OFF in g1, OFF in g2), w1)
    run.inst("C19.A3", "colatitude-in", a_ph[0] == -1.0 and rel(a_ph[1], math.pi / 2), "phi = %.17g*forward(..) + %.17g (must be pi/2 - forward)" % (a_ph[0], a_ph[1]), w1)
    farg = leaf(callof(a_ph[2])[2][1])
    arg_f = faffine(farg, lambda x: strip_site(x) == lat_in)
    run.inst("C19.A3", "latitude-in", arg_f is not None and arg_f[2] is not None and rel(arg_f[0], math.pi / 180) and arg_f[1] == 0.0,
             "forward is applied to %s" % fmt(farg), w1)
    run.inst("C19.A3", "latitude-out", rel(a_lat[0], 180 / math.pi) and a_lat[1] == 0.0, "lat = %.17g*inverse(..) + %.17g" % (a_lat[0], a_lat[1]), w2)
    iarg = leaf(callof(a_lat[2])[2][1])
    arg_i = faffine(iarg, lambda x: strip_site(x) == ph_in)
    run.inst("C19.A3", "colatitude-out", arg_i is not None and arg_i[2] is not None and arg_i[0] == -1.0 and rel(arg_i[1], math.pi / 2) and arg_i[1] == a_ph[1],
             "inverse is applied to %s (must be pi/2 - phi with the same constant as the way in)" % fmt(iarg), w2)
    # A4: one series formula on every path: result = phi + (correction that vanishes with the coefficients); no special-cased input ranges
    if APPLY not in facts.fns:
        run.missing("C19.A4", APPLY)
    else:
        from ..query import returns_under
        fa = fn_terms(facts, APPLY)
        rs = [inline_calls(facts, r) for r in returns_under(fa, {})]
        def phi_plus(t):
            while t[0] == "agg" and len(t[3]) == 1:
                t = t[3][0]
            if t[0] == "bin" and t[1] == "Add":
                lhs = t[2]
                return any(x == ("param", 2) for x in walk(lhs)) and reads_coefficients(t[3])
            return False

        def reads_coefficients(t):
            # the correction is computed from the coefficient table parameter (directly, or through loop-carried values)
            seen, st = set(), [t]
            while st:
                y = st.pop()
                for x in walk(y):
                    if x == ("param", 3):
                        return True
                    if x[0] == "phi" and x[1] == fa.path and x not in seen:
                        seen.add(x)
                        st.extend(fa.phi_operands(x).values())
            return False
        run.inst("C19.A4", "single-series-formula", len(rs) == 1 and phi_plus(rs[0]),
                 "apply_coefficients has %d result formula(s); %s" % (len(rs), "phi + series(coefficients)" if len(rs) == 1 and phi_plus(rs[0]) else "an input range is special-cased or the shape is not phi + correction"),
                 where(fa.fn["span"]))
    # A5: every periodic wrap of a longitude moves by the full period
    from .wrap_common import check_wraps
    nw = check_wraps(facts, run, "C19.A5", ("a5::core::coordinate_transforms::", "a5::core::cell::", "a5::coordinate_systems::"))
    run.floor("C19.A5", "longitude wrap sites", nw, 2)
    # A6: the series is summed from sin(phi) and cos(phi) by products only: the double-angle terms keep full relative
    # precision at the equator and the poles.  Any other float intrinsic in the authalic functions (a square root or an
    # inverse trigonometric function deriving one trigonometric value from another) gives that up.
    from ..models import FLOAT_PREFIXES
    allowed = {"sin", "cos", "sin_cos", "abs", "to_radians", "to_degrees", "is_nan", "is_finite"}
    used, extra6 = set(), []
    nfn = 0
    for pth in sorted(facts.fns):
        if not pth.startswith("a5::projections::authalic::") or facts.fns[pth]["kind"] not in ("Fn", "AssocFn", "Closure"):
            continue
        nfn += 1
        for c in fn_terms(facts, pth).calls():
            if c.callee and any(c.callee.startswith(p_) for p_ in FLOAT_PREFIXES):
                short = c.callee.split("::")[-1]
                used.add(short)
                if short not in allowed:
                    extra6.append("%s in %s" % (short, pth.split("::")[-1]))
    run.inst("C19.A6", "series-from-sin-cos-products", nfn >= 1 and not extra6 and bool(used & {"sin", "cos", "sin_cos"}),
             "float intrinsics used by the authalic conversion: %s%s" % (sorted(used), "" if not extra6 else "; not sine/cosine: %s" % sorted(set(extra6))),
             where(facts.fns[APPLY]["span"]) if APPLY in facts.fns else None)
    run.floor("C19", "rule instances", len(run.instances), 12)
