"""Shared facts about the table of the twelve faces (src/core/origin.rs)."""
from ..terms import fn_terms, fmt, strip_site, walk, const_int
from ..query import loops_of, every_iteration, seq_nth, subst_terms, field_of, KSYM, linear

GEN = "a5::core::origin::generate_origins"
GETO = "a5::core::origin::get_origins"


def _peel(t):
    while True:
        if t[0] == "ref":
            t = t[2]
        elif t[0] == "deref":
            t = t[1]
        elif t[0] == "cast":
            t = t[2]
        elif t[0] == "call" and isinstance(t[1], str) and t[1].endswith("::clone") and t[2]:
            t = t[2][0]
        else:
            return t


def id_is_position(facts):
    """(ok, why): every row of the table returned by generate_origins carries its own position in the field `id`.
    Decided on the construction: the returned vector is filled by one push per item of an enumerated sequence (or an
    enumerate().map().collect()) and the pushed row's `id` is the enumeration index."""
    if GEN not in facts.fns:
        return False, "generate_origins not found"
    ft = fn_terms(facts, GEN)
    rbs = ft.return_blocks()
    if len(rbs) != 1:
        return False, "several return sites"
    rt = ft.return_term(rbs[0])
    x = rt
    while x[0] in ("ref", "deref"):
        x = x[2] if x[0] == "ref" else x[1]
    if x[0] in ("phi", "escaped"):
        local = x[3] if x[0] == "phi" else x[1]
        key = "_%d" % local
        pushes = [c for c in ft.calls() if c.callee and c.callee.endswith("Vec::push") and c.args and any(
            y[0] == "ref" and len(y) > 3 and y[3] == key for y in walk(c.args[0]))]
        if len(pushes) != 1:
            return False, "the returned table is filled by %d push sites" % len(pushes)
        p = pushes[0]
        lps = [l for l in loops_of(ft) if p.block in l.own and l.next]
        if len(lps) != 1 or not every_iteration(ft, lps[0], p.block):
            return False, "the push into the returned table is not made once per iteration of one loop"
        lp = lps[0]
        r = seq_nth(ft, lp.source) if lp.source is not None else None
        if r is None:
            return False, "the loop does not run over a recognised sequence"
        idv = field_of(ft, p.args[1], "id")
        if idv is None or idv == ("self",):
            return False, "cannot read the id of the pushed row"
        idv = subst_terms(strip_site(idv), {strip_site(lp.item): r[0]})
        co, k = linear(_peel(idv))
        co = {a: c for a, c in co.items() if c != 0}
        if co == {KSYM: 1} and k == 0:
            return True, "row k of the returned table is pushed with id = k (one push per item of %s)" % fmt(lp.source)[:60]
        return False, "pushed row has id %s, not its position" % fmt(idv)[:60]
    if x[0] == "call" and isinstance(x[1], str) and x[1].split("::")[-1] in ("collect", "from_iter") and len(x[2]) == 1:
        m = x[2][0]
        if m[0] == "call" and isinstance(m[1], str) and m[1].endswith("::map") and len(m[2]) == 2:
            clos = m[2][1]
            while clos[0] in ("ref", "deref"):
                clos = clos[2] if clos[0] == "ref" else clos[1]
            r0 = seq_nth(ft, m[2][0])
            if r0 is not None and clos[0] == "agg" and clos[1] == "closure" and clos[2] in facts.fns:
                fcl = fn_terms(facts, clos[2])
                rb2 = fcl.return_blocks()
                if len(rb2) == 1:
                    idv = field_of(fcl, fcl.return_term(rb2[0]), "id")
                    if idv is not None and idv != ("self",):
                        idv = subst_terms(strip_site(idv), {("param", 2): r0[0]})
                        co, k = linear(_peel(idv))
                        co = {a: c for a, c in co.items() if c != 0}
                        if co == {KSYM: 1} and k == 0:
                            return True, "row k of the returned table is built with id = k (map over %s, collected)" % fmt(m[2][0])[:60]
                        return False, "collected row has id %s, not its position" % fmt(idv)[:60]
    return False, "unrecognised construction of the table (%s)" % fmt(rt)[:60]


def row_of_table(t):
    """K when t reads row K of the face table (`&get_origins()[K]`, through borrows, `?` and casts of the index), else None"""
    t = _peel(t)
    if t[0] == "payload" and t[1] in ("Ok", "Some"):
        t = _peel(t[2])
    if t[0] == "call" and isinstance(t[1], str) and (t[1].endswith("::index") or t[1].endswith("::get_unchecked")) and len(t[2]) == 2:
        base = _peel(t[2][0])
        while base[0] == "call" and isinstance(base[1], str) and base[2] and base[1].split("::")[-1] in ("deref", "as_slice"):
            base = _peel(base[2][0])
        if base[0] == "call" and base[1] == GETO:
            return _peel(t[2][1])
    if t[0] == "index" and len(t) == 3:
        base = _peel(t[1])
        while base[0] == "call" and isinstance(base[1], str) and base[2] and base[1].split("::")[-1] in ("deref", "as_slice"):
            base = _peel(base[2][0])
        if base[0] == "call" and base[1] == GETO:
            return _peel(t[2])
    return None
