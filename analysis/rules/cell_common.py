"""Shared recognisers for src/core/cell.rs (C01, C02, C04, C11)."""
from ..terms import fn_terms, fmt, strip_site, walk, is_const, const_int

CELL = "a5::core::cell::"
L2C, C2L, C2B = CELL + "lonlat_to_cell", CELL + "cell_to_lonlat", CELL + "cell_to_boundary"
EST, GETP, CONT = CELL + "lonlat_to_estimate", CELL + "get_pentagon", CELL + "a5cell_contains_point"
DES = "a5::core::serialization::deserialize"
SER = "a5::core::serialization::serialize"
INV = "a5::projections::dodecahedron::DodecahedronProjection::inverse"
FWD = "a5::projections::dodecahedron::DodecahedronProjection::forward"
TLS = "a5::projections::dodecahedron::DodecahedronProjection::get_thread_local"


def peel(t):
    """strip references / derefs / clones"""
    while True:
        if t[0] == "ref":
            t = t[2]
        elif t[0] == "deref":
            t = t[1]
        elif t[0] == "call" and isinstance(t[1], str) and (t[1].endswith("::clone") or t[1].endswith("::deref") or t[1].endswith("::borrow")) and t[2]:
            t = t[2][0]
        else:
            return t


def elem(t):
    """(collection, index) if t reads one element, whichever way it is spelled: Vec's Index::index call or a slice place
    projection, through any number of borrows / Deref::deref / as_slice coercions"""
    t = peel(t)
    if t[0] == "call" and isinstance(t[1], str) and (t[1].endswith("::index") or t[1].endswith("::index_mut")) and len(t[2]) == 2:
        return coll_base(t[2][0]), t[2][1]
    if t[0] == "index" and len(t) == 3:
        return coll_base(t[1]), t[2]
    return None


def coll_base(t):
    while True:
        t = peel(t)
        if t[0] == "call" and isinstance(t[1], str) and len(t[2]) == 1 and t[1].split("::")[-1] in ("as_slice", "as_ref", "as_mut_slice", "deref_mut", "as_mut"):
            t = t[2][0]
        else:
            return t


def canon(t):
    """term with every element read rewritten to ('elem', collection, index) and borrows around it removed, site-free:
    two spellings of the same read compare equal"""
    if not isinstance(t, tuple) or not t:
        return t
    if t[0] in ("ref", "deref", "index", "call"):
        e = elem(t)
        if e is not None:
            base, idx = e
            # an element of a sub-slice v[a..b] is element a + idx of v (the sub-slice's own bounds check is a crash
            # matter, C14); an element read by a whole range is not a single element
            sub = elem(base)
            if sub is not None:
                rng = peel(sub[1])
                if rng[0] == "agg" and isinstance(rng[2], str) and rng[2].startswith("std::ops::Range::") and len(rng[3]) == 2:
                    from ..query import linear
                    co, k = linear(("bin", "Add", strip_site(rng[3][0]), strip_site(idx)))
                    co = {a: c for a, c in co.items() if c != 0}
                    if k == 0 and len(co) == 1 and list(co.values()) == [1]:
                        return ("elem", canon(strip_site(sub[0])), canon(list(co)[0]))
                    return ("elem", canon(strip_site(sub[0])), canon(("bin", "Add", strip_site(rng[3][0]), strip_site(idx))))
            return ("elem", canon(strip_site(e[0])), canon(strip_site(e[1])))
    return tuple(canon(x) for x in t)


def is_ok_of(t, callee, arg_pred=None):
    """t == payload(Ok, call callee(args))"""
    t = peel(t)
    if t[0] != "payload" or t[1] != "Ok":
        return False
    c = t[2]
    if c[0] != "call" or c[1] != callee:
        return False
    return arg_pred is None or arg_pred(c[2])


def decoded_cell(t, param=1):
    """t is the A5Cell decoded from the function's own cell-id parameter"""
    return is_ok_of(t, DES, lambda a: len(a) == 1 and peel(a[0]) == ("param", param))


def pentagon_of_decoded(t, param=1):
    return is_ok_of(t, GETP, lambda a: len(a) == 1 and decoded_cell(a[0], param))
