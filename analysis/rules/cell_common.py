"""Shared recognisers for src/core/cell.rs (C01, C02, C04, C11)."""
from ..terms import fn_terms, fmt, strip_site, walk, is_const, const_int

CELL = "a5::core::cell::"
L2C, C2L, C2B = CELL + "lonlat_to_cell", CELL + "cell_to_lonlat", CELL + "cell_to_boundary"
EST, GETP, CONT = CELL + "lonlat_to_estimate", CELL + "get_pentagon", CELL + "a5cell_contains_point"
DES = "a5::core::serialization::deserialize"
SER = "a5::core::serialization::serialize"
INV = "a5::projections::dodecahedron::DodecahedronProjection::inverse"
FWD = "a5::projections::dodecahedron::DodecahedronProjection::forward"
TLS = "a5::projections::dodecahedron::DodecahedronProjection::get_thread_local"


def peel(t):
    """strip references / derefs / clones"""
    while True:
        if t[0] == "ref":
            t = t[2]
        elif t[0] == "deref":
            t = t[1]
        elif t[0] == "call" and isinstance(t[1], str) and (t[1].endswith("::clone") or t[1].endswith("::deref") or t[1].endswith("::borrow")) and t[2]:
            t = t[2][0]
        else:
            return t


def is_ok_of(t, callee, arg_pred=None):
    """t == payload(Ok, call callee(args))"""
    t = peel(t)
    if t[0] != "payload" or t[1] != "Ok":
        return False
    c = t[2]
    if c[0] != "call" or c[1] != callee:
        return False
    return arg_pred is None or arg_pred(c[2])


def decoded_cell(t, param=1):
    """t is the A5Cell decoded from the function's own cell-id parameter"""
    return is_ok_of(t, DES, lambda a: len(a) == 1 and peel(a[0]) == ("param", param))


def pentagon_of_decoded(t, param=1):
    return is_ok_of(t, GETP, lambda a: len(a) == 1 and decoded_cell(a[0], param))
