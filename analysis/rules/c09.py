"""C09 - uncompact returns exactly the descendants at the target resolution, in input order.
Decided: U1 the output vector is only appended to, inside one forward loop over the input slice, and never
reordered; U2 iteration i expands cells[i] with Some(target) and consults the resolution recorded for the same
index; U3 the finer-than-target test is applied to every input and returns Err before the output vector exists.
Not decided: the descendant arithmetic (C07) and the fan-out sum."""
from ..terms import fn_terms, fmt, strip_site, walk, const_int
from ..query import loops_of, every_iteration, returns_under, is_variant, pushes_to, mutators_of, ref_key, linear
from ..run import where
from ..consts import const_py
from .cell_common import peel

UNC = "a5::core::compact::uncompact"
CHILDREN = "a5::core::serialization::cell_to_children"
GETRES = "a5::core::serialization::get_resolution"
NUMCH = "a5::core::cell_info::get_num_children"

EXPL = ("MPT/WMW/PROV/GUARD rules on uncompact(): the returned vector is mutated only by push/extend inside a single "
        "loop that iterates the input slice front to back; each iteration expands the element it received with "
        "Some(target_resolution), and the per-cell resolution it consults was recorded for the same position; the "
        "resolution comparison that yields Err runs for every element before the output vector is created. The "
        "descendant sets themselves are NOT decided here.")


def input_iter(src):
    """is the iterator source a front-to-back traversal of parameter 1 (optionally enumerate / copied / zipped with a
    second sequence)?  Returns (ok, views); a zip leaves ('zip', position of the input, the other iterator) in views."""
    t = peel(src)
    views = []
    while t[0] == "call" and t[2]:
        n = t[1]
        if n.endswith("::into_iter") or n.endswith("::iter") or n.endswith("::enumerate") or n.endswith("::copied") or n.endswith("::cloned"):
            views.append(n.split("::")[-1])
            t = peel(t[2][0])
        elif n.endswith("::zip") and len(t[2]) == 2:
            a, b = peel(t[2][0]), peel(t[2][1])
            oka, va = input_iter(a)
            okb, vb = input_iter(b)
            if oka and not any(isinstance(v, tuple) or v in ("rev", "enumerate") for v in va):
                views.append(("zip", 0, b))
                return True, views
            if okb and not any(isinstance(v, tuple) or v in ("rev", "enumerate") for v in vb):
                views.append(("zip", 1, a))
                return True, views
            return False, views
        else:
            return False, views
    return t == ("param", 1), views


def _views_of(t):
    out = []
    t = peel(t)
    while t[0] == "call" and t[2]:
        out.append(t[1].split("::")[-1])
        t = peel(t[2][0])
    return out


def iter_vec_key(t):
    """place key of the local vector a plain forward iterator term walks, or None"""
    for _ in range(12):
        if t[0] == "call" and t[2] and t[1].split("::")[-1] in ("into_iter", "iter", "copied", "cloned", "deref", "as_slice"):
            t = t[2][0]
        elif t[0] == "ref" and t[2][0] != "deref":
            return t[3]
        elif t[0] == "ref":
            t = t[2][1]
        elif t[0] == "deref":
            t = t[1]
        elif t[0] == "phi":
            return "_%d" % t[3]
        elif t[0] == "escaped":
            return "_%d" % t[1]
        else:
            return None
    return None


def run(ctx):
    facts, run = ctx.facts, ctx.run
    run.explanation = EXPL
    run.rule_text = "C09.U1 MPT/WMW append-only forward assembly, U2 PROV per-element arguments, U3 GUARD error before output"
    if UNC not in facts.fns:
        run.missing("C09", UNC)
        return
    ft = fn_terms(facts, UNC)
    w = where(facts.fns[UNC]["span"])
    lps = loops_of(ft)
    oks = [t for t in returns_under(ft, {}) if is_variant(t, "Ok")]
    if len(oks) != 1 or oks[0][3][0][0] not in ("phi", "escaped"):
        run.bad("C09.U1", "output-vector", "cannot identify the returned vector: %s" % [fmt(t) for t in oks], w)
        return
    out = oks[0][3][0]
    key = "_%d" % (out[3] if out[0] == "phi" else out[1])
    # U1b: every way out is either the assembled vector, an Err value, or the propagated error of an expansion
    odd = []
    for t in returns_under(ft, {}):
        if is_variant(t, "Ok") or is_variant(t, "Err"):
            continue
        if t[0] == "call" and t[1].endswith("::from_residual"):
            continue
        odd.append(t)
    run.inst("C09.U1", "single-result-source", not odd, "results other than Ok(assembled vector) / Err: %s" % ([fmt(t)[:80] for t in odd] or "none"), w)
    muts = mutators_of(ft, key)
    appends = pushes_to(ft, key)
    non_append = [c for c in muts if c not in appends]
    run.inst("C09.U1", "append-only", bool(appends) and not non_append, "output vector is touched by %s" % sorted({c.callee.split("::")[-1] for c in muts}), w)
    # ---- everything below reads loops through "the k-th item of the sequence the loop walks" (query.seq_nth), so that
    # `for &c in cells`, `for (i, &c) in cells.iter().enumerate()`, `cells.iter().zip(aux.iter())`, `while i < cells.len()`
    # and a walk over a local vector that holds one record per input element are all the same thing: iteration k
    # works on cells[k], in increasing k.
    from ..query import seq_nth, subst_terms, KSYM
    from .cell_common import canon
    P1 = ("param", 1)
    ELEM_K = ("elem", P1, KSYM)
    PARENT_ = "a5::core::serialization::cell_to_parent"
    GETRES_ = "a5::core::serialization::get_resolution"

    def loop_map(l):
        if l.source is None or l.item is None:
            return None
        r = seq_nth(ft, l.source)
        if r is None:
            return None
        return {strip_site(l.item): r[0]}, r[1]

    def local_key_of(base):
        # canonical collection term -> place key of a local vector
        b = base
        while b[0] in ("ref", "deref"):
            b = b[2] if b[0] == "ref" else b[1]
        if b[0] == "phi":
            return "_%d" % b[3]
        if b[0] == "escaped":
            return "_%d" % b[1]
        return None

    aligned = {}      # local vector key -> value of its k-th element, as a term over KSYM and the input

    def norm(l_map, t, depth=0):
        """term of a loop body with the loop item replaced by the k-th item, element reads canonical, and reads of
        aligned local vectors at position k replaced by what was recorded there"""
        x = canon(subst_terms(strip_site(t), l_map))

        def res(y, d=0):
            if not isinstance(y, tuple) or not y or d > 40:
                return y
            # the canonical form of an input cell (decoded and re-encoded at its own resolution) is that cell
            z = y
            if z[0] == "payload" and z[1] == "Ok":
                z = z[2]
            if z[0] == "call" and z[1] == PARENT_ and len(z[2]) == 2:
                tg = z[2][1]
                if tg[0] == "agg" and isinstance(tg[2], str) and tg[2].endswith("::Some") and len(tg[3]) == 1:
                    g = tg[3][0]
                    if g[0] == "call" and g[1] == GETRES_ and len(g[2]) == 1 and res(g[2][0], d + 1) == res(z[2][0], d + 1):
                        return res(z[2][0], d + 1)
            if y[0] == "elem" and y[1][0] in ("payload", "call") and d < 30:
                # an element of a vector collected from a sequence is that sequence's item at the same position
                r_ = seq_nth(ft, y[1])
                if r_ is not None and r_[0] is not None and not (r_[0][0] == "elem" and strip_site(r_[0][1]) == strip_site(y[1])):
                    return res(subst_terms(r_[0], {KSYM: y[2]}), d + 1)
            if y[0] == "elem":
                k2 = local_key_of(y[1])
                co, kk = linear(y[2])
                co = {a: c for a, c in co.items() if c != 0}
                if k2 in aligned and kk == 0 and co == {KSYM: 1}:
                    return aligned[k2]
                if kk == 0 and co == {KSYM: 1}:
                    return ("elem", res(y[1], d + 1), KSYM)      # 0 + k, k + 0, ... are position k
                return ("elem", res(y[1], d + 1), res(y[2], d + 1))
            if y[0] == "field" and isinstance(y[1], tuple):
                b = res(y[1], d + 1)
                while b[0] in ("ref", "deref"):
                    b = b[2] if b[0] == "ref" else b[1]
                if b[0] == "agg" and str(y[2]).isdigit() and int(y[2]) < len(b[3]):
                    return b[3][int(y[2])]
                return ("field", b, y[2])
            if y[0] in ("deref",):
                b = res(y[1], d + 1)
                return b if b[0] in ("elem", "agg", "call", "sym", "bin") else ("deref", b)
            if y[0] == "ref":
                return res(y[2], d + 1)
            return tuple(res(z, d + 1) for z in y)
        return res(x)

    def full_forward(l, lm):
        """does loop l visit k = 0, 1, .. up to the number of input cells (directly, by index, or through an aligned vector)?"""
        mp, count = lm
        itm = list(mp.values())[0]
        probe = norm(mp, l.item)
        # the item (or one of its components) must be cells[k] itself or a record of it
        has_elem = any(y == ELEM_K for y in walk(probe)) or (isinstance(probe, tuple) and probe == ELEM_K)
        if count is not None:
            cco, ck = linear(norm(mp, count))
            cco = {a: c for a, c in cco.items() if c != 0}
            lenok = ck == 0 and len(cco) == 1 and list(cco.values()) == [1]
            if lenok:
                c_ = list(cco)[0]
                lenok = c_[0] == "call" and isinstance(c_[1], str) and c_[1].endswith("::len") and any(z == P1 for z in walk(c_))
            return lenok, has_elem
        return True, has_elem

    # aligned vectors: pushed exactly once in every iteration of a full forward traversal of the input
    trav = {}
    for l in lps:
        lm = loop_map(l)
        if lm is not None:
            trav[l.head] = (l, lm)
    changed = True
    rounds = 0
    while changed and rounds < 4:
        changed = False
        rounds += 1
        for head, (l, lm) in trav.items():
            okfull, _he = full_forward(l, lm)
            if not okfull:
                continue
            for c in ft.calls():
                if c.block in l.own and c.callee and c.callee.endswith("Vec::push"):
                    k2 = ref_key(c.args[0])
                    if k2 is None or k2 == key or k2 in aligned:
                        continue
                    rp = pushes_to(ft, k2)
                    if len(rp) != 1 or [m for m in mutators_of(ft, k2) if m not in rp] or not every_iteration(ft, l, c.block):
                        continue
                    aligned[k2] = norm(lm[0], c.args[1])
                    changed = True
    for n_al, (k2, v) in enumerate(sorted(aligned.items())):
        nm_al = ft.fn["locals"][int(k2[1:])].get("name") or ("#%d" % n_al)
        run.inst("C09.U2", "aligned-sequence:" + nm_al, True, "local sequence %s holds, at position k, %s (one push per input element, in input order)" % (k2, fmt(v)[:90]), w, nontrivial=False)

    loops_with = [l for l in lps if any(c.block in l.own for c in appends)]
    one_loop = len(loops_with) == 1 and all(any(c.block in l.own for l in loops_with) for c in appends)
    fwd = False
    lmL = None
    if one_loop:
        lmL = loop_map(loops_with[0])
        if lmL is not None:
            okfull, has_elem = full_forward(loops_with[0], lmL)
            if not has_elem:
                # a walk over an aligned vector: its k-th record must carry cells[k]
                probe = norm(lmL[0], loops_with[0].item)
                has_elem = any(y == ELEM_K for y in walk(probe)) or probe == ELEM_K
                src_key = iter_vec_key(loops_with[0].source)
                okfull = okfull or src_key in aligned
            fwd = okfull       # what each iteration appends is checked per append below
    run.inst("C09.U1", "single-forward-loop", one_loop and fwd, "all appends happen in one loop that visits the input cells in order: k-th item = %s" % (
        fmt(list(lmL[0].values())[0])[:80] if lmL else "?"), w)
    if not (one_loop and fwd):
        return
    L = loops_with[0]
    mpL = lmL[0]
    # every iteration appends exactly one of the alternatives
    blocks = {c.block for c in appends}
    covered = True
    seen = set()
    st = [L.some_succ]
    while st:
        b = st.pop()
        if b in seen or b in blocks:
            continue
        seen.add(b)
        if b == L.head:
            covered = False
            break
        for s_ in ft.cfg.succ[b]:
            if s_ in L.body:
                st.append(s_)
    run.inst("C09.U1", "every-element-contributes", covered, "each iteration reaches a push/extend before the next element", w)
    # U2
    for c in appends:
        v = norm(mpL, c.args[1])
        if c.callee.endswith("Vec::push"):
            run.inst("C09.U2", "copy-of-own-element", v == ELEM_K, "pushed value %s (must be the element of this iteration, cells[k])" % fmt(v)[:80], where(c.span))
        else:
            kids = [x for x in walk(v) if x[0] == "call" and x[1] == CHILDREN]
            ok = len(kids) == 1 and v[0] == "payload" and v[1] == "Ok"
            if ok:
                a0, a1 = kids[0][2]
                ok = a0 == ELEM_K and is_variant(a1, "Some") and a1[3][0] == ("param", 2)
            run.inst("C09.U2", "expand-own-element-to-target", ok, "extended with %s (must be cell_to_children(cells[k], Some(target_resolution))?)" % fmt(v)[:100], where(c.span))
    # the fan-out consulted in the loop: get_num_children(get_resolution(cells[k]), target), computed here or recorded earlier
    WANT_RES = ("call", GETRES, (ELEM_K,))
    nfan = 0
    for c in ft.calls():
        if c.callee == NUMCH and c.block in L.own:
            nfan += 1
            r = norm(mpL, c.args[0])
            ok = r == WANT_RES and c.args[1] == ("param", 2)
            run.inst("C09.U2", "fanout-of-own-element", ok, "fan-out computed from %s and %s (must be get_resolution(cells[k]) and the target)" % (fmt(r)[:60], fmt(c.args[1])), where(c.span))
    if nfan == 0:
        # the decision uses a value recorded per element: some switch in the loop must depend on get_num_children(get_resolution(cells[k]), target)
        WANT_N = ("call", NUMCH, (WANT_RES, ("param", 2)))
        hits = 0
        for b in L.own:
            if ft.blocks[b]["term"]["k"] == "switch" and b != L.item_switch:
                d = norm(mpL, ft.switch_term(b))
                if any(y == WANT_N for y in walk(d)):
                    hits += 1
        run.inst("C09.U2", "fanout-of-own-element", hits >= 1, "the copy-or-expand decision reads the fan-out recorded for the same element (%d test(s) on get_num_children(get_resolution(cells[k]), target))" % hits, w)
    # U3
    errs = [t for t in returns_under(ft, {}) if is_variant(t, "Err")]
    guard_loops = []
    for head, (l, lm) in trav.items():
        okfull, has_elem = full_forward(l, lm)
        if not okfull:
            continue
        for b in l.own:
            tm = ft.blocks[b]["term"]
            if tm["k"] != "switch" or b == l.item_switch:
                continue
            d0 = ft.switch_term(b)
            d = norm(lm[0], d0)
            if d[0] == "bin" and d[1] in ("Lt", "Gt", "Le", "Ge") and any(y == WANT_RES for y in walk(d)) and any(y == ("param", 2) for y in walk(d)):
                guard_loops.append((l, b, d0, d))
    if len(guard_loops) != 1:
        run.bad("C09.U3", "finer-than-target-test", "expected one comparison of get_resolution(cells[k]) with the target inside a loop over the input, found %d" % len(guard_loops), w)
    else:
        l, b, d0, d = guard_loops[0]
        ev = every_iteration(ft, l, b)
        co, k = linear(d[2])
        co2, k2_ = linear(d[3])
        diff = {}
        for a, c in co.items():
            diff[a] = diff.get(a, 0) + c
        for a, c in co2.items():
            diff[a] = diff.get(a, 0) - c
        kk = k - k2_
        tcoef, rcoef = diff.get(("param", 2), 0), diff.get(WANT_RES, 0)
        from ..query import _switch_allows
        op = d[1]
        # normalise to  (res - target) OP' 0
        if tcoef == 1 and rcoef == -1 and kk == 0:
            op = {"Lt": "Gt", "Gt": "Lt", "Le": "Ge", "Ge": "Le"}[op]
        elif not (tcoef == -1 and rcoef == 1 and kk == 0):
            op = None
        # the edge taken when res > target must leave with Err and never come back to the loop; the other edge must stay
        err_when = None
        if op == "Gt":
            err_when = 1
        elif op == "Le":
            err_when = 0
        okdir = False
        if err_when is not None:
            e_err = [s_ for s_ in ft.cfg.succ[b] if _switch_allows(ft, b, s_, {strip_site(d0): err_when})]
            e_ok = [s_ for s_ in ft.cfg.succ[b] if _switch_allows(ft, b, s_, {strip_site(d0): 1 - err_when})]
            okdir = len(e_err) == 1 and len(e_ok) == 1 and e_err != e_ok and not ft.cfg.can_reach(e_err[0], l.head) and ft.cfg.can_reach(e_ok[0], l.head)
        okU3 = ev and okdir and len(errs) >= 1
        run.inst("C09.U3", "finer-than-target-test", okU3,
                 "every element: %s ; condition %s ; resolution > target leaves with Err and nothing else does: %s" % (ev, fmt(d)[:80], okdir), where(facts.fns[UNC]["span"]))
        # output vector created after this loop
        creators = [c for c in ft.calls() if c.dest["local"] == int(key[1:]) and not c.dest["proj"]]
        after = creators and all(c.block not in l.body and ft.cfg.can_reach(l.head, c.block) and not ft.cfg.can_reach(c.block, l.head) for c in creators)
        run.inst("C09.U3", "error-before-output", bool(after), "the output vector is created (%s) only after the validation loop has finished" % [c.callee.split("::")[-1] for c in creators], w)
    # U5: the target resolution is refused before any work exactly when it is outside -1..=29; every valid target goes on to
    # the element-wise test (finite evaluation of the guards that depend on the target alone)
    from ..query import assumptions_by_eval, feasible_blocks, Undetermined as _Und
    maxres = const_py(facts, "a5::core::serialization::MAX_RESOLUTION")
    first_loop_heads = [l.head for l in lps]
    wrong5 = []
    try:
        for tv in range(-4, 34):
            env = {("param", 2): tv}
            extra = assumptions_by_eval(ft, env)
            feas = feasible_blocks(ft, extra)
            reaches_loops = any(h in feas for h in first_loop_heads)
            valid = -1 <= tv <= (maxres - 1 if isinstance(maxres, int) else 29)
            if reaches_loops != valid:
                wrong5.append((tv, "accepted" if reaches_loops else "refused"))
        run.inst("C09.U5", "target-range", not wrong5, "targets -4..33 evaluated on the target-only guards: refused before the element loops exactly outside -1..=%s%s" % (
            (maxres - 1) if isinstance(maxres, int) else 29, "" if not wrong5 else "; wrong: %s" % wrong5[:4]), w)
    except _Und as e:
        run.bad("C09.U5", "target-range", "the target-only guards cannot be evaluated (%s) - cannot decide" % e, w)
    # U4: the fan-out function consulted by uncompact, tabulated over its whole finite domain of resolutions,
    # agrees with the hierarchy (12 under the world cell, 5 per base cell, 4 per level) wherever the honest
    # result is within the property's bound of 4^8 cells
    from ..query import call_eval, Undetermined
    wrong = []
    n = 0
    try:
        for pr in range(-1, 31):
            for cr in range(-1, 31):
                if cr < pr:
                    want = 0
                elif cr == pr:
                    want = 1
                else:
                    want = (12 if pr < 0 else 1) * (5 if (pr < 1 and cr >= 1) else 1) * 4 ** max(0, cr - max(pr, 1))
                if want > 4 ** 8:
                    continue
                n += 1
                got = call_eval(facts, NUMCH, [pr, cr])
                if got != want:
                    wrong.append((pr, cr, got, want))
        run.inst("C09.U4", "fanout-table", not wrong, "get_num_children tabulated on %d (parent, child) resolution pairs with fan-out <= 4^8: %s" % (
            n, "all equal the hierarchy fan-out" if not wrong else "differs at (parent, child, got, want) = %s" % (wrong[:3],)), where(facts.fns[NUMCH]["span"]) if NUMCH in facts.fns else None)
        run.extra["fanout_pairs"] = n
    except Undetermined as e:
        run.bad("C09.U4", "fanout-table", "get_num_children is not a closed integer formula of its two arguments (%s) - cannot decide" % e)
    run.floor("C09", "rule instances", len(run.instances), 9)
