"""C09 - uncompact returns exactly the descendants at the target resolution, in input order.
Decided: U1 the output vector is only appended to, inside one forward loop over the input slice, and never
reordered; U2 iteration i expands cells[i] with Some(target) and consults the resolution recorded for the same
index; U3 the finer-than-target test is applied to every input and returns Err before the output vector exists.
Not decided: the descendant arithmetic (C07) and the fan-out sum."""
from ..terms import fn_terms, fmt, strip_site, walk, const_int
from ..query import loops_of, every_iteration, returns_under, is_variant, pushes_to, mutators_of, ref_key, linear
from ..run import where
from .cell_common import peel

UNC = "a5::core::compact::uncompact"
CHILDREN = "a5::core::serialization::cell_to_children"
GETRES = "a5::core::serialization::get_resolution"
NUMCH = "a5::core::cell_info::get_num_children"

EXPL = ("MPT/WMW/PROV/GUARD rules on uncompact(): the returned vector is mutated only by push/extend inside a single "
        "loop that iterates the input slice front to back; each iteration expands the element it received with "
        "Some(target_resolution), and the per-cell resolution it consults was recorded for the same position; the "
        "resolution comparison that yields Err runs for every element before the output vector is created. The "
        "descendant sets themselves are NOT decided here.")


def input_iter(src):
    """is the iterator source a front-to-back traversal of parameter 1 (optionally enumerate / copied / zipped with a
    second sequence)?  Returns (ok, views); a zip leaves ('zip', position of the input, the other iterator) in views."""
    t = peel(src)
    views = []
    while t[0] == "call" and t[2]:
        n = t[1]
        if n.endswith("::into_iter") or n.endswith("::iter") or n.endswith("::enumerate") or n.endswith("::copied") or n.endswith("::cloned"):
            views.append(n.split("::")[-1])
            t = peel(t[2][0])
        elif n.endswith("::zip") and len(t[2]) == 2:
            a, b = peel(t[2][0]), peel(t[2][1])
            oka, va = input_iter(a)
            okb, vb = input_iter(b)
            if oka and not any(isinstance(v, tuple) or v in ("rev", "enumerate") for v in va):
                views.append(("zip", 0, b))
                return True, views
            if okb and not any(isinstance(v, tuple) or v in ("rev", "enumerate") for v in vb):
                views.append(("zip", 1, a))
                return True, views
            return False, views
        else:
            return False, views
    return t == ("param", 1), views


def _views_of(t):
    out = []
    t = peel(t)
    while t[0] == "call" and t[2]:
        out.append(t[1].split("::")[-1])
        t = peel(t[2][0])
    return out


def iter_vec_key(t):
    """place key of the local vector a plain forward iterator term walks, or None"""
    for _ in range(12):
        if t[0] == "call" and t[2] and t[1].split("::")[-1] in ("into_iter", "iter", "copied", "cloned", "deref", "as_slice"):
            t = t[2][0]
        elif t[0] == "ref" and t[2][0] != "deref":
            return t[3]
        elif t[0] == "ref":
            t = t[2][1]
        elif t[0] == "deref":
            t = t[1]
        elif t[0] == "phi":
            return "_%d" % t[3]
        elif t[0] == "escaped":
            return "_%d" % t[1]
        else:
            return None
    return None


def run(ctx):
    facts, run = ctx.facts, ctx.run
    run.explanation = EXPL
    run.rule_text = "C09.U1 MPT/WMW append-only forward assembly, U2 PROV per-element arguments, U3 GUARD error before output"
    if UNC not in facts.fns:
        run.missing("C09", UNC)
        return
    ft = fn_terms(facts, UNC)
    w = where(facts.fns[UNC]["span"])
    lps = loops_of(ft)
    oks = [t for t in returns_under(ft, {}) if is_variant(t, "Ok")]
    if len(oks) != 1 or oks[0][3][0][0] not in ("phi", "escaped"):
        run.bad("C09.U1", "output-vector", "cannot identify the returned vector: %s" % [fmt(t) for t in oks], w)
        return
    out = oks[0][3][0]
    key = "_%d" % (out[3] if out[0] == "phi" else out[1])
    # U1b: every way out is either the assembled vector, an Err value, or the propagated error of an expansion
    odd = []
    for t in returns_under(ft, {}):
        if is_variant(t, "Ok") or is_variant(t, "Err"):
            continue
        if t[0] == "call" and t[1].endswith("::from_residual"):
            continue
        odd.append(t)
    run.inst("C09.U1", "single-result-source", not odd, "results other than Ok(assembled vector) / Err: %s" % ([fmt(t)[:80] for t in odd] or "none"), w)
    muts = mutators_of(ft, key)
    appends = pushes_to(ft, key)
    non_append = [c for c in muts if c not in appends]
    run.inst("C09.U1", "append-only", bool(appends) and not non_append, "output vector is touched by %s" % sorted({c.callee.split("::")[-1] for c in muts}), w)
    loops_with = [l for l in lps if any(c.block in l.own for c in appends)]
    one_loop = len(loops_with) == 1 and all(any(c.block in l.own for l in loops_with) for c in appends)
    fwd = False
    views = []
    if one_loop and loops_with[0].source is not None:
        fwd, views = input_iter(loops_with[0].source)
        fwd = fwd and not any(v in ("rev",) for v in views)
    derived_pos = None
    if one_loop and not fwd and loops_with[0].source is not None:
        # the loop may walk a local sequence that holds one record per input element, in input order, each record
        # carrying the input element itself: an order-preserving image of the input
        k2 = iter_vec_key(loops_with[0].source)
        if k2 is not None and k2 != key:
            rp = pushes_to(ft, k2)
            rl = [l for l in lps if any(c.block in l.own for c in rp)]
            if (len(rp) == 1 and len(rl) == 1 and rp[0].callee.endswith("Vec::push") and rl[0].source is not None and input_iter(rl[0].source)[0]
                    and not any(isinstance(v, tuple) or v in ("rev", "enumerate") for v in input_iter(rl[0].source)[1])
                    and every_iteration(ft, rl[0], rp[0].block) and not [c for c in mutators_of(ft, k2) if c not in rp]):
                v = peel(rp[0].args[1])
                it2 = strip_site(peel(rl[0].item))
                if strip_site(v) == it2:
                    derived_pos = ()
                elif v[0] == "agg" and v[1] == "tuple":
                    hits = [i for i, o in enumerate(v[3]) if strip_site(peel(o)) == it2]
                    if len(hits) == 1:
                        derived_pos = (hits[0],)
                if derived_pos is not None:
                    fwd = not any(x in ("rev",) for x in _views_of(loops_with[0].source))
                    run.inst("C09.U2", "image-sequence-aligned", True,
                             "the sequence walked by the assembly loop holds one record per input element, pushed in input order, carrying the element itself", w)
    run.inst("C09.U1", "single-forward-loop", one_loop and fwd, "all appends happen in one loop over %s" % (fmt(loops_with[0].source) if loops_with else "?"), w)
    if not (one_loop and fwd):
        return
    L = loops_with[0]
    item = L.item
    enum = "enumerate" in views
    zips = [v for v in views if isinstance(v, tuple)]
    elem = ("field", item, 1) if enum else item
    idx = ("field", item, 0) if enum else None
    if derived_pos is not None:
        enum, zips, idx = False, [], None
        elem = ("field", item, derived_pos[0]) if derived_pos else item
    if zips:
        # for (cell, extra) in cells.iter().zip(aux.iter()): the input element is one component of the item, and the
        # companion sequence must hold exactly one record per input element, in input order
        _z, pos, other = zips[0]
        elem = ("field", item, pos)
        aux_key = iter_vec_key(other)
        okz = False
        if aux_key is not None:
            rp = pushes_to(ft, aux_key)
            rl = [l for l in lps if any(c.block in l.own for c in rp)]
            okz = (len(rp) == 1 and len(rl) == 1 and rl[0].source is not None and input_iter(rl[0].source)[0]
                   and not any(isinstance(v, tuple) for v in input_iter(rl[0].source)[1]) and every_iteration(ft, rl[0], rp[0].block)
                   and not [c for c in mutators_of(ft, aux_key) if c not in rp])
            if okz:
                v = peel(rp[0].args[1])
                it2 = rl[0].item
                okz = (v[0] == "call" and v[1] == NUMCH and v[2][1] == ("param", 2) and peel(v[2][0])[0] == "call" and peel(v[2][0])[1] == GETRES
                       and strip_site(peel(peel(v[2][0])[2][0])) == strip_site(peel(it2)))
        run.inst("C09.U2", "companion-sequence-aligned", okz,
                 "the sequence zipped with the input holds get_num_children(get_resolution(cells[k]), target) pushed once per input element, in input order", w)
    # every iteration appends exactly one of the alternatives
    blocks = {c.block for c in appends}
    covered = True
    # every path from the Some-branch back to the header passes one of the append blocks (or leaves the function)
    seen = set()
    st = [L.some_succ]
    while st:
        b = st.pop()
        if b in seen or b in blocks:
            continue
        seen.add(b)
        if b == L.head:
            covered = False
            break
        for s in ft.cfg.succ[b]:
            if s in L.body:
                st.append(s)
    run.inst("C09.U1", "every-element-contributes", covered, "each iteration reaches a push/extend before the next element", w)
    # U2
    for c in appends:
        v = peel(c.args[1])
        if c.callee.endswith("Vec::push"):
            ok = strip_site(peel(v)) == strip_site(peel(elem)) or strip_site(v) == strip_site(("deref", elem))
            run.inst("C09.U2", "copy-of-own-element", ok, "pushed value %s (must be the element of this iteration)" % fmt(v), where(c.span))
        else:
            kids = [x for x in walk(v) if x[0] == "call" and x[1] == CHILDREN]
            ok = len(kids) == 1 and v[0] == "payload" and v[1] == "Ok"
            if ok:
                a0, a1 = kids[0][2]
                ok = strip_site(peel(a0)) == strip_site(peel(elem)) and is_variant(a1, "Some") and a1[3][0] == ("param", 2)
            run.inst("C09.U2", "expand-own-element-to-target", ok, "extended with %s (must be cell_to_children(element, Some(target_resolution))?)" % fmt(v), where(c.span))
    # the resolution consulted in the loop
    nums = [c for c in ft.calls() if c.callee == NUMCH and c.block in L.own]
    resvec = None
    for c in nums:
        r = peel(c.args[0])
        ok = False
        why = "fan-out computed from %s" % fmt(r)
        if r[0] == "call" and r[1] == GETRES:
            ok = strip_site(peel(r[2][0])) == strip_site(peel(elem))
        elif r[0] == "call" and r[1].endswith("::index") and idx is not None:
            ok = strip_site(r[2][1]) == strip_site(idx)
            resvec = ref_key(r[2][0])
            why += " (resolutions[i] with i the enumeration index of the same iteration)"
        ok = ok and c.args[1] == ("param", 2)
        run.inst("C09.U2", "fanout-of-own-element", ok, why, where(c.span))
    if resvec is not None:
        rp = pushes_to(ft, resvec)
        rl = [l for l in lps if any(c.block in l.own for c in rp)]
        okr = len(rp) == 1 and len(rl) == 1 and rl[0].source is not None and input_iter(rl[0].source)[0] and every_iteration(ft, rl[0], rp[0].block)
        if okr:
            v = peel(rp[0].args[1])
            okr = v[0] == "call" and v[1] == GETRES and strip_site(peel(v[2][0])) == strip_site(peel(rl[0].item))
        others = [c for c in mutators_of(ft, resvec) if c not in rp]
        run.inst("C09.U2", "resolutions-recorded-in-order", bool(okr) and not others, "resolutions[k] = get_resolution(cells[k]) pushed once per input element, in input order", w)
    # U3
    errs = [t for t in returns_under(ft, {}) if is_variant(t, "Err")]
    guard_loops = []
    for l in lps:
        if l.source is None or not input_iter(l.source)[0]:
            continue
        for b in l.own:
            tm = ft.blocks[b]["term"]
            if tm["k"] != "switch":
                continue
            d = ft.switch_term(b)
            if d[0] == "bin" and d[1] in ("Lt", "Gt", "Le", "Ge") and any(x[0] == "call" and x[1] == GETRES for x in walk(d)) and any(x == ("param", 2) for x in walk(d)):
                guard_loops.append((l, b, d))
    if len(guard_loops) != 1:
        run.bad("C09.U3", "finer-than-target-test", "expected one comparison of get_resolution(cell) with the target inside a loop over the input, found %d" % len(guard_loops), w)
    else:
        l, b, d = guard_loops[0]
        co, k = linear(d[2])
        co2, k2 = linear(d[3])
        gr = [x for x in walk(d) if x[0] == "call" and x[1] == GETRES][0]
        own = strip_site(peel(gr[2][0])) == strip_site(peel(l.item))
        ev = every_iteration(ft, l, b)
        # orientation: Err exactly when resolution > target
        diff = {}
        for a, c in co.items():
            diff[a] = diff.get(a, 0) + c
        for a, c in co2.items():
            diff[a] = diff.get(a, 0) - c
        kk = k - k2
        gs = strip_site(gr)
        tcoef, rcoef = diff.get(("param", 2), 0), diff.get(gs, 0)
        # which edge leads to Err?
        err_succ = None
        for s in ft.cfg.succ[b]:
            reach = ft.cfg.reachable_from(s, avoid=[l.head])
            if any(rb in reach for rb in ft.return_blocks()) and not any(x in reach for x in l.body if x != s and x in ft.cfg.succ[b] and x != s):
                pass
        from ..query import _switch_allows
        e1 = [s for s in ft.cfg.succ[b] if _switch_allows(ft, b, s, {strip_site(d): 1})]
        errs_on_true = False
        if len(e1) == 1:
            reach = ft.cfg.reachable_from(e1[0], avoid=[l.head])
            errs_on_true = l.head not in ft.cfg.reachable_from(e1[0]) or not any(x in reach for x in l.body if x == l.head)
            errs_on_true = not ft.cfg.can_reach(e1[0], l.head)
        # d true means: (lhs OP rhs); with lhs-rhs = tcoef*target + rcoef*res + kk
        op = d[1]
        orient = None
        if tcoef == 1 and rcoef == -1 and kk == 0:      # (target - res) OP 0
            orient = op in ("Lt",)
        elif tcoef == -1 and rcoef == 1 and kk == 0:    # (res - target) OP 0
            orient = op in ("Gt",)
        okU3 = own and ev and errs_on_true and bool(orient) and len(errs) >= 1
        run.inst("C09.U3", "finer-than-target-test", okU3,
                 "every element: %s ; tests its own cell: %s ; condition %s true => leaves with Err: %s" % (ev, own, fmt(d), errs_on_true), where(facts.fns[UNC]["span"]))
        # output vector created after this loop
        creators = [c for c in ft.calls() if c.dest["local"] == int(key[1:]) and not c.dest["proj"]]
        after = creators and all(c.block not in l.body and ft.cfg.can_reach(l.head, c.block) and not ft.cfg.can_reach(c.block, l.head) for c in creators)
        run.inst("C09.U3", "error-before-output", bool(after), "the output vector is created (%s) only after the validation loop has finished" % [c.callee.split("::")[-1] for c in creators], w)
    # U4: the fan-out function consulted by uncompact, tabulated over its whole finite domain of resolutions,
    # agrees with the hierarchy (12 under the world cell, 5 per base cell, 4 per level) wherever the honest
    # result is within the property's bound of 4^8 cells
    from ..query import call_eval, Undetermined
    wrong = []
    n = 0
    try:
        for pr in range(-1, 31):
            for cr in range(-1, 31):
                if cr < pr:
                    want = 0
                elif cr == pr:
                    want = 1
                else:
                    want = (12 if pr < 0 else 1) * (5 if (pr < 1 and cr >= 1) else 1) * 4 ** max(0, cr - max(pr, 1))
                if want > 4 ** 8:
                    continue
                n += 1
                got = call_eval(facts, NUMCH, [pr, cr])
                if got != want:
                    wrong.append((pr, cr, got, want))
        run.inst("C09.U4", "fanout-table", not wrong, "get_num_children tabulated on %d (parent, child) resolution pairs with fan-out <= 4^8: %s" % (
            n, "all equal the hierarchy fan-out" if not wrong else "differs at (parent, child, got, want) = %s" % (wrong[:3],)), where(facts.fns[NUMCH]["span"]) if NUMCH in facts.fns else None)
        run.extra["fanout_pairs"] = n
    except Undetermined as e:
        run.bad("C09.U4", "fanout-table", "get_num_children is not a closed integer formula of its two arguments (%s) - cannot decide" % e)
    run.floor("C09", "rule instances", len(run.instances), 9)
