"""C18 - the 12-face frame is a regular dodecahedron in the documented orientation; nearest-face
selection; quintant <-> segment relabelling.
Decided: D1 frame predicate on the compiler-evaluated QUATERNIONS table (unit norm, regular-dodecahedron
face normals with polar faces, ring structure tied to INTERHEDRAL_ANGLE / multiples of pi/5);
D2 table well-formedness (offset 93, permutation, ranges, layout classification total);
D3 the relabelling formulas of quintant_to_segment / segment_to_quintant, derived from the MIR, evaluated
over the complete finite domain (first quintant 0..4 x winding x quintant 0..4): mutually inverse
bijections that read the same orientation slot; D4 nearest face = full scan with arg-min update.
Not decided: that the modified haversine orders faces like great-circle distance (numeric, for-all)."""
import json
import math
import os

from ..terms import fn_terms, fmt, strip_site, walk, is_const, const_int, const_float
from ..query import ieval, Undetermined, inline_calls, leaves_under
from ..consts import const_py
from ..run import VERIF, where
from .hilbert_common import globals_in, resolve_promoted

O = "a5::core::origin::"
Q2S, S2Q, ISCW, FNO = O + "quintant_to_segment", O + "segment_to_quintant", O + "is_layout_clockwise", O + "find_nearest_origin"
QUAT = "a5::core::dodecahedron_quaternions::QUATERNIONS"

EXPL = ("TAB: QUATERNIONS (compiler-evaluated) are unit quaternions whose images of the z axis are the 12 face normals "
        "of a regular dodecahedron: pairwise dot products in {+-1/sqrt5, -1}, index 0 = +z, index 11 = -z, indices 1-5 "
        "at polar angle INTERHEDRAL_ANGLE and azimuths k*2pi/5, indices 6-10 at pi-INTERHEDRAL_ANGLE and azimuths "
        "pi/5 + k*2pi/5. LONGITUDE_OFFSET = 93, ORIGIN_ORDER a permutation, QUINTANT_FIRST in 0..4, every orientation row "
        "is a named layout, winding classification compares against exactly the clockwise layouts. SIB: the two "
        "relabelling formulas are evaluated as small-set abstract values over the whole finite domain and are mutually "
        "inverse bijections using the same orientation slot. MPT/GUARD: find_nearest_origin scans all faces with no early "
        "exit and updates minimum and face together. The distance-ordering claim itself is NOT decided.")


def rot(q, v):
    x, y, z, w = q
    vx, vy, vz = v
    t1x = w * vx + y * vz - z * vy
    t1y = w * vy + z * vx - x * vz
    t1z = w * vz + x * vy - y * vx
    t1w = -x * vx - y * vy - z * vz
    cx, cy, cz, cw = -x, -y, -z, w
    return (t1w * cx + t1x * cw + t1y * cz - t1z * cy,
            t1w * cy + t1y * cw + t1z * cx - t1x * cz,
            t1w * cz + t1z * cw + t1x * cy - t1y * cx)


def angdiff(a, b):
    d = (a - b) % (2 * math.pi)
    return min(d, 2 * math.pi - d)


def run(ctx):
    facts, run = ctx.facts, ctx.run
    run.explanation = EXPL
    run.rule_text = "C18.D1/D2 TAB predicates, C18.D3 finite-domain sibling evaluation, C18.D4 scan/arg-min shape"
    ref = json.load(open(os.path.join(VERIF, "reference", "constants.json")))["consts"]
    eps = 1e-12
    # ---------------- D1
    Q = const_py(facts, QUAT)
    if Q is None:
        run.missing("C18.D1", QUAT)
    else:
        wq = where(facts.consts[QUAT]["span"])
        run.inst("C18.D1", "count", len(Q) == 12 and all(len(q) == 4 for q in Q), "%d quaternions" % len(Q), wq)
        if len(Q) == 12:
            norms = [sum(c * c for c in q) for q in Q]
            run.inst("C18.D1", "unit-norm", all(abs(n - 1) <= eps for n in norms), "max |norm^2 - 1| = %.2e" % max(abs(n - 1) for n in norms), wq)
            N = [rot(q, (0.0, 0.0, 1.0)) for q in Q]
            s5 = 1 / math.sqrt(5)
            bad = []
            for i in range(12):
                cnt = {"+": 0, "-": 0, "anti": 0}
                for j in range(12):
                    if i == j:
                        continue
                    d = sum(a * b for a, b in zip(N[i], N[j]))
                    if abs(d - s5) <= 1e-9:
                        cnt["+"] += 1
                    elif abs(d + s5) <= 1e-9:
                        cnt["-"] += 1
                    elif abs(d + 1) <= 1e-9:
                        cnt["anti"] += 1
                    else:
                        bad.append((i, j, d))
                if cnt != {"+": 5, "-": 5, "anti": 1}:
                    bad.append((i, cnt))
            run.inst("C18.D1", "regular-dodecahedron", not bad,
                     "each face normal has 5 neighbours at +1/sqrt5 (63.435 deg), 5 at -1/sqrt5 and one antipode" if not bad else "irregular: %s" % bad[:3], wq)
            run.inst("C18.D1", "polar-faces", abs(N[0][2] - 1) <= eps and abs(N[11][2] + 1) <= eps, "face 0 normal z = %.15f, face 11 normal z = %.15f" % (N[0][2], N[11][2]), wq)
            inter = const_py(facts, "a5::core::constants::INTERHEDRAL_ANGLE")
            p5 = const_py(facts, "a5::core::constants::PI_OVER_5")
            if inter is None or p5 is None:
                run.missing("C18.D1", "a5::core::constants::INTERHEDRAL_ANGLE/PI_OVER_5")
            else:
                okr = True
                det = []
                for k in range(1, 6):
                    th, ph = math.atan2(N[k][1], N[k][0]), math.acos(max(-1.0, min(1.0, N[k][2])))
                    good = abs(ph - inter) <= 1e-9 and angdiff(th, (k - 1) * 2 * p5) <= 1e-9
                    okr &= good
                    det.append("%d:(%.4f,%.4f)" % (k, th, ph))
                run.inst("C18.D1", "ring-1", okr, "faces 1-5 at polar angle INTERHEDRAL_ANGLE, azimuth (k-1)*2pi/5: %s" % " ".join(det), wq)
                okr = True
                az = []
                for k in range(6, 11):
                    th, ph = math.atan2(N[k][1], N[k][0]), math.acos(max(-1.0, min(1.0, N[k][2])))
                    okr &= abs(ph - (math.pi - inter)) <= 1e-9
                    az.append(th % (2 * math.pi))
                want = sorted(((2 * j + 1) * p5) % (2 * math.pi) for j in range(5))
                okr &= all(abs(a - b) <= 1e-9 for a, b in zip(sorted(az), want))
                run.inst("C18.D1", "ring-2", okr, "faces 6-10 at polar angle pi-INTERHEDRAL_ANGLE, azimuths pi/5 + j*2pi/5", wq)
    # ---------------- D2
    off = const_py(facts, "a5::core::coordinate_transforms::LONGITUDE_OFFSET")
    run.inst("C18.D2", "longitude-offset", off == 93.0, "LONGITUDE_OFFSET = %s (documented 93 degrees)" % off)
    order = const_py(facts, O + "ORIGIN_ORDER")
    run.inst("C18.D2", "origin-order-permutation", isinstance(order, list) and sorted(order) == list(range(12)), "ORIGIN_ORDER = %s" % order)
    qf = const_py(facts, O + "QUINTANT_FIRST")
    run.inst("C18.D2", "quintant-first-range", isinstance(qf, list) and len(qf) == 12 and all(0 <= x <= 4 for x in qf), "QUINTANT_FIRST = %s" % qf)
    rows = const_py(facts, O + "QUINTANT_ORIENTATIONS_ARRAYS")
    layouts = {n: const_py(facts, O + n) for n in ("CLOCKWISE_FAN", "CLOCKWISE_STEP", "COUNTER_STEP", "COUNTER_JUMP")}
    cw_ref = [ref[O + "CLOCKWISE_FAN"], ref[O + "CLOCKWISE_STEP"]]
    ccw_ref = [ref[O + "COUNTER_STEP"], ref[O + "COUNTER_JUMP"]]
    if rows is None:
        run.missing("C18.D2", O + "QUINTANT_ORIENTATIONS_ARRAYS")
    else:
        unknown = [i for i, r in enumerate(rows) if r not in cw_ref and r not in ccw_ref]
        run.inst("C18.D2", "rows-are-known-layouts", len(rows) == 12 and not unknown,
                 "every one of the 12 orientation rows is one of the four reference layouts (unknown rows: %s)" % unknown)
    # (the winding classification is decided semantically in D3: winding-direction over the four reference layouts)

    # ---------------- D3
    if Q2S not in facts.fns or S2Q not in facts.fns:
        run.missing("C18.D3", Q2S if Q2S not in facts.fns else S2Q)
    else:
        f1, f2 = fn_terms(facts, Q2S), fn_terms(facts, S2Q)
        r1 = [f1.return_term(b) for b in f1.return_blocks()]
        r2 = [f2.return_term(b) for b in f2.return_blocks()]
        ok_shape = len(r1) == 1 and len(r2) == 1 and r1[0][0] == "agg" and r2[0][0] == "agg" and len(r1[0][3]) == 2 and len(r2[0][3]) == 2
        if not ok_shape:
            run.bad("C18.D3", "shape", "unrecognised idiom - cannot decide")
        else:
            seg_t, or1 = r1[0][3]
            qui_t, or2 = r2[0][3]

            def slot(t):
                # orientation value = layout[idx] -> idx term, and check the layout is origin.orientation
                from .cell_common import elem as _elem
                reads = []
                for x in walk(t):
                    e_ = _elem(x) if x[0] in ("call", "index") else None
                    if e_ is not None and not any(strip_site(e_[1]) == strip_site(r_[1]) for r_ in reads):
                        reads.append(e_)
                if len(reads) != 1:
                    return None, None
                base, idx_t = reads[0]
                is_layout = any(x[0] == "field" and x[2] == "orientation" and any(y == ("param", 2) for y in walk(x)) for x in walk(base))
                return idx_t, is_layout
            i1, l1 = slot(or1)
            i2, l2 = slot(or2)
            run.inst("C18.D3", "orientation-source", bool(l1 and l2), "both directions return origin.orientation[slot]", where(facts.fns[Q2S]["span"]))
            fq = ("field", ("deref", ("param", 2)), "first_quintant")
            # the winding of a face is a function of its orientation row: the formulas are evaluated for each of the
            # four reference layouts bound to origin.orientation (whether the classification is a helper, a match or inline)
            okey = strip_site(("field", ("deref", ("param", 2)), "orientation"))
            uses1 = any(strip_site(x) == okey for r in r1 for x in walk(r)) or any(strip_site(x) == okey for c in f1.calls() for a in c.args for x in walk(a))
            uses2 = any(strip_site(x) == okey for r in r2 for x in walk(r)) or any(strip_site(x) == okey for c in f2.calls() for a in c.args for x in walk(a))
            run.inst("C18.D3", "winding-source", uses1 and uses2 and i1 is not None and i2 is not None,
                     "both directions derive the winding from origin.orientation", where(facts.fns[Q2S]["span"]))
            if i1 is not None and i2 is not None:
                failures = []
                wrong_dir = []
                cases = 0
                try:
                    for lname, lay in sorted(layouts.items()):
                        if lay is None:
                            raise Undetermined("layout table %s unreadable" % lname)
                        cw = 1 if lay in cw_ref else 0
                        for fqv in range(5):
                            img = []
                            for q in range(5):
                                cases += 1
                                env1 = {("param", 1): q, strip_site(fq): fqv, okey: tuple(lay)}
                                seg = ieval(f1, seg_t, env1)
                                s1 = ieval(f1, i1, env1)
                                env2 = {("param", 1): seg, strip_site(fq): fqv, okey: tuple(lay)}
                                qb = ieval(f2, qui_t, env2)
                                s2 = ieval(f2, i2, env2)
                                img.append(seg)
                                if not (0 <= seg <= 4 and 0 <= s1 <= 4 and 0 <= s2 <= 4):
                                    failures.append("first_quintant=%d layout=%s quintant=%d: segment %d / slots %d,%d out of 0..4" % (fqv, lname, q, seg, s1, s2))
                                elif qb != q:
                                    failures.append("first_quintant=%d layout=%s: quintant %d -> segment %d -> quintant %d" % (fqv, lname, q, seg, qb))
                                elif s1 != s2:
                                    failures.append("first_quintant=%d layout=%s quintant=%d: orientation slot %d one way, %d back" % (fqv, lname, q, s1, s2))
                            if sorted(img) != [0, 1, 2, 3, 4]:
                                failures.append("first_quintant=%d layout=%s: quintant -> segment is not a bijection: %s" % (fqv, lname, img))
                            # direction: the quintant after the first one is labelled first-1 on clockwise faces, first+1 otherwise
                            nxt = img[(fqv + 1) % 5]
                            if nxt != (fqv + (4 if cw else 1)) % 5:
                                wrong_dir.append("layout %s (%s) with first_quintant=%d: next quintant gets segment %d" % (lname, "clockwise" if cw else "counter-clockwise", fqv, nxt))
                    run.inst("C18.D3", "relabelling-inverse-bijection", not failures,
                             "%d (layout, first quintant, quintant) cases evaluated on the MIR-derived formulas: mutually inverse bijections using the same orientation slot" % cases
                             if not failures else failures[0], where(facts.fns[Q2S]["span"]))
                    run.inst("C18.D3", "winding-direction", not wrong_dir,
                             "segments run against the quintant order exactly on the two clockwise reference layouts" if not wrong_dir else wrong_dir[0], where(facts.fns[Q2S]["span"]))
                    run.extra["d3_cases"] = cases
                except Undetermined as e:
                    run.bad("C18.D3", "relabelling-inverse-bijection", "formula depends on something other than (quintant, first_quintant, orientation row): %s - cannot decide" % e)

    # ---------------- D4
    if FNO not in facts.fns:
        run.missing("C18.D4", FNO)
    else:
        ok, why = check_argmin_scan(facts, FNO)
        run.inst("C18.D4", "full-scan-argmin", ok, why, where(facts.fns[FNO]["span"]))
    # ---------------- D5: the face a lookup indexes on is the arg-min's answer on every path (no shortcut in front of it)
    EST = "a5::core::cell::lonlat_to_estimate"
    FWD_ = "a5::projections::dodecahedron::DodecahedronProjection::forward"
    if EST not in facts.fns:
        run.missing("C18.D5", EST)
    else:
        from ..query import returns_under, is_variant, field_of
        fe = fn_terms(facts, EST)

        def peel_(t):
            while t[0] in ("ref", "deref") or (t[0] == "call" and isinstance(t[1], str) and t[1].endswith("::clone") and t[2]):
                t = t[2] if t[0] == "ref" else (t[1] if t[0] == "deref" else t[2][0])
            return t

        def from_argmin(t):
            t = peel_(t)
            if t[0] == "field" and t[2] == "id":
                t = peel_(t[1])
            if not (t[0] == "call" and t[1] == FNO and len(t[2]) == 1):
                return False
            a = peel_(t[2][0])
            return a[0] == "call" and isinstance(a[1], str) and a[1].endswith("::from_lon_lat") and peel_(a[2][0]) == ("param", 1)
        faces = []
        for t in returns_under(fe, {}):
            if is_variant(t, "Ok"):
                v = field_of(fe, t[3][0], "origin_id")
                faces.append(("returned cell", v))
        for c in fe.calls():
            if c.callee == FWD_:
                faces.append(("forward projection", c.args[2]))
        bad5 = [(w_, fmt(v)[:60] if v is not None else "?") for w_, v in faces if v is None or not from_argmin(v)]
        run.inst("C18.D5", "face-is-argmin-result", bool(faces) and not bad5,
                 "%d uses of the indexing face in lonlat_to_estimate, all find_nearest_origin(from_lon_lat(point))%s" % (len(faces), "" if not bad5 else "; not so: %s" % bad5[:2]),
                 where(fe.fn["span"]))
    # ---------------- D6: the two per-face constant tables (orientation rows, first quintants) are listed in construction
    # order: a face's row and its first quintant are taken with one and the same index where the Origin is built, nothing
    # rewrites them afterwards, and nobody else reads the tables (IDs use the re-ordered numbering)
    from .hilbert_common import resolve_promoted as _rp
    TABS = {O + "QUINTANT_ORIENTATIONS_ARRAYS": "orientation", O + "QUINTANT_FIRST": "first_quintant"}
    OADT = "a5::core::utils::Origin"

    def tab_index(t):
        """[(table, index term)] for every table element read inside t"""
        out_ = []
        for x in walk(t):
            if x[0] == "index" and len(x) == 3:
                b_ = x[1]
                for _ in range(6):
                    if b_[0] in ("ref", "deref"):
                        b_ = b_[2] if b_[0] == "ref" else b_[1]
                    elif b_[0] == "promoted":
                        b_ = _rp(facts, b_)
                    else:
                        break
                if b_[0] == "static" and b_[1] in TABS:
                    b_ = ("const", "json", None, b_[1])
                if b_[0] == "const" and len(b_) > 3 and b_[3] in TABS:
                    i_ = x[2]
                    while i_[0] == "cast":
                        i_ = i_[2]
                    out_.append((b_[3], strip_site(i_)))
        return out_
    sites6 = 0
    bad6 = []
    outside = set()
    for path, f in facts.fns.items():
        if f["kind"] not in ("Fn", "AssocFn", "Closure") or path in getattr(facts, "spliced_helpers", ()):
            continue
        fx = fn_terms(facts, path)
        for b in sorted(fx.cfg.reach):
            if fx.blocks[b].get("cleanup"):
                continue
            for i_, st in enumerate(fx.blocks[b]["stmts"]):
                if st["k"] != "assign":
                    continue
                rv = st["rv"]
                t = fx.rvalue(rv, b, i_)
                if tab_index(t) and not path.startswith(O + "generate_origins"):
                    outside.add(path)
                pr = st["place"]["proj"]
                if pr and pr[-1]["k"] == "field" and pr[-1].get("adt") == OADT and pr[-1].get("name") in TABS.values():
                    bad6.append("%s: field %s of a face row is rewritten after construction" % (path.split("::")[-1], pr[-1]["name"]))
                if rv["k"] == "aggregate" and rv.get("agg") == "adt" and rv.get("adt") == OADT and t[0] == "agg" and t[4]:
                    fv = dict(zip(t[4], t[3]))
                    if all(any(y[0] == "field" and y[2] == n_ for y in walk(fv.get(n_, ("unknown",)))) for n_ in TABS.values()):
                        continue        # a field-wise copy of an existing row (Clone)
                    sites6 += 1
                    io = [ix for tb, ix in tab_index(fv.get("orientation", ("unknown",))) if TABS[tb] == "orientation"]
                    iq = [ix for tb, ix in tab_index(fv.get("first_quintant", ("unknown",))) if TABS[tb] == "first_quintant"]
                    if len(io) != 1 or len(iq) != 1:
                        bad6.append("%s: Origin built without reading its row / first quintant from the tables (%d / %d reads)" % (path.split("::")[-1], len(io), len(iq)))
                    elif io[0] != iq[0]:
                        bad6.append("%s: orientation row taken at %s, first quintant at %s" % (path.split("::")[-1], fmt(io[0])[:40], fmt(iq[0])[:40]))
            tm = fx.blocks[b]["term"]
        for c in fx.calls():
            if any(tab_index(a) for a in c.args) and not path.startswith(O + "generate_origins"):
                outside.add(path)
    run.inst("C18.D6", "face-tables-one-index", sites6 >= 1 and not bad6 and not outside,
             "%d Origin construction site(s): orientation row and first quintant are read with the same construction index%s%s" % (
                 sites6, "" if not bad6 else "; " + bad6[0], "" if not outside else "; tables also read by %s" % sorted(x.split("::")[-1] for x in outside)),
             where(facts.fns[O + "generate_origins"]["span"]) if O + "generate_origins" in facts.fns else None)
    run.floor("C18", "rule instances", len(run.instances), 17)


def check_argmin_fold(facts, ft, measure, source):
    """the same arg-min written as `table.iter().fold((inf, first), |(best, who), cand| if d(cand) < best {(d, cand)} else {(best, who)})`:
    whole table, strict comparison with the carried minimum, minimum and face replaced together, face of the result returned"""
    from ..query import closure_subst
    folds = [c for c in ft.calls() if c.callee and c.callee.endswith("::fold") and len(c.args) == 3]
    if len(folds) != 1:
        return None
    c = folds[0]
    src_calls = [x[1] for x in walk(c.args[0]) if x[0] == "call"]
    if not (any(n == source for n in src_calls) and all(n == source or n.split("::")[-1] in ("iter", "into_iter", "deref", "as_slice") for n in src_calls)):
        return False, "fold does not run over the whole result of %s (iterator built by %s)" % (source.split("::")[-1], src_calls)
    init = c.args[1]
    while init[0] in ("ref", "deref"):
        init = init[2] if init[0] == "ref" else init[1]
    # the carried pair holds the minimum in one slot and the face in the other, in either order: the slot that starts at
    # +infinity is the minimum
    di = None
    if init[0] == "agg" and init[1] == "tuple" and len(init[3]) == 2:
        infs = [k_ for k_ in (0, 1) if const_float(init[3][k_]) == float("inf")]
        di = infs[0] if len(infs) == 1 else None
    if di is None:
        return False, "fold does not start from (+infinity, some face): %s" % fmt(init)[:80]
    clos = c.args[2]
    while clos[0] in ("ref", "deref"):
        clos = clos[2] if clos[0] == "ref" else clos[1]
    if clos[0] != "agg" or clos[1] != "closure" or clos[2] not in facts.fns:
        return False, "fold step is not a closure of this function"
    fc = fn_terms(facts, clos[2])
    sw = [(b, fc.switch_term(b)) for b in sorted(fc.cfg.reach) if fc.blocks[b]["term"]["k"] == "switch"]
    cmp_ = [(b, d) for b, d in sw if d[0] == "bin" and d[1] in ("Lt", "Gt")]
    if len(cmp_) != 1 or len(sw) != 1:
        return False, "fold step must contain exactly one strict comparison (found %d tests)" % len(sw)
    b, d = cmp_[0]
    x, y = (d[2], d[3]) if d[1] == "Lt" else (d[3], d[2])
    best = ("field", ("param", 2), di)
    if not (x[0] == "call" and x[1] == measure and strip_site(y) == strip_site(best)):
        return False, "fold step compares %s with %s, expected %s(point, candidate.axis) < carried minimum" % (fmt(x)[:50], fmt(y)[:40], measure.split("::")[-1])
    pt = closure_subst(facts, clos[2], x[2][0])
    if pt is None or pt != ("param", 1):
        return False, "distance is measured from %s, not from the query point" % (fmt(pt) if pt else "?")
    if not any(z == ("param", 3) for z in walk(x[2][1])) or not any(z[0] == "field" and z[2] == "axis" for z in walk(x[2][1])):
        return False, "distance is not measured to the candidate face's axis: %s" % fmt(x[2][1])
    from ..query import returns_under
    yes = returns_under(fc, {strip_site(d): 1})
    no = returns_under(fc, {strip_site(d): 0})

    def pair(t):
        while t[0] in ("ref", "deref"):
            t = t[2] if t[0] == "ref" else t[1]
        return (t[3][0], t[3][1]) if t[0] == "agg" and t[1] == "tuple" and len(t[3]) == 2 else None
    py, pn = [pair(t) for t in yes], [pair(t) for t in no]
    ok_yes = len(py) == 1 and py[0] is not None and strip_site(py[0][di]) == strip_site(x) and any(z == ("param", 3) for z in walk(py[0][1 - di])) and not any(z == ("param", 2) for z in walk(py[0][1 - di]))
    ok_no = len(pn) == 1 and pn[0] is not None and strip_site(pn[0][0]) == strip_site(("field", ("param", 2), 0)) and strip_site(pn[0][1]) == strip_site(("field", ("param", 2), 1))

    def whole(t):
        while t[0] in ("ref", "deref"):
            t = t[2] if t[0] == "ref" else t[1]
        return t == ("param", 2)
    ok_no = ok_no or (len(no) == 1 and whole(no[0]))        # the carried pair handed back as it came
    if not (ok_yes and ok_no):
        return False, "fold step must return (new distance, candidate) when smaller and the carried pair otherwise: %s / %s" % ([fmt(t)[:60] for t in yes], [fmt(t)[:60] for t in no])
    # the function returns the face component of the fold result
    rts = [ft.return_term(rb) for rb in ft.return_blocks()]
    fold_t = ("call", c.callee, tuple(c.args), (ft.path, c.block))
    ok_ret = len(rts) == 1 and any(z[0] == "field" and str(z[2]) == str(1 - di) and strip_site(z[1]) == strip_site(fold_t) for z in walk(rts[0]))
    if not ok_ret:
        return False, "the face carried by the fold is not what is returned: %s" % [fmt(t)[:80] for t in rts]
    return True, "fold over every face of %s from (+inf, _): (minimum, face) replaced together exactly when %s(point, face.axis) is strictly smaller; the carried face is returned" % (
        source.split("::")[-1], measure.split("::")[-1])


def check_argmin_scan(facts, path, measure="a5::core::origin::haversine", source="a5::core::origin::get_origins"):
    ft = fn_terms(facts, path)
    cfg = ft.cfg
    loops = cfg.loops()
    if len(loops) == 0:
        r_ = check_argmin_fold(facts, ft, measure, source)
        if r_ is not None:
            return r_
    if len(loops) != 1:
        return False, "expected exactly one loop, found %d - unrecognised idiom, cannot decide" % len(loops)
    (head, body), = loops.items()
    # the iterator
    nxt = [c for c in ft.calls() if c.block in body and c.callee and c.callee.endswith("::next")]
    from ..query import loops_of as _lo
    cl_ = [l for l in _lo(ft) if l.head == head and getattr(l, "counter", False)]
    counter = cl_[0] if (not nxt and cl_) else None
    if len(nxt) != 1 and counter is None:
        return False, "loop is not driven by a single Iterator::next (or a counter stepping by one) - unrecognised idiom"
    # exits of the loop: only from the block that tests the iterator result
    exits = [(b, s) for b in body for s in cfg.succ[b] if s not in body]
    item_switch = None
    for b in body:
        t = ft.blocks[b]["term"]
        if t["k"] == "switch":
            d = ft.switch_term(b)
            if d[0] == "discr" and d[1][0] == "call" and d[1][1].endswith("::next"):
                item_switch = b
    if counter is not None:
        item_switch = counter.item_switch
    bad_exits = [(b, s) for b, s in exits if b != item_switch and ft.blocks[s]["term"]["k"] != "unreachable"]
    if item_switch is None or bad_exits:
        return False, "the scan can leave the loop early (exit edges %s): a nearer face later in the table would be missed" % bad_exits
    # the iterated collection is the whole face table
    src_terms = []
    it = nxt[0].args[0] if counter is None else counter.source
    if counter is not None:
        # `while i < table.len()` from 0: the whole table, each row once
        if not (const_int(counter.source[3][0]) == 0 and any(x[0] == "call" and isinstance(x[1], str) and x[1].endswith("::len") for x in walk(counter.source[3][1]))):
            return False, "the counter does not run from 0 to the length of the face table (%s)" % fmt(counter.source)[:80]
        it = counter.source[3][1]
    seen = 0
    while seen < 12:
        seen += 1
        if it[0] == "ref":
            it = it[2]
        elif it[0] == "deref":
            it = it[1]
        elif it[0] == "phi":
            ops = [x for x in ft.phi_operands(it).values() if x[0] != "escaped"]
            if len(ops) != 1:
                break
            it = ops[0]
        else:
            break
    src_calls = [x[1] for x in walk(it) if x[0] == "call"]
    whole = any(c == source for c in src_calls) and not any(("skip" in c or "take" in c or "filter" in c or "step_by" in c) for c in src_calls)
    if not whole:
        return False, "loop does not iterate the whole result of %s (iterator built by %s)" % (source.split("::")[-1], src_calls)
    # the update
    cmpb = None
    for b in body:
        t = ft.blocks[b]["term"]
        if t["k"] == "switch":
            d = ft.switch_term(b)
            if d[0] == "bin" and d[1] in ("Lt", "Le", "Gt", "Ge"):
                cmpb = (b, d)
    if cmpb is None:
        return False, "no comparison against a running minimum in the loop"
    b, d = cmpb
    op, x, y = d[1], d[2], d[3]
    if op in ("Gt", "Ge"):
        x, y = y, x
    if not (x[0] == "call" and x[1] == measure):
        return False, "compared value is %s, expected the result of %s" % (fmt(x), measure.split("::")[-1])
    if not (y[0] == "phi" and y[2] == head):
        return False, "distance is compared with %s, expected the loop-carried running minimum" % fmt(y)
    if x[2][0] != ("param", 1):
        return False, "distance is measured from %s, not from the query point" % fmt(x[2][0])
    item = x[2][1]
    def is_current(z):
        if counter is None:
            return z[0] == "payload" and z[2][0] == "call" and z[2][1].endswith("::next")
        # row `counter` of the table
        if z[0] == "index" and len(z) == 3:
            return strip_site(z[2]) == strip_site(counter.item)
        if z[0] == "call" and isinstance(z[1], str) and z[1].endswith("::index") and len(z[2]) == 2:
            return strip_site(z[2][1]) == strip_site(counter.item)
        return False
    if not any(is_current(z) for z in walk(item)) or not any(z[0] == "field" and z[2] == "axis" for z in walk(item)):
        return False, "distance is not measured to the current face's axis: %s" % fmt(item)
    # running minimum: back-edge value = phi at the if-join of {x, old}
    min_ops = ft.phi_operands(y)
    init = [v for p, v in min_ops.items() if p not in body]
    upd = [v for p, v in min_ops.items() if p in body]
    if len(init) != 1 or const_float(init[0]) != float("inf"):
        return False, "running minimum does not start at +infinity (%s)" % [fmt(v) for v in init]

    def join_vals(v):
        if v[0] == "phi":
            return {strip_site(o) for o in ft.phi_operands(v).values()}
        return {strip_site(v)}
    mv = set()
    for v in upd:
        mv |= join_vals(v)
    if mv != {strip_site(x), strip_site(y)}:
        return False, "running minimum is updated to %s, expected the new distance when smaller and unchanged otherwise" % sorted(map(str, mv))[:2]
    # the returned face: loop-carried, updated to the current item at the same join
    rts = [ft.return_term(rb) for rb in ft.return_blocks()]
    if len(rts) != 1:
        return False, "several returns"
    r = rts[0]
    while r[0] in ("ref", "deref"):
        r = r[2] if r[0] == "ref" else r[1]
    if not (r[0] == "phi" and r[2] == head):
        return False, "returned face %s is not the loop-carried nearest face" % fmt(r)
    near_ops = ft.phi_operands(r)
    nupd = [v for p, v in near_ops.items() if p in body]
    nv = set()
    joins = set()
    for v in nupd:
        nv |= join_vals(v)
        if v[0] == "phi":
            joins.add(v[2])
    mj = {v[2] for v in upd if v[0] == "phi"}
    cur = {strip_site(z) for z in nv if z != strip_site(r)}
    is_item = all(any(is_current(w) for w in walk(z)) for z in cur) and len(cur) == 1
    if not is_item or joins != mj:
        return False, "nearest face and running minimum are not updated together (face <- %s at joins %s, minimum at joins %s)" % (sorted(map(str, cur))[:1], sorted(joins), sorted(mj))
    return True, "scans every element of get_origins() (only exit: iterator exhausted), compares haversine(point, face.axis) %s running minimum (init +inf), updates minimum and face at the same join" % ("<" if op in ("Lt", "Gt") else "<=")
