"""C20 - numeric ID order is compatible with the hierarchy from the quintant level down.
Decided: L1 field order is big-endian and contiguous (code field at bit 58, digits most-significant first directly
below it, marker directly below the last digit, nothing else set); L2 for r < 2 the marker sits below the code
field; L3 sibling stride and first-child mask sit exactly on the writer's last-digit position (code field LSB for
r < 2); L4 ancestors are obtained by dropping digits from the least-significant end.
Not decided: the ordering theorem over all pairs of cells."""
from ..terms import fn_terms, fmt, strip_site, walk, const_int
from ..query import (regime_assumptions, returns_under, deep_resolve, is_variant, linear, leaves_under, ieval, Undetermined)
from ..consts import const_py
from ..run import where
from .c05 import parts_of, shl_split, lin_in, unwrap_cast, SER

S = "a5::core::serialization::"
STRIDE, FIRSTCH, PARENT = S + "get_stride", S + "is_first_child", S + "cell_to_parent"

EXPL = ("OBL/SIB on the symbolic layout derived from serialize's MIR: code << 58, digits << (60-2r), marker << (59-2r); "
        "get_stride(r) = 1 << p and is_first_child's mask 3 << p with p = 60-2r for r >= 2 (the writer's last-digit "
        "position, compared as affine forms in r) and 1 << 58 below; cell_to_parent drops digits with s >> 2d. "
        "The ordering theorem over all pairs is NOT decided.")


def writer_layout(facts):
    """{'hsb':58, 'digit': (a,b) shift as a*r+b for r>=2, 'marker': (a,b), 'marker_low': {0:pos,1:pos}, 'parts': n}"""
    hsb = const_py(facts, S + "HILBERT_START_BIT")
    ft = fn_terms(facts, SER)
    res_w = ("field", ("deref", ("param", 1)), "resolution")
    out = {"hsb": hsb, "marker_low": {}, "nparts": {}}
    for lo, hi in ((0, 0), (1, 1), (2, 29)):
        A = regime_assumptions(ft, res_w, lo, hi)
        oks = [deep_resolve(ft, t, A) for t in returns_under(ft, A) if is_variant(t, "Ok")]
        if len(oks) != 1:
            return None
        parts = [shl_split(p) for p in parts_of(oks[0][3][0])]
        out["nparts"][lo] = len(parts)
        code = [(v, k) for v, k in parts if lin_in(k, res_w) == (0, hsb)]
        marker = [(v, k) for v, k in parts if const_int(unwrap_cast(v)) == 1 and lin_in(k, res_w) not in (None, (0, hsb))]
        digit = [(v, k) for v, k in parts if (v, k) not in code and (v, k) not in marker]
        if len(code) != 1 or len(marker) != 1:
            return None
        m = lin_in(marker[0][1], res_w)
        if lo < 2:
            if digit:
                return None
            out["marker_low"][lo] = m[0] * lo + m[1]
        else:
            if len(digit) != 1:
                return None
            out["digit"] = lin_in(digit[0][1], res_w)
            out["marker"] = m
            out["digit_value"] = digit[0][0]
    return out


def first_child_resolution(ft):
    """the resolution is_first_child works with: the value compared with the first curve resolution in its regime test;
    it must be the caller's Some(resolution) or, for None, get_resolution(index) (either as unwrap_or_else or as a match)"""
    cands = {}
    for b in sorted(ft.cfg.reach):
        if ft.blocks[b]["term"]["k"] != "switch":
            continue
        d = ft.switch_term(b)
        if d[0] == "bin" and d[1] in ("Lt", "Ge", "Le", "Gt") and const_int(d[3]) is not None and ft.tyof(d[2]) == "i32":
            cands[strip_site(d[2])] = d[2]
    if len(cands) != 1:
        return None
    r_t = list(cands.values())[0]
    if r_t[0] == "call" and "unwrap_or" in r_t[1] and r_t[2][0] == ("param", 2):
        return r_t
    if r_t[0] == "phi":
        leaves = list(ft.phi_operands(r_t).values())
        ok = len(leaves) == 2
        kinds = set()
        for l in leaves:
            if l[0] == "payload" and l[1] == "Some" and l[2] == ("param", 2):
                kinds.add("some")
            elif l[0] == "call" and l[1].endswith("::get_resolution") and l[2] == (("param", 1),):
                kinds.add("decoded")
        return r_t if ok and kinds == {"some", "decoded"} else None
    return None


def run(ctx):
    facts, run = ctx.facts, ctx.run
    run.explanation = EXPL
    run.rule_text = "C20.L1/L2 layout order from serialize, L3 SIB stride/mask position vs writer digit position, L4 parent drops LSB digits"
    for p in (SER, STRIDE, FIRSTCH, PARENT):
        if p not in facts.fns:
            run.missing("C20", p)
            return
    lay = writer_layout(facts)
    w = where(facts.fns[SER]["span"])
    if lay is None or lay.get("digit") is None:
        run.bad("C20.L1", "layout", "cannot derive the writer's field layout - unrecognised shape, cannot decide", w)
        return
    hsb = lay["hsb"]
    da, db = lay["digit"]
    ma, mb = lay["marker"]
    run.inst("C20.L1", "three-fields-only", lay["nparts"] == {0: 2, 1: 2, 2: 3}, "parts of the ID per regime: %s (code+marker, code+marker, code+digits+marker)" % lay["nparts"], w)
    run.inst("C20.L1", "digits-directly-below-code", da == -2 and da * 2 + db + 2 * (2 - 1) == hsb,
             "digit shift = %d*r + %d; at r=2 the single level occupies bits %d..%d, code field starts at %d" % (da, db, da * 2 + db, da * 2 + db + 1, hsb), w)
    run.inst("C20.L1", "digits-msb-first", da == -2, "each further level adds two bits below the previous ones (shift decreases by %d per level)" % -da, w)
    run.inst("C20.L1", "marker-below-last-digit", (ma, mb) == (da, db - 1), "marker shift = %d*r + %d = digit shift - 1" % (ma, mb), w)
    low = lay["marker_low"]
    run.inst("C20.L2", "low-resolution-marker-below-code", all(0 <= v < hsb for v in low.values()) and len(low) == 2, "marker bit for r=0,1: %s (code field starts at bit %d)" % (low, hsb), w)

    # L3
    maxres = const_py(facts, S + "MAX_RESOLUTION")
    for path, what in ((STRIDE, "stride"), (FIRSTCH, "first-child mask")):
        ft = fn_terms(facts, path)
        wf = where(facts.fns[path]["span"])
        if path == STRIDE:
            r_t = ("param", 1)
        else:
            # resolution = unwrap_or_else(param2, || get_resolution(index))
            r_t = first_child_resolution(ft)
            if r_t is None:
                run.bad("C20.L3", what, "cannot find the resolution used by is_first_child", wf)
                continue
        for lo, hi, nm in ((0, 1, "r<2"), (2, 29, "r>=2")):
            A = regime_assumptions(ft, r_t, lo, hi)
            rets = [deep_resolve(ft, t, A) for t in returns_under(ft, A)]
            if len(rets) != 1:
                run.bad("C20.L3", "%s[%s]" % (what, nm), "no unique result formula in this regime", wf)
                continue
            t = rets[0]
            if path == STRIDE:
                ok = t[0] == "bin" and t[1] == "Shl" and const_int(unwrap_cast(t[2])) == 1
                pos = lin_in(t[3], r_t) if ok else None
            else:
                # (index & (3 << p)) == 0   or  top6 % count == 0
                pos = None
                ok = False
                if t[0] == "bin" and t[1] == "Eq" and const_int(t[3]) == 0:
                    inner = t[2]
                    if inner[0] == "bin" and inner[1] == "BitAnd":
                        m = [x for x in (inner[2], inner[3]) if x[0] == "bin" and x[1] == "Shl"]
                        base = [x for x in (inner[2], inner[3]) if x == ("param", 1)]
                        if len(m) == 1 and len(base) == 1 and const_int(unwrap_cast(m[0][2])) == 3:
                            ok = True
                            pos = lin_in(m[0][3], r_t)
                    elif inner[0] == "bin" and inner[1] == "Rem":
                        code = unwrap_cast(inner[2])
                        if code[0] == "bin" and code[1] == "Shr" and code[2] == ("param", 1):
                            try:
                                sh = ieval(ft, code[3], {})
                            except Undetermined:
                                sh = None
                            ok = sh == hsb
                            pos = (0, sh) if ok else None
            if lo >= 2:
                good = ok and pos == (da, db)
                run.inst("C20.L3", "%s[%s]" % (what, nm), good, "%s position = %s*r + %s ; writer's last-digit position = %d*r + %d" % (what, pos and pos[0], pos and pos[1], da, db), wf)
            else:
                good = ok and pos == (0, hsb)
                run.inst("C20.L3", "%s[%s]" % (what, nm), good, "%s works on bit %s (code field LSB = %d)" % (what, pos and pos[1], hsb), wf)
    # first child modulus below r=2: 12 for r=0, 5 for r=1
    ft = fn_terms(facts, FIRSTCH)
    r_t = first_child_resolution(ft)
    if r_t is not None:
        mods = {}
        for r in (0, 1):
            A = regime_assumptions(ft, r_t, r, r)
            rets = [deep_resolve(ft, t, A) for t in returns_under(ft, A)]
            if len(rets) == 1 and rets[0][0] == "bin" and rets[0][2][0] == "bin" and rets[0][2][1] == "Rem":
                mods[r] = const_int(rets[0][2][3])
        run.inst("C20.L3", "first-child-modulus", mods == {0: 12, 1: 5}, "first child below the curve levels: code %% %s == 0 (12 faces, 5 quintants per face)" % mods, where(facts.fns[FIRSTCH]["span"]))
    # L4
    fp = fn_terms(facts, PARENT)
    sers = [c for c in fp.calls() if c.callee == SER]
    okp = False
    why = "no serialize call"
    for c in sers:
        cell = c.args[0]
        while cell[0] in ("ref", "deref"):
            cell = cell[2] if cell[0] == "ref" else cell[1]
        if cell[0] == "agg" and cell[4]:
            f = dict(zip(cell[4], cell[3]))
            s_t = f.get("s")
            okp = s_t is not None and s_t[0] == "bin" and s_t[1] == "Shr"
            why = "parent position = %s" % fmt(s_t)
    run.inst("C20.L4", "ancestor-drops-lsb-digits", okp, why + " (digits are removed from the least-significant end: a parent's digit string is a prefix of its children's)", where(facts.fns[PARENT]["span"]))
    run.floor("C20", "rule instances", len(run.instances), 10)
