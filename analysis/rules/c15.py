"""C15 - the dodecahedron projection is invertible and maps each face onto its pentagon.
Decided: S1 forward and inverse select the triangle pair identically (index and reflection flag from one polar
value, unsquashed face triangle, spherical triangle of the function's own face) and hand it, with the un-rotated
input point, to the polyhedral map in the right slots; S2 frame pairing: forward pre-rotates with inverse_quat and
-angle, the triangle construction and the CRS use quat and +angle, inverse_quat is the conjugate of quat;
S3 only the spherical-triangle construction requests the squashed variant.
Not decided: the 1e-12 / 1e-11 round-trip bounds and the inside/outside radius claims (numerical)."""
from ..terms import fn_terms, fmt, strip_site, walk, const_int
from ..query import inline_calls, faffine, returns_under, is_variant
from ..run import where
from .cell_common import peel

D = "a5::projections::dodecahedron::DodecahedronProjection::"
FWD, INV = D + "forward", D + "inverse"
GFT, GST, GFTI, REFL, CST = D + "get_face_triangle", D + "get_spherical_triangle", D + "get_face_triangle_index", D + "should_reflect", D + "compute_spherical_triangle"
PFWD = "a5::projections::polyhedral::PolyhedralProjection::forward"
PINV = "a5::projections::polyhedral::PolyhedralProjection::inverse"
GEN = "a5::core::origin::generate_origins"
CRS = "a5::projections::crs::CRS::"

EXPL = ("SIB rules on DodecahedronProjection::forward / inverse / compute_spherical_triangle and the CRS/origin "
        "construction, on MIR terms: same (triangle index, reflect) selection from one polar value on both sides, "
        "face triangle requested unsquashed, spherical triangle for the function's own face, argument slots of the "
        "polyhedral map; inverse_quat/-angle on the way in, quat/+angle on the way out and in the CRS; inverse_quat = "
        "conjugate(quat). The numerical round-trip bounds are NOT decided.")


def the_call(ft, callee):
    cs = [c for c in ft.calls() if c.callee == callee]
    return cs[0] if len(cs) == 1 else None


def unq(t):
    """strip the `?` payload"""
    t = peel(t)
    if t[0] == "payload" and t[1] == "Ok":
        return peel(t[2])
    return t


def outer_polars(ft, t):
    """the outermost Polar-valued sub-terms of t (what an index / reflection computation is a function of)"""
    cands = []
    for x in walk(t):
        if x[0] == "call" and isinstance(x[1], str) and (x[1].endswith("polar::Polar::new") or x[1].endswith("::to_polar")):
            cands.append(x)
        elif x[0] in ("param", "phi") and (ft.tyof(x) or "").endswith("polar::Polar"):
            cands.append(x)
    keys = {}
    for c in cands:
        keys[strip_site(c)] = c
    out = []
    for k, c in keys.items():
        inside = False
        for k2, c2 in keys.items():
            if k2 != k and any(strip_site(y) == k for y in walk(c2)):
                inside = True
        if not inside:
            out.append(c)
    return out


BASE_T, REFL_T = D + "get_base_face_triangle", D + "get_reflected_face_triangle"
_gft_cache = {}


_refl_cache = {}


def _refl_squashed(facts, v):
    """1 / 0: does get_reflected_face_triangle build the squashed triangle when its selector parameter has value v?
    Decided by what the function does, not by what the parameter is called or typed: under that value the apex is moved by
    `midpoint * scale`; scale == 2.0 is the plain reflection, scale == 1 + 1/cos(INTERHEDRAL_ANGLE) the squashed one."""
    key = (id(facts), v)
    if key in _refl_cache:
        return _refl_cache[key]
    import math
    from ..query import assumptions_by_eval, returns_under, deep_resolve, fconst, Undetermined
    from ..consts import const_py
    fr = fn_terms(facts, REFL_T)
    env = {("param", 3): v, ("discr", ("param", 3)): v}
    A = assumptions_by_eval(fr, env)
    vals = set()
    for rt in returns_under(fr, A):
        rt = deep_resolve(fr, rt, A)
        for x in walk(rt):
            if x[0] == "bin" and x[1] == "Mul":
                for side in (x[2], x[3]):
                    cv = fconst(side)
                    if cv is None and any(y[0] == "call" and isinstance(y[1], str) and y[1].endswith("::cos") for y in walk(side)) \
                            and not any(y[0] in ("param", "phi") for y in walk(side)):
                        try:
                            from ..query import feval
                            cv = feval(side, {})
                        except Exception:
                            cv = None
                        if cv is None:
                            cv = float("nan")        # a closed expression over cos(..) of a constant: not the plain factor 2
                    if cv is not None:
                        vals.add(round(cv, 12) if cv == cv else cv)
    ih = const_py(facts, "a5::core::constants::INTERHEDRAL_ANGLE")
    while isinstance(ih, (dict, list, tuple)) and ih:
        ih = list(ih.values())[0] if isinstance(ih, dict) else ih[0]
    sq_scale = round(1.0 + 1.0 / math.cos(ih), 12) if isinstance(ih, float) else None
    plain = 2.0 in vals
    squashed = any((x != x) or (sq_scale is not None and abs(x - sq_scale) < 1e-9) for x in vals)
    if plain == squashed:
        raise Undetermined("cannot tell the plain from the squashed reflection for selector value %r (scales %s)" % (v, sorted(vals)))
    _refl_cache[key] = 1 if squashed else 0
    return _refl_cache[key]


def gft_dispatch(facts):
    """What get_face_triangle builds, as a function of its selector parameters (everything after self and the index:
    two bools in the reference, possibly an enum): {values: ('base',) | ('refl', squashed)}.  Obtained by finite
    evaluation of the function's own tests for every combination of selector values."""
    if id(facts) in _gft_cache:
        return _gft_cache[id(facts)]
    import itertools
    from ..query import assumptions_by_eval, feasible_blocks, ieval, Undetermined
    res = (None, "get_face_triangle not found")
    if GFT in facts.fns:
        ft = fn_terms(facts, GFT)
        f = ft.fn
        sel = []
        why = None
        for i in range(3, f["arg_count"] + 1):
            ty = f["locals"][i]["ty"]
            if ty == "bool":
                sel.append((i, (0, 1)))
                continue
            adt = facts.adts.get(facts.crate + "::" + ty) or facts.adts.get(ty)
            if adt is not None and adt["kind"] == "Enum" and all(not v["fields"] for v in adt["variants"]):
                sel.append((i, tuple(range(len(adt["variants"])))))
            else:
                why = "selector parameter %d of get_face_triangle has type %s - cannot enumerate" % (i, ty)
        table = {}
        if why is None:
            for combo in itertools.product(*[d for _i, d in sel]):
                env = {}
                for (i, _d), v in zip(sel, combo):
                    env[("param", i)] = v
                    env[("discr", ("param", i))] = v
                A = assumptions_by_eval(ft, env)
                feas = feasible_blocks(ft, A)
                leafs = set()
                try:
                    for c in ft.calls():
                        if c.block not in feas:
                            continue
                        if c.callee == BASE_T:
                            leafs.add(("base",))
                        elif c.callee == REFL_T:
                            leafs.add(("refl", _refl_squashed(facts, ieval(ft, c.args[2], env, A))))
                except Undetermined as e:
                    why = "squashed flag of the reflected triangle is not a function of the selector parameters (%s)" % e
                    break
                if len(leafs) != 1:
                    why = "selector values %s reach %d triangle constructors" % (combo, len(leafs))
                    break
                table[combo] = leafs.pop()
        res = ((sel, table), None) if why is None else (None, why)
    _gft_cache[id(facts)] = res
    return res


def requested_triangle(facts, ft, call, ref_t):
    """{reflect value r: what this call of get_face_triangle fetches when the caller's reflection flag `ref_t` is r}"""
    from ..query import ieval, Undetermined, assumptions_by_eval
    disp, why = gft_dispatch(facts)
    if disp is None:
        return None, why
    sel, table = disp
    out = {}
    for r in (0, 1):
        env = {strip_site(ref_t): r}
        try:
            A = assumptions_by_eval(ft, env)
            combo = tuple(ieval(ft, call.args[i - 1], env, A) for i, _d in sel)
        except Undetermined as e:
            return None, "selector argument is not a function of the reflection flag alone (%s)" % e
        if combo not in table:
            return None, "selector values %s outside the enumerated domain" % (combo,)
        out[r] = table[combo]
    return out, None


def selection(ft, run, side, poly_callee, pt_slot, ft_slot, st_slot, own_pt):
    """check the selection logic of one direction; returns the polar term used.  The triangle index and the reflection flag
    are recognised by their role (the arguments both triangle lookups share), not by the name of the helper computing them."""
    pc = the_call(ft, poly_callee)
    gft = the_call(ft, GFT)
    gst = the_call(ft, GST)
    w = where(ft.fn["span"])
    if None in (pc, gft, gst):
        run.bad("C15.S1", side + "-shape", "expected exactly one call each of the polyhedral map, get_face_triangle, get_spherical_triangle", w)
        return None
    # the reflection flag is what the spherical-triangle lookup receives (its signature is the reference one)
    idx_t, ref_t = unq(gft.args[1]), peel(gst.args[3])
    # every Polar value this function hands to a helper (a call, or a helper body spliced in) other than Polar's own
    # accessors: the index helper and the reflection helper must receive the same one
    handed = {}
    own = ft.fn.get("own_blocks", len(ft.blocks))     # only what this function's own code passes on, not a helper's internals
    for c in ft.calls():
        if not c.callee or "polar::Polar::" in c.callee or c.callee in (GFT, GST, poly_callee) or c.callee not in ft.facts.fns or c.block >= own:
            continue
        g = ft.facts.fns[c.callee]
        for ai, a in enumerate(c.args):
            if ai + 1 < len(g["locals"]) and g["locals"][ai + 1]["ty"].lstrip("&").endswith("polar::Polar"):
                handed[strip_site(peel(a))] = peel(a)
    for b in sorted(ft.cfg.reach):
        if b >= own:
            continue
        for i_, st in enumerate(ft.blocks[b]["stmts"]):
            if st["k"] == "assign" and st.get("inlined_arg") and (st["place"].get("ty") or "").lstrip("&").endswith("polar::Polar"):
                v = peel(ft.rvalue(st["rv"], b, i_))
                handed[strip_site(v)] = v
    same = len(handed) == 1
    run.inst("C15.S1", side + "-one-polar-value", same, "triangle index and reflection flag are computed from the same polar value: helpers receive %s" % (
        [fmt(x)[:60] for x in handed.values()]), where(gft.span))
    polar_i = list(handed.values())[0] if handed else None
    # the reflection flag itself must be a function of that polar value (the sector-reduced edge test): a flag read off
    # anything else - the raw face coordinate, say - is decided in a different frame than the index
    ref_from_polar = polar_i is not None and ref_t[0] not in ("const",) and any(strip_site(x) == strip_site(polar_i) for x in walk(ref_t))
    run.inst("C15.S1", side + "-reflect-from-polar", ref_from_polar,
             "reflection flag = %s; it must be a function of the polar value the triangle index is computed from (%s)" % (fmt(ref_t)[:60], fmt(polar_i)[:50] if polar_i is not None else "?"), where(gst.span))

    def is_idx(t):
        return strip_site(unq(t)) == strip_site(idx_t) and idx_t[0] not in ("const",)

    def is_ref(t):
        return strip_site(peel(t)) == strip_site(ref_t) and ref_t[0] not in ("const",)
    req, whyreq = requested_triangle(ft.facts, ft, gft, ref_t)
    okf = is_idx(gft.args[1]) and req == {0: ("base",), 1: ("refl", 0)}
    run.inst("C15.S1", side + "-face-triangle", okf, "get_face_triangle(%s, ..) fetches %s (must be the base triangle without reflection and the unsquashed reflected one with it)" % (
        fmt(gft.args[1])[:40], ("base / reflected%s" % (" squashed" if req[1] == ("refl", 1) else "") if req and req[0] == ("base",) and req[1][0] == "refl" else str(req)) if req is not None else whyreq), where(gft.span))
    # the face is named by its number, or handed over as its own row of the face table
    from .origin_common import row_of_table
    own_face = gst.args[2] == ("param", 3) or row_of_table(gst.args[2]) == ("param", 3)
    oks = is_idx(gst.args[1]) and own_face and is_ref(gst.args[3])
    run.inst("C15.S1", side + "-spherical-triangle", oks, "get_spherical_triangle(index, face=%s, reflect=%s)" % (fmt(gst.args[2]), fmt(gst.args[3])[:40]), where(gst.span))
    a = pc.args
    slot_ft = unq(a[ft_slot])
    slot_st = unq(a[st_slot])
    okslots = slot_ft[0] == "call" and slot_ft[1] == GFT and slot_st[0] == "call" and slot_st[1] == GST
    run.inst("C15.S1", side + "-slots", okslots, "polyhedral map receives face triangle = %s, spherical triangle = %s" % (fmt(slot_ft)[:50], fmt(slot_st)[:50]), where(pc.span))
    run.inst("C15.S1", side + "-unrotated-point", own_pt(a[pt_slot]), "polyhedral map is applied to %s (must be the caller's own point, not the rotated one)" % fmt(a[pt_slot])[:80], where(pc.span))
    return polar_i


def angle_sign(facts, polar, ftm):
    """sign with which origin.angle enters the gamma of a Polar value: returns (+1/-1/None, uses quat field name set)"""
    t = inline_calls(facts, polar)
    # Polar{rho, gamma: Radians{x}}
    g = None
    if t[0] == "agg" and t[4] and "gamma" in t[4]:
        g = t[3][t[4].index("gamma")]
        while g[0] == "agg" and len(g[3]) == 1:
            g = g[3][0]
    if g is None:
        return None
    is_angle = lambda x: x[0] == "field" and str(x[2]) == "0" and x[1][0] == "field" and x[1][2] == "angle"
    a = faffine(g, is_angle)
    if a is None or a[2] is None:
        # angle may appear with another variable: split manually on Add/Sub
        if g[0] == "bin" and g[1] in ("Add", "Sub"):
            if any(is_angle(x) for x in walk(g[3])) and not any(is_angle(x) for x in walk(g[2])):
                return 1 if g[1] == "Add" else -1
            if any(is_angle(x) for x in walk(g[2])) and g[1] == "Add":
                return 1
        return None
    return 1 if a[0] > 0 else -1


def run(ctx):
    facts, run = ctx.facts, ctx.run
    run.explanation = EXPL
    run.rule_text = "C15.S1 SIB selection agreement, S2 SIB frame pairing, S3 PROV squashed-variant discipline"
    for p in (FWD, INV, GFT, GST, CST, PFWD, PINV):
        if p not in facts.fns:
            run.missing("C15", p)
            return
    ff, fi = fn_terms(facts, FWD), fn_terms(facts, INV)
    is_cart_of_input = lambda t: peel(t)[0] == "call" and peel(t)[1].endswith("to_cartesian") and peel(t)[2][0] == ("param", 2)
    pf = selection(ff, run, "forward", PFWD, 1, 3, 2, is_cart_of_input)
    pi = selection(fi, run, "inverse", PINV, 1, 2, 3, lambda t: peel(t) == ("param", 2))
    if pi is not None:
        t = peel(pi)
        run.inst("C15.S1", "inverse-polar-of-input", t[0] == "call" and t[1].endswith("to_polar") and t[2][0] == ("param", 2), "inverse selects by %s" % fmt(t), where(fi.fn["span"]))
    # S2 frame pairing
    if pf is not None:
        sgn = angle_sign(facts, pf, ff)
        run.inst("C15.S2", "forward-minus-angle", sgn == -1, "forward removes the face rotation: gamma %s origin.angle" % {1: "+", -1: "-", None: "?"}[sgn], where(ff.fn["span"]))
        quats = {x[2] for x in walk(pf) if x[0] == "field" and x[2] in ("quat", "inverse_quat")}
        run.inst("C15.S2", "forward-inverse-quat", quats == {"inverse_quat"}, "forward rotates the input with origin.%s" % sorted(quats), where(ff.fn["span"]))
        own = all(any(y == ("param", 3) for y in walk(x)) for x in walk(pf) if x[0] == "call" and x[1].endswith("::index"))
        run.inst("C15.S2", "forward-own-face-frame", own, "the frame is that of the function's own face argument", where(ff.fn["span"]))
    fc = fn_terms(facts, CST)
    from ..query import closures_of, closure_subst
    gv = [(c, None) for c in fc.calls() if c.callee == CRS + "get_vertex"]
    for cp in closures_of(facts, CST):
        gv += [(c, cp) for c in fn_terms(facts, cp).calls() if c.callee == CRS + "get_vertex"]
    frames = []
    for c_, cp_ in gv:
        a_ = c_.args[1]
        if cp_ is not None:
            a_ = closure_subst(facts, cp_, a_)   # the lookup sits in a closure of an iterator chain: read captures in the parent
        frames.append((c_, a_))
    if not frames or any(a_ is None for _c, a_ in frames):
        run.bad("C15.S2", "triangle-frame", "expected the CRS lookups of the triangle corners in compute_spherical_triangle (found %d)" % len(frames), where(fc.fn["span"]))
    if frames and not any(a_ is None for _c2, a_ in frames):
        # every corner lookup (one in a loop / closure, or one per corner when written out) must use the face's own frame
        res = []
        for _c, arg in frames:
            quats = {x[2] for x in walk(arg) if x[0] == "field" and x[2] in ("quat", "inverse_quat")}
            pol = [x for x in walk(arg) if x[0] == "call" and x[1].endswith("polar::Polar::new")]
            sgn = angle_sign(facts, pol[0], fc) if pol else None
            own = all(any(y == ("param", 3) for y in walk(x)) for x in walk(arg) if x[0] == "call" and (x[1].endswith("::index") or (x[1].endswith("::get") and len(x[2]) == 2)))
            res.append((quats == {"quat"} and sgn == 1, own, quats, sgn))
        run.inst("C15.S2", "triangle-plus-angle-quat", all(r[0] for r in res),
                 "spherical triangle corners (%d lookup site(s)): gamma %s origin.angle, rotated with origin.%s" % (
                     len(res), {1: "+", -1: "-", None: "?"}[res[0][3]], sorted(res[0][2])), where(frames[0][0].span))
        run.inst("C15.S2", "triangle-own-face-frame", all(r[1] for r in res), "the frame is that of the requested face", where(frames[0][0].span))
    # every point inserted into the CRS vertex table is either a face axis or a ring point in the face's own frame
    # (theta + origin.angle, rotated with origin.quat) - wherever in the crs module the insertion happens
    nsites = 0
    for p, f_ in sorted(facts.fns.items()):
        if not p.startswith(CRS) or f_["kind"] not in ("Fn", "AssocFn", "Closure") or p in getattr(ctx, "inlined_callees", ()):
            continue
        fx = fn_terms(facts, p)
        for c in fx.calls():
            if c.callee != CRS + "add":
                continue
            arg = c.args[1]
            if any(x[0] == "field" and x[2] == "axis" for x in walk(arg)) and not any(x[0] == "field" and x[2] in ("quat", "inverse_quat", "angle") for x in walk(arg)):
                continue     # a face centre
            nsites += 1
            quats = {x[2] for x in walk(arg) if x[0] == "field" and x[2] in ("quat", "inverse_quat")}
            sph = [x for x in walk(arg) if x[0] == "call" and x[1].endswith("spherical::Spherical::new")]
            sgn = None
            if sph:
                th = inline_calls(facts, sph[0][2][0])
                while th[0] == "agg" and len(th[3]) == 1:
                    th = th[3][0]
                if th[0] == "bin" and th[1] == "Add" and any(x[0] == "field" and x[2] == "angle" for x in walk(th)):
                    sgn = 1
                elif th[0] == "bin" and th[1] == "Sub" and any(x[0] == "field" and x[2] == "angle" for x in walk(th[3])):
                    sgn = -1
            ok = quats == {"quat"} and sgn == 1
            nm = p[len(CRS):]
            run.inst("C15.S2", "crs-" + nm, ok, "CRS::%s: theta %s origin.angle, rotated with origin.%s" % (nm, {1: "+", -1: "-", None: "?"}[sgn], sorted(quats)), where(c.span))
    run.floor("C15.S2", "ring-point insertion sites in the crs module", nsites, 1)
    # inverse_quat = conjugate(quat) wherever an Origin is built
    built = 0
    for path, f in facts.fns.items():
        if f["kind"] not in ("Fn", "AssocFn", "Closure"):
            continue
        if not any(st["k"] == "assign" and st["rv"]["k"] == "aggregate" and st["rv"].get("adt", "").endswith("utils::Origin") for b in f["blocks"] for st in b["stmts"]):
            continue
        fo = fn_terms(facts, path)
        for b in sorted(fo.cfg.reach):
            for i, st in enumerate(fo.blocks[b]["stmts"]):
                if st["k"] == "assign" and st["rv"]["k"] == "aggregate" and st["rv"].get("adt", "").endswith("utils::Origin"):
                    built += 1
                    t = fo.rvalue(st["rv"], b, i)
                    fl = dict(zip(t[4], t[3]))
                    iq, q = fl.get("inverse_quat"), fl.get("quat")
                    ok = False
                    if iq is not None and q is not None:
                        # conjugate(q) however it is spelled: a helper call or the literal [-q0, -q1, -q2, q3]
                        e = inline_calls(facts, iq)
                        if e[0] == "agg" and e[1] == "array" and len(e[3]) == 4:
                            def comp(t_, i_):
                                t_ = peel(t_)
                                return t_[0] in ("cindex", "index") and strip_site(peel(t_[1])) == strip_site(peel(q)) and (t_[2] == i_ or const_int(t_[2]) == i_)
                            ok = all(e[3][i_][0] == "un" and e[3][i_][1] == "Neg" and comp(e[3][i_][2], i_) for i_ in range(3)) and comp(e[3][3], 3)
                    if not ok and iq is not None and q is not None:
                        # field-wise copy of an existing Origin (derived Clone, struct update)
                        a, b = peel(iq), peel(q)
                        ok = a[0] == "field" and a[2] == "inverse_quat" and b[0] == "field" and b[2] == "quat" and strip_site(a[1]) == strip_site(b[1])
                    run.inst("C15.S2", "inverse-quat-is-conjugate@" + path.split("::")[-2], ok, "Origin{quat: %s, inverse_quat: %s}" % (fmt(q)[:40], fmt(iq)[:60]), where(st.get("span")))
    run.floor("C15.S2", "Origin construction sites", built, 1)
    qc = "a5::core::origin::quat_conjugate"
    if qc in facts.fns:
        fq = fn_terms(facts, qc)
        rt = returns_under(fq, {})
        ok = len(rt) == 1 and rt[0][0] == "agg" and len(rt[0][3]) == 4
        if ok:
            e = rt[0][3]
            neg = lambda t, i: t[0] == "un" and t[1] == "Neg" and peel(t[2])[0] in ("index", "cindex") or (t[0] == "un" and t[1] == "Neg")
            ok = all(e[i][0] == "un" and e[i][1] == "Neg" for i in range(3)) and e[3][0] != "un"
        run.inst("C15.S2", "conjugate-negates-vector-part", ok, "quat_conjugate returns %s" % (fmt(rt[0]) if rt else None), where(fq.fn["span"]))
    else:
        run.note("quat_conjugate no longer exists as a function: the conjugate is checked component-wise at the Origin construction sites")
    # S3 squashed discipline
    sq_true = []
    undecided = []
    disp, whyd = gft_dispatch(facts)
    from ..query import ieval as _ie, Undetermined as _Und, assumptions_by_eval as _abe
    for path, f in facts.fns.items():
        if f["kind"] not in ("Fn", "AssocFn", "Closure") or path in getattr(facts, "spliced_helpers", ()):
            continue
        fx = fn_terms(facts, path)
        for c in fx.calls():
            if c.callee != GFT:
                continue
            if disp is None:
                undecided.append((path, whyd))
                continue
            sel, table = disp
            # which selector values can this call pass?  constants are evaluated, anything else ranges over its domain
            import itertools as _it
            doms = []
            for i, d in sel:
                try:
                    doms.append((_ie(fx, c.args[i - 1], {}, {}),))
                except _Und:
                    doms.append(d)
            leafs = {table.get(combo) for combo in _it.product(*doms)}
            if path == CST:
                # the spherical-triangle construction: squashed exactly when reflected
                rq, wq = requested_triangle(facts, fx, c, ("param", 4))
                if rq != {0: ("base",), 1: ("refl", 1)}:
                    undecided.append((path, "compute_spherical_triangle fetches %s" % (rq if rq is not None else wq)))
                sq_true.append((path, c))
            elif ("refl", 1) in leafs:
                # a bool / enum that is not a constant may still never take the squashed value: decide by the reflection flag
                sq_true.append((path, c))
    # (forward / inverse are decided exactly in S1: their request is evaluated as a function of the reflection flag)
    sq_true = [(p, c) for p, c in sq_true if p == CST or p not in (FWD, INV)]
    only = {p for p, _ in sq_true} == {CST} and not undecided
    run.inst("C15.S3", "squashed-only-for-spherical-triangle", only, "squashed face triangles are requested by %s%s" % (
        sorted({p.split("::")[-1] for p, _ in sq_true}), "" if not undecided else "; undecided: %s" % undecided[:2]))
    # S4: closed-form shortcuts are continuous where they switch: both formulas of a threshold-guarded helper agree at the threshold
    from ..query import feval, Undetermined as _U, returns_under as _ru, regime_assumptions as _ra, deep_resolve as _dr
    from ..terms import const_float as _cf
    # the angle helper is found by what it is, not by its name: the function of the polyhedral module that calls f64::acos
    # and chooses between two formulas by comparing one of its parameters with a float constant
    cands = []
    for p_, f_ in sorted(facts.fns.items()):
        if f_["kind"] not in ("Fn", "AssocFn") or not p_.startswith("a5::projections::polyhedral::"):
            continue
        fx = fn_terms(facts, p_)
        if not any(c.callee and c.callee.endswith("<impl f64>::acos") for c in fx.calls()):
            continue
        sws = []
        for b in sorted(fx.cfg.reach):
            t = fx.blocks[b]["term"]
            if t["k"] == "switch":
                d = fx.switch_term(b)
                if d[0] == "bin" and d[1] in ("Lt", "Le", "Gt", "Ge") and d[2][0] == "param" and _cf(d[3]) is not None and fx.tyof(d[2]) == "f64":
                    sws.append((d, _cf(d[3])))
        if sws and f_.get("arg_count", 0) <= 2:
            cands.append((p_, fx, sws))
    if len(cands) != 1:
        run.bad("C15.S4", "safe_acos-continuity", "expected one threshold-guarded acos helper in the polyhedral projection, found %s - cannot decide" % [c[0].split("::")[-1] for c in cands])
    else:
        SA, fs, sw = cands[0]
        XP = sw[0][0][2]
        if len(sw) != 1:
            run.bad("C15.S4", "safe_acos-continuity", "expected one threshold test on the argument, found %d - unrecognised idiom, cannot decide" % len(sw), where(fs.fn["span"]))
        else:
            d, thr = sw[0]
            vals = []
            try:
                for tv in (0, 1):
                    A = {strip_site(d): tv}
                    rs = [_dr(fs, r, A) for r in _ru(fs, A)]
                    if len(rs) != 1:
                        raise _U("several formulas")
                    vals.append(feval(rs[0], {XP: thr}))
                diff = abs(vals[0] - vals[1])
                run.inst("C15.S4", "safe_acos-continuity", diff <= 1e-13 and 1e-4 <= thr <= 1e-2,
                         "at the switch point x = %g the two formulas give %.17g and %.17g (difference %.2e, limit 1e-13: three orders below the 1e-12 round-trip bound; the threshold must stay where the exact formula still has 13 good digits)" % (thr, vals[0], vals[1], diff),
                         where(fs.fn["span"]))
            except _U as e:
                run.bad("C15.S4", "safe_acos-continuity", "cannot evaluate the branch formulas (%s) - unrecognised idiom" % e, where(fs.fn["span"]))
    # S5: the barycentric map differences pair like components of the triangle corners
    from .wrap_common import check_component_pairing
    check_component_pairing(facts, run, "C15.S5", ["a5::core::coordinate_transforms::face_to_barycentric"])
    # S6: the reflection test looks at the azimuth reduced to the sector bisector: whatever the input, the angle handed to
    # the planar conversion lies within half a sector (|beta| <= PI/5).  Decided by interval analysis of the float code.
    import math as _m
    from ..ranges import Engine
    from ..avals import sget, show as _show
    TOFACE = "a5::core::coordinate_transforms::to_face"
    sites6 = []
    eng6 = None
    for p_ in sorted(facts.fns):
        if not p_.startswith("a5::projections::dodecahedron::") or facts.fns[p_]["kind"] not in ("Fn", "AssocFn"):
            continue
        fx = fn_terms(facts, p_)
        tf = [c for c in fx.calls() if c.callee == TOFACE and len(c.args) == 1]
        if not tf:
            continue
        if eng6 is None:
            eng6 = Engine(facts)
        a6 = eng6.default_args(p_)
        eng6.summary(p_, a6)
        c6 = eng6.ctx(p_, a6)
        for c in tf:
            av6 = c6.av(c.args[0], c.block)
            while av6[0] == "r":
                av6 = av6[1]
            g6 = sget(av6, "gamma") if av6[0] == "s" else None
            g6 = sget(g6, "0") if g6 is not None and g6[0] == "s" else g6
            half = _m.pi / 5
            ok6 = g6 is not None and g6[0] == "f" and -half * (1 + 1e-12) <= g6[1] and g6[2] <= half * (1 + 1e-12)
            sites6.append(c)
            run.inst("C15.S6", "reflect-azimuth-within-half-sector:" + p_.split("::")[-1], ok6,
                     "the azimuth whose planar x is compared with the edge distance ranges over %s for arbitrary input (must stay within +-PI/5 = +-%.6f: the distance to the nearest edge is rho*cos(beta) only for the sector-reduced angle)" % (_show(g6) if g6 is not None else "?", half),
                     where(c.span))
    run.floor("C15.S6", "to_face call sites in the dodecahedron projection", len(sites6), 1)
    run.floor("C15", "rule instances", len(run.instances), 19)
