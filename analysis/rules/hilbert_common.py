"""Shared recognisers for the Hilbert-curve code (C06, C12-preconditions, C17)."""
from ..terms import fn_terms, walk, strip_site, is_const, const_int, fmt
from ..query import resolve_under
from ..consts import pyval

S2A = "a5::core::hilbert::s_to_anchor"
S2A_INT = "a5::core::hilbert::s_to_anchor_internal"
IJ2S = "a5::core::hilbert::ij_to_s"
IJ2S_INT = "a5::core::hilbert::ij_to_s_internal"
SHIFT = "a5::core::hilbert::shift_digits"
REVERSE = "a5::core::hilbert::reverse_pattern"
ORIENT = "a5::core::hilbert::Orientation"


def resolve_promoted(facts, t):
    """('promoted', owner, idx) -> the term the promoted body returns"""
    if t[0] != "promoted":
        return t
    path = "%s::promoted[%d]" % (t[1], t[2])
    if path not in facts.fns:
        return t
    ft = fn_terms(facts, path)
    rb = ft.return_blocks()
    if len(rb) != 1:
        return t
    return ft.return_term(rb[0])


def globals_in(facts, t):
    """names of named constants / statics referenced anywhere inside a term (through promoteds)"""
    out = set()
    for x in walk(t):
        if x[0] == "promoted":
            out |= globals_in(facts, resolve_promoted(facts, x))
        elif x[0] == "static":
            out.add(x[1])
        elif x[0] == "const" and x[3]:
            out.add(x[3])
    return out


def walker_roles(facts, internal):
    """For a digit walker: which bool parameter is handed to shift_digits as `invert_j` (4th
    argument) and which one selects the pattern table (5th argument), plus the table chosen
    for each value of the selector.  Roles are found by data flow, not by names."""
    ft = fn_terms(facts, internal)
    calls = [c for c in ft.calls() if c.callee == SHIFT]
    if not calls:
        return None
    res = {"calls": calls, "inv": None, "sel": None, "tables": {}}
    c = calls[0]
    if len(c.args) != 5:
        return None
    inv = c.args[3]
    if inv[0] == "param":
        res["inv"] = inv[1]
    pat = c.args[4]
    nargs = ft.fn["arg_count"]
    for k in range(1, nargs + 1):
        if ft.fn["locals"][k]["ty"] != "bool":
            continue
        r0 = _resolve_deep(ft, pat, {("param", k): 0})
        r1 = _resolve_deep(ft, pat, {("param", k): 1})
        if r0 is None or r1 is None:
            continue
        g0, g1 = globals_in(facts, r0), globals_in(facts, r1)
        if g0 and g1 and g0 != g1:
            res["sel"] = k
            res["tables"] = {0: g0, 1: g1}
    return res


def _resolve_deep(ft, t, assume, depth=0):
    """resolve phis anywhere at the spine of a term (through refs/derefs/casts/calls' first arg)"""
    if depth > 50:
        return None
    if t[0] == "phi":
        r = resolve_under(ft, t, assume)
        if r is None:
            return None
        return _resolve_deep(ft, r, assume, depth + 1)
    if t[0] in ("ref",):
        r = _resolve_deep(ft, t[2], assume, depth + 1)
        return None if r is None else ("ref", t[1], r)
    if t[0] == "deref":
        r = _resolve_deep(ft, t[1], assume, depth + 1)
        return None if r is None else ("deref", r)
    if t[0] == "cast":
        r = _resolve_deep(ft, t[2], assume, depth + 1)
        return None if r is None else ("cast", t[1], r, t[3])
    if t[0] == "call" and t[2]:
        r = _resolve_deep(ft, t[2][0], assume, depth + 1)
        return None if r is None else ("call", t[1], (r,) + tuple(t[2][1:]), t[3])
    return t


def enum_variants(facts, adt_path):
    adt = facts.adts.get(adt_path)
    if not adt:
        return None
    return [(int(v["discr"]), v["name"]) for v in adt["variants"]]


def flag_set(facts, ft, term, enum_param, adt_path=ORIENT):
    """set of variant names for which a bool term (phi of constants controlled by switches on the
    discriminant of parameter `enum_param`) is true; None if not of that shape"""
    vs = enum_variants(facts, adt_path)
    if vs is None:
        return None
    out = set()
    key = strip_site(("discr", ("param", enum_param)))
    for d, name in vs:
        r = term
        if term[0] == "phi":
            r = resolve_under(ft, term, {key: d})
        elif not is_const(term):
            # the flag may be a component of a joined tuple / struct (flags computed together by one match)
            from ..query import deep_resolve
            try:
                r = deep_resolve(ft, term, {key: d})
            except Exception:
                r = None
        if r is None or not is_const(r) or const_int(r) not in (0, 1):
            return None
        if const_int(r) == 1:
            out.add(name)
    return out


def orientation_flags(facts, outer, internal):
    """{'invert_j': set, 'flip_ij': set, 'reverse': set, ...} for s_to_anchor / ij_to_s"""
    roles = walker_roles(facts, internal)
    if roles is None or roles["inv"] is None or roles["sel"] is None:
        return None, "cannot identify invert/select parameters of %s by data flow" % internal
    ft = fn_terms(facts, outer)
    calls = [c for c in ft.calls() if c.callee == internal]
    if len(calls) != 1:
        return None, "%s must call %s exactly once (found %d)" % (outer, internal, len(calls))
    c = calls[0]
    # which parameter of outer is the Orientation?
    op = None
    for k in range(1, ft.fn["arg_count"] + 1):
        if ft.fn["locals"][k]["ty"].endswith("hilbert::Orientation"):
            op = k
    if op is None:
        return None, "no Orientation parameter in %s" % outer
    inv = flag_set(facts, ft, c.args[roles["inv"] - 1], op)
    sel = flag_set(facts, ft, c.args[roles["sel"] - 1], op)
    if inv is None or sel is None:
        return None, "flags handed to %s are not pure functions of the orientation" % internal
    # every other orientation-derived flag in the function
    others = []
    seen = {strip_site(c.args[roles["inv"] - 1]), strip_site(c.args[roles["sel"] - 1])}
    for b in sorted(ft.cfg.reach):
        t = ft.blocks[b]["term"]
        if t["k"] != "switch":
            continue
        d = ft.switch_term(b)
        if d[0] in ("phi", "field") and strip_site(d) not in seen:
            fs = flag_set(facts, ft, d, op)
            if fs is not None:
                seen.add(strip_site(d))
                others.append((b, fs))
    return {"invert_j": inv, "flip_ij": sel, "others": others, "orientation_param": op,
            "call": c, "roles": roles}, None
