"""C06 - cell IDs keep denoting the same place as in the reference release (v0.6.2 = pinned tree).
Decided: value identity of every ID-/place-determining named constant table, of the function-valued
digit->flips table and of the orientation flag sets with /verif/reference/constants.json
(compiler-evaluated values; floats within a provably harmless 1e-15 relative margin).
Not decided: changes to the code that consumes the tables, literals buried in function bodies."""
import json
import os

from ..consts import const_py, flatten
from ..query import fn_table, const_tree
from ..run import VERIF, where
from .hilbert_common import orientation_flags, S2A, S2A_INT, IJ2S, IJ2S_INT

EXPL = ("TAB pin: every named constant that fixes which ID goes with which place (digit-shift patterns, flip "
        "alphabet, lattice unit vectors, quintant orientation layouts, first quintants, face order, face quaternions, "
        "longitude offset, geometric constants, bit-layout constants, authalic series) and the function-valued tables "
        "(quaternary_to_flips, orientation flag sets) are compared with the reference generated from the pinned "
        "release. Integers/enums exact, floats within 1e-15 relative. This decides 'the tables were left alone', a "
        "necessary condition of ID stability; it does not see edits to the code that consumes them.")

PINNED = [
    "a5::core::hilbert::PATTERN", "a5::core::hilbert::PATTERN_FLIPPED", "a5::core::hilbert::YES", "a5::core::hilbert::NO",
    "a5::core::hilbert::FLIP_SHIFT", "a5::core::hilbert::K_POS", "a5::core::hilbert::J_POS", "a5::core::hilbert::K_NEG",
    "a5::core::hilbert::J_NEG", "a5::core::hilbert::ZERO",
    "a5::core::origin::CLOCKWISE_FAN", "a5::core::origin::CLOCKWISE_STEP", "a5::core::origin::COUNTER_STEP",
    "a5::core::origin::COUNTER_JUMP", "a5::core::origin::QUINTANT_ORIENTATIONS_ARRAYS", "a5::core::origin::QUINTANT_FIRST",
    "a5::core::origin::ORIGIN_ORDER",
    "a5::core::dodecahedron_quaternions::QUATERNIONS",
    "a5::core::coordinate_transforms::LONGITUDE_OFFSET",
    "a5::core::constants::PHI", "a5::core::constants::TWO_PI", "a5::core::constants::TWO_PI_OVER_5", "a5::core::constants::PI_OVER_5",
    "a5::core::constants::PI_OVER_10", "a5::core::constants::DIHEDRAL_ANGLE", "a5::core::constants::INTERHEDRAL_ANGLE",
    "a5::core::constants::FACE_EDGE_ANGLE", "a5::core::constants::DISTANCE_TO_EDGE", "a5::core::constants::DISTANCE_TO_VERTEX",
    "a5::core::constants::R_INSCRIBED", "a5::core::constants::R_MIDEDGE", "a5::core::constants::R_CIRCUMSCRIBED",
    "a5::core::serialization::FIRST_HILBERT_RESOLUTION", "a5::core::serialization::MAX_RESOLUTION",
    "a5::core::serialization::HILBERT_START_BIT", "a5::core::serialization::REMOVAL_MASK",
    "a5::core::serialization::ORIGIN_SEGMENT_MASK", "a5::core::serialization::ALL_ONES", "a5::core::serialization::WORLD_CELL",
    "a5::projections::authalic::GEODETIC_TO_AUTHALIC", "a5::projections::authalic::AUTHALIC_TO_GEODETIC",
]
REL = 1e-15
# coefficients of the two authalic sine series: the series value is a latitude in radians (|.| <= pi/2) and each
# coefficient enters it multiplied by a sine, so a coefficient that moves by less than half an ulp of 1.0 cannot move
# the sum by more than its own rounding (a re-derived last coefficient, 4.9e-17, may change in every digit)
ABS_SERIES = 2.0 ** -54
SERIES = ("a5::projections::authalic::GEODETIC_TO_AUTHALIC", "a5::projections::authalic::AUTHALIC_TO_GEODETIC")


def collect(facts):
    """{'consts': {path: value}, 'tables': {...}} from the compiler-evaluated facts"""
    out = {"consts": {}, "tables": {}}
    for p in PINNED:
        v = const_py(facts, p)
        if v is not None:
            out["consts"][p] = v
    q2f = "a5::core::hilbert::quaternary_to_flips"
    if q2f in facts.fns:
        tab = fn_table(facts, q2f, range(0, 4))
        out["tables"]["quaternary_to_flips"] = {str(k): const_tree(t) for k, t in tab.items()}
    for nm, o, i in (("s_to_anchor", S2A, S2A_INT), ("ij_to_s", IJ2S, IJ2S_INT)):
        if o in facts.fns and i in facts.fns:
            r, _e = orientation_flags(facts, o, i)
            if r:
                out["tables"]["orientation_flags:" + nm] = {
                    "invert_j": sorted(r["invert_j"]), "flip_ij": sorted(r["flip_ij"]),
                    "reverse": sorted(sorted(s) for _, s in r["others"])}
    return out


def close(a, b):
    if isinstance(a, bool) or isinstance(b, bool) or isinstance(a, (int, str)) or isinstance(b, (int, str)):
        return a == b
    if isinstance(a, float) and isinstance(b, float):
        if a == b:
            return True
        if a != a or b != b:
            return False
        if b == 0.0:
            return abs(a) <= REL
        return abs(a - b) <= REL * abs(b)
    return a == b


def run(ctx):
    facts, run = ctx.facts, ctx.run
    run.explanation = EXPL
    run.rule_text = "C06.R1 TAB pin: instance = one named constant / function table; compared leaf by leaf with reference/constants.json"
    ref_path = os.path.join(VERIF, "reference", "constants.json")
    ref = json.load(open(ref_path))
    cur = collect(facts)
    run.assume("reference/constants.json was generated by this same driver from the pinned tree d731376 (crate 0.6.2)")
    leaves = 0
    for p, rv in ref["consts"].items():
        if p not in cur["consts"]:
            run.missing("C06.R1", p)
            continue
        a, b = flatten(cur["consts"][p]), flatten(rv)
        if len(a) != len(b):
            run.bad("C06.R1", "pin:" + p, "shape changed: %d leaves, reference has %d" % (len(a), len(b)), where(facts.consts[p]["span"]))
            continue
        diffs = [(ka, va, vb) for (ka, va), (kb, vb) in zip(a, b) if ka != kb or not close(va, vb)]
        if p in SERIES:
            diffs = [(k, va, vb) for k, va, vb in diffs if not (isinstance(va, float) and isinstance(vb, float) and abs(va - vb) <= ABS_SERIES)]
        leaves += len(a)
        if diffs:
            ka, va, vb = diffs[0]
            run.bad("C06.R1", "pin:" + p, "%d of %d leaves differ from the reference release, first at %s: %r (reference %r)%s" % (
                len(diffs), len(a), ka or "value", va, vb,
                " - constant drift beyond the provably harmless margin" if isinstance(va, float) else ""), where(facts.consts[p]["span"]))
        else:
            run.ok("C06.R1", "pin:" + p, "%d leaves identical to the reference release" % len(a), where(facts.consts[p]["span"]), nontrivial=len(a) > 1)
    for name, rv in ref["tables"].items():
        cv = cur["tables"].get(name)
        if cv is None:
            run.missing("C06.R1", "table:" + name)
            continue
        run.inst("C06.R1", "table:" + name, cv == rv, "function-valued table %s = %s (reference %s)" % (name, cv, rv))
    run.extra["leaves_compared"] = leaves
    run.floor("C06.R1", "pinned named constants", len(ref["consts"]), 41)
    run.floor("C06.R1", "pinned function tables", len(ref["tables"]), 3)
