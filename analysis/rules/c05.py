"""C05 - cell-ID codec (bits and hex) is a bijection with the documented layout.
Decided statically: hex writer/reader idiom (R1, R2); layout constants (R3); the symbolic bit layout of
serialize and deserialize per resolution regime, derived from the MIR and compared field by field (R4);
necessary injectivity conditions: distinct marker positions, range guard on the curve position (R5).
Not decided: the bijection as a theorem over all tuples."""
from ..terms import fn_terms, fmt, strip_site, walk, is_const, const_int, const_name
from ..query import (regime_assumptions, returns_under, deep_resolve, is_variant, linear, leaves_under, inline_calls)
from ..consts import const_py
from ..run import where
from .hilbert_common import resolve_promoted

SER = "a5::core::serialization::serialize"
DES = "a5::core::serialization::deserialize"
GETRES = "a5::core::serialization::get_resolution"
HEXW = "a5::core::hex::u64_to_hex"
HEXR = "a5::core::hex::hex_to_u64"
P = "a5::core::serialization::"

EXPL = ("Hex form: u64_to_hex formats exactly its argument with the LowerHex formatter, empty literal template and "
        "default options; hex_to_u64 is from_str_radix(arg, 16) with the error mapped, no defaulting. Bit layout: "
        "from the MIR of serialize/deserialize the symbolic formula of the ID is derived per regime (r=0, r=1, "
        "2<=r<=29) and checked: code field at bit 58 (6 bits, origin resp. 5*origin+rotated segment), digits at "
        "58-2(r-1), marker directly below, guard s < 2^(2(r-1)); the reader uses the same shift form, the 58-bit "
        "mask and the inverse rotation with the same face's first quintant. The bijection over all tuples is NOT "
        "decided here.")


def parse_template(bs):
    """fmt::Arguments byte template -> list of ('lit', bytes) / ('arg', flags-byte, fields)"""
    out, i = [], 0
    while i < len(bs):
        n = bs[i]
        i += 1
        if n == 0:
            return out, i == len(bs)
        if n < 0x80:
            out.append(("lit", bytes(bs[i:i + n])))
            i += n
        elif n == 0x80:
            ln = bs[i] | (bs[i + 1] << 8)
            out.append(("lit", bytes(bs[i + 2:i + 2 + ln])))
            i += 2 + ln
        elif n >= 0xC0:
            fields = {}
            if n & 1:
                fields["flags"] = int.from_bytes(bytes(bs[i:i + 4]), "little"); i += 4
            if n & 2:
                fields["width"] = int.from_bytes(bytes(bs[i:i + 2]), "little"); i += 2
            if n & 4:
                fields["precision"] = int.from_bytes(bytes(bs[i:i + 2]), "little"); i += 2
            if n & 8:
                fields["arg_index"] = int.from_bytes(bytes(bs[i:i + 2]), "little"); i += 2
            out.append(("arg", n, fields))
        else:
            return out, False
    return out, False


def const_bytes(facts, t):
    """python list of ints for a term denoting &[u8; N] constant (through refs/promoteds)"""
    import json
    for x in walk(t):
        if x[0] == "promoted":
            r = const_bytes(facts, resolve_promoted(facts, x))
            if r is not None:
                return r
        if x[0] == "const" and x[1] == "json":
            v = json.loads(x[2])
            from ..consts import pyval
            pv = pyval(v)
            if isinstance(pv, list) and all(isinstance(b, int) for b in pv):
                return pv
    return None


def check_hex_writer(facts, path):
    """list of (ok, key, reason)"""
    res = []
    if path not in facts.fns:
        return [(False, "missing-anchor:" + path, "missing anchor")]
    ft = fn_terms(facts, path)
    rets = [ft.return_term(b) for b in ft.return_blocks()]
    if len(rets) != 1:
        return [(False, "writer-shape", "expected a single return")]
    t = rets[0]
    # peel must_use / format / to_string wrappers down to Arguments::new
    fmtcalls = [x for x in walk(t) if x[0] == "call" and isinstance(x[1], str) and x[1].startswith("std::fmt::Arguments::new")]
    if len(fmtcalls) != 1:
        return [(False, "writer-shape", "unrecognised idiom - cannot decide: result is %s" % fmt(t))]
    fc = fmtcalls[0]
    outer = [x[1] for x in walk(t) if x[0] == "call" and isinstance(x[1], str) and x is not fc and not x[1].startswith("core::fmt::rt::Argument")]
    allowed = {"std::fmt::format", "std::hint::must_use", "alloc::fmt::format"}
    extra = [o for o in outer if o not in allowed]
    res.append((not extra, "writer-no-postprocessing", "formatted string is returned as is" if not extra else "string is post-processed by %s" % extra))
    tpl = const_bytes(facts, fc[2][0])
    if tpl is None:
        res.append((False, "writer-template", "cannot read the format template constant"))
    else:
        parts, okend = parse_template(tpl)
        good = okend and len(parts) == 1 and parts[0][0] == "arg" and parts[0][1] == 0xC0
        res.append((good, "writer-template", "format template %s = %s (must be one default placeholder: no prefix, padding, width or literal text)" % (tpl, parts)))
    args = [x for x in walk(fc[2][1]) if x[0] == "call" and isinstance(x[1], str) and x[1].startswith("core::fmt::rt::Argument")]
    if len(args) != 1:
        res.append((False, "writer-args", "expected exactly one format argument, found %d" % len(args)))
    else:
        a = args[0]
        res.append((a[1].endswith("::new_lower_hex"), "writer-formatter", "argument formatter is %s (must be LowerHex)" % a[1].split("::")[-1]))
        src = a[2][0]
        while src[0] in ("ref", "deref"):
            src = src[2] if src[0] == "ref" else src[1]
        res.append((src == ("param", 1), "writer-argument", "formatted value is %s (must be the parameter itself)" % fmt(src)))
    # the instantiated formatter type must be u64
    insts = [c.inst for c in ft.calls() if c.callee and c.callee.startswith("core::fmt::rt::Argument")]
    res.append((all("<u64>" in i for i in insts) and insts, "writer-width", "formatter instantiated as %s (must be u64)" % insts))
    return res


def check_hex_reader(facts, path):
    res = []
    if path not in facts.fns:
        return [(False, "missing-anchor:" + path, "missing anchor")]
    ft = fn_terms(facts, path)
    rets = [ft.return_term(b) for b in ft.return_blocks()]
    pcs = [c for c in ft.calls() if c.callee and c.callee.endswith("from_str_radix")]
    if len(rets) != 1 or len(pcs) != 1:
        return [(False, "reader-shape", "unrecognised idiom - cannot decide: result is %s" % [fmt(t) for t in rets])]
    if True:
        cand = {strip_site(x): x for b in ft.return_blocks() for x in walk(ft.return_term(b)) if x[0] == "call" and isinstance(x[1], str) and x[1].endswith("from_str_radix")}
        for b in sorted(ft.cfg.reach):
            if ft.blocks[b]["term"]["k"] == "switch":
                for x in walk(ft.switch_term(b)):
                    if x[0] == "call" and isinstance(x[1], str) and x[1].endswith("from_str_radix"):
                        cand[strip_site(x)] = x
        if len(cand) != 1:
            return [(False, "reader-shape", "unrecognised idiom - cannot decide: result is %s" % [fmt(t) for t in rets])]
        pc = list(cand.values())[0]
    res.append((pc[1] == "core::num::<impl u64>::from_str_radix", "reader-width", "parser is %s (must be the u64 one)" % pc[1]))
    src = pc[2][0]
    while src[0] in ("ref", "deref"):
        src = src[2] if src[0] == "ref" else src[1]
    res.append((src == ("param", 1), "reader-argument", "parsed string is %s (must be the whole parameter)" % fmt(src)))
    res.append((const_int(pc[2][1]) == 16, "reader-radix", "radix is %s" % fmt(pc[2][1])))
    # what happens to the Result: only error-mapping combinators / `?` re-wrapping may touch it
    t = rets[0]
    if t[0] == "call":
        wrappers = [x[1] for x in walk(t) if x[0] == "call" and isinstance(x[1], str) and x is not pc]
        okw = {"std::result::Result::map_err"}
        bad = [w for w in wrappers if w not in okw]
        res.append((not bad, "reader-error-propagated",
                    "parse result flows to the caller through %s" % (sorted(set(wrappers)) or "nothing") if not bad else
                    "parse result is post-processed by %s (a default or truncation would hide the error)" % bad))
        return res
    # explicit match on the parse result: Ok(v) => Ok(v) with the parsed value itself, Err(_) => Err(_)
    from ..query import returns_under, is_variant
    d = ("discr", pc)
    oks = returns_under(ft, {strip_site(d): 0})
    errs = returns_under(ft, {strip_site(d): 1})

    def same_value(r):
        if not is_variant(r, "Ok"):
            return False
        v = r[3][0]
        return v[0] == "payload" and v[1] == "Ok" and strip_site(v[2]) == strip_site(pc)
    good = bool(oks) and bool(errs) and all(same_value(r) for r in oks) and all(is_variant(r, "Err") for r in errs)
    res.append((good, "reader-error-propagated",
                "match on the parse result: Ok arm returns %s, Err arm returns %s (must be the parsed value itself / an error)" % (
                    [fmt(r)[:60] for r in oks], ["Err" if is_variant(r, "Err") else fmt(r)[:60] for r in errs])))
    return res


def parts_of(t):
    """flatten Add/BitOr into parts"""
    if t[0] == "bin" and t[1] in ("Add", "BitOr", "AddUnchecked"):
        return parts_of(t[2]) + parts_of(t[3])
    if const_int(t) == 0:
        return []          # `| 0` / `+ 0`: an absent field
    return [t]


def shl_split(t):
    """part -> (value term, shift term) for Shl, else (t, const 0)"""
    if t[0] == "bin" and t[1] in ("Shl", "ShlUnchecked"):
        return t[2], t[3]
    return t, ("const", "int", 0, None, "u32")


def lin_eval(t, sym, val):
    """evaluate a shift-amount term that is linear in `sym` at sym=val; None if other atoms remain"""
    co, k = linear(t)
    s = strip_site(sym)
    tot = k
    for a, c in co.items():
        if a == s:
            tot += c * val
        else:
            return None
    return tot


def lin_in(t, sym):
    """(coef of sym, const) if t is linear in sym only"""
    co, k = linear(t)
    s = strip_site(sym)
    rest = [a for a in co if a != s]
    if rest:
        return None
    return co.get(s, 0), k


def _lookups(t):
    """index terms of every table element read inside t, whichever way the read is spelled (Index::index / get call on a
    Vec, or an indexing projection on a slice)"""
    out = []
    for x in walk(t):
        if x[0] == "call" and isinstance(x[1], str) and (x[1].endswith("::index") or x[1].endswith("::get")) and len(x[2]) == 2:
            out.append(x[2][1])
        elif x[0] == "index" and len(x) == 3:
            out.append(x[2])
    return out


def unwrap_cast(t):
    while t[0] == "cast" and t[1] == "IntToInt":
        t = t[2]
    return t


def run(ctx):
    facts, run = ctx.facts, ctx.run
    run.explanation = EXPL
    run.rule_text = "C05.R1-R5: SIB/PROV on hex writer/reader, TAB on layout constants, symbolic layout of serialize/deserialize per regime"

    # ---- R1 / R2 hex
    for ok, key, why in check_hex_writer(facts, HEXW):
        run.inst("C05.R1", key, ok, why, where(facts.fns[HEXW]["span"]) if HEXW in facts.fns else None)
    for ok, key, why in check_hex_reader(facts, HEXR):
        run.inst("C05.R2", key, ok, why, where(facts.fns[HEXR]["span"]) if HEXR in facts.fns else None)
    # positive controls
    bad = ctx.bad
    for name in ("hex_upper", "hex_padded", "hex_prefixed", "hex_narrow"):
        r = check_hex_writer(bad, "badcrate::" + name)
        run.control("C05.R1", name, any(not ok for ok, _, _ in r), "; ".join(w for ok, _, w in r if not ok))
    for name in ("unhex_default", "unhex_narrow", "unhex_trim"):
        r = check_hex_reader(bad, "badcrate::" + name)
        run.control("C05.R2", name, any(not ok for ok, _, _ in r), "; ".join(w for ok, _, w in r if not ok))

    # ---- R3 constants
    def c(n):
        return const_py(facts, P + n)
    hsb, first, mask, osm, world, maxres = c("HILBERT_START_BIT"), c("FIRST_HILBERT_RESOLUTION"), c("REMOVAL_MASK"), c("ORIGIN_SEGMENT_MASK"), c("WORLD_CELL"), c("MAX_RESOLUTION")
    for n, v in (("HILBERT_START_BIT", hsb), ("FIRST_HILBERT_RESOLUTION", first), ("REMOVAL_MASK", mask), ("ORIGIN_SEGMENT_MASK", osm), ("WORLD_CELL", world), ("MAX_RESOLUTION", maxres)):
        if v is None:
            run.missing("C05.R3", P + n)
    if None in (hsb, first, mask, osm, world, maxres):
        return
    run.inst("C05.R3", "code-field-width", hsb == 64 - 6, "HILBERT_START_BIT = %d (64 - 6 code bits)" % hsb)
    run.inst("C05.R3", "removal-mask", mask == (1 << hsb) - 1, "REMOVAL_MASK = %#x == 2^HSB - 1" % mask)
    run.inst("C05.R3", "origin-segment-mask", osm == ((1 << 64) - 1) ^ mask, "ORIGIN_SEGMENT_MASK = %#x == !REMOVAL_MASK" % osm)
    run.inst("C05.R3", "first-hilbert", first == 2, "FIRST_HILBERT_RESOLUTION = %d" % first)
    run.inst("C05.R3", "world-cell", world == 0, "WORLD_CELL = %d" % world)
    run.inst("C05.R3", "codes-fit", 12 * 5 <= (1 << (64 - hsb)), "12*5 = 60 codes fit in %d bits" % (64 - hsb))
    top = 29
    run.inst("C05.R3", "digits-fit", 2 * (top - first + 1) + 1 <= hsb, "2*(%d-%d+1)+1 = %d bits of digits+marker fit below bit %d" % (top, first, 2 * (top - first + 1) + 1, hsb))

    # ---- R4 writer layout
    for p in (SER, DES, GETRES):
        if p not in facts.fns:
            run.missing("C05.R4", p)
            return
    ft = fn_terms(facts, SER)
    res_w = ("field", ("deref", ("param", 1)), "resolution")
    fld = lambda n: ("field", ("deref", ("param", 1)), n)
    w_digit_shift = None
    marker_pos = {}
    for lo, hi, nm in ((0, 0, "r=0"), (1, 1, "r=1"), (2, 29, "2<=r<=29")):
        A = regime_assumptions(ft, res_w, lo, hi)
        oks = [deep_resolve(ft, t, A) for t in returns_under(ft, A) if is_variant(t, "Ok")]
        if len(oks) != 1:
            run.bad("C05.R4", "writer[%s]" % nm, "expected one Ok formula in regime %s, found %d - unrecognised shape, cannot decide" % (nm, len(oks)))
            continue
        val = oks[0][3][0]
        parts = [shl_split(p) for p in parts_of(val)]
        code = [(v, k) for v, k in parts if lin_in(k, res_w) == (0, hsb)]
        marker = [(v, k) for v, k in parts if const_int(unwrap_cast(v)) == 1 and lin_in(k, res_w) is not None and lin_in(k, res_w) != (0, hsb)]
        digit = [(v, k) for v, k in parts if (v, k) not in code and (v, k) not in marker]
        where_ser = where(facts.fns[SER]["span"])
        ok_code = len(code) == 1
        # code value
        if ok_code:
            cv = unwrap_cast(code[0][0])
            if lo == 0:
                good = strip_site(cv) == strip_site(fld("origin_id"))
                run.inst("C05.R4", "writer-code[%s]" % nm, good, "code field = %s << %d (must be the face number)" % (fmt(cv), hsb), where_ser)
            else:
                co, k = linear(cv)
                o = strip_site(fld("origin_id"))
                rems = [a for a in co if a[0] == "bin" and a[1] == "Rem"]
                good = k == 0 and co.get(o) == 5 and len(rems) == 1 and co[rems[0]] == 1 and len(co) == 2 and const_int(rems[0][3]) == 5
                why = "code field = %s << %d" % (fmt(cv), hsb)
                if good:
                    ico, ik = linear(rems[0][2])
                    seg = strip_site(fld("segment"))
                    fq = [a for a in ico if a[0] == "field" and a[2] == "first_quintant"]
                    good = ico.get(seg) == 1 and len(fq) == 1 and ico[fq[0]] == -1 and ik % 5 == 0 and ik >= 5 and len(ico) == 2
                    if good:
                        # the first quintant must be that of the cell's own face
                        # (an accessor such as `A5Cell::origin(cell)` is read through to the table lookup it performs)
                        fqt = inline_calls(facts, fq[0])
                        idx = _lookups(fqt)
                        good = len(idx) == 1 and strip_site(unwrap_cast(idx[0])) == o
                        why += " ; rotation (segment + %d - first_quintant[origin_id]) mod 5" % ik
                run.inst("C05.R4", "writer-code[%s]" % nm, good, why + " (must be 5*face + (segment - first_quintant[face]) mod 5)", where_ser)
        else:
            run.bad("C05.R4", "writer-code[%s]" % nm, "no unique part shifted by HILBERT_START_BIT=%d in %s" % (hsb, fmt(val)), where_ser)
        # marker
        if len(marker) != 1:
            run.bad("C05.R4", "writer-marker[%s]" % nm, "no unique marker part (1 << k) in %s" % fmt(val), where_ser)
            continue
        mcoef = lin_in(marker[0][1], res_w)
        if lo < 2:
            pos = mcoef[0] * lo + mcoef[1]
            marker_pos[lo] = pos
            run.inst("C05.R4", "writer-marker[%s]" % nm, pos == hsb - 1 - lo and not digit,
                     "marker at bit %d (documented: %d), no digit field" % (pos, hsb - 1 - lo), where_ser)
        else:
            for r in range(2, 30):
                marker_pos[r] = mcoef[0] * r + mcoef[1]
            if len(digit) != 1:
                run.bad("C05.R4", "writer-digits[%s]" % nm, "expected one digit part, found %d in %s" % (len(digit), fmt(val)), where_ser)
                continue
            dv, dk = digit[0]
            dcoef = lin_in(dk, res_w)
            w_digit_shift = dcoef
            run.inst("C05.R4", "writer-digits[%s]" % nm, strip_site(unwrap_cast(dv)) == strip_site(fld("s")) and dcoef == (-2, hsb + 2),
                     "digit field = %s << (%s*r + %s) (documented: s << (58 - 2(r-1)) = (-2r + 60))" % (fmt(dv), dcoef and dcoef[0], dcoef and dcoef[1]), where_ser)
            run.inst("C05.R4", "writer-marker[%s]" % nm, dcoef is not None and mcoef == (dcoef[0], dcoef[1] - 1),
                     "marker shift %s*r + %s is exactly one below the digit shift" % mcoef, where_ser)
            # R5: range guard on s on the path to Ok
            rb = [b for b in ft.return_blocks()]
            guards = []
            for b in sorted(ft.cfg.reach):
                t = ft.blocks[b]["term"]
                if t["k"] != "switch":
                    continue
                d = ft.switch_term(b)
                if d[0] == "bin" and d[1] in ("Ge", "Gt", "Lt", "Le") and any(strip_site(x) == strip_site(fld("s")) for x in walk(d)):
                    guards.append((b, d))
            okg = False
            whyg = "no comparison of s with a power of two found"
            for b, d in guards:
                dr = deep_resolve(ft, d, A)
                op, x, y = dr[1], dr[2], dr[3]
                if op == "Ge" and strip_site(unwrap_cast(x)) == strip_site(fld("s")) and y[0] == "bin" and y[1] == "Shl" and const_int(unwrap_cast(y[2])) == 1:
                    hb = lin_in(y[3], res_w)
                    # Ok formula must be reached only through the false edge
                    Afalse = dict(A)
                    Afalse[strip_site(d)] = 1
                    oks_when_too_big = [t for t in returns_under(ft, Afalse) if is_variant(t, "Ok")]
                    okg = hb == (2, -2) and dcoef is not None and hb[0] + dcoef[0] == 0 and hb[1] + dcoef[1] == hsb and not oks_when_too_big
                    whyg = "guard s >= 1 << (%s*r + %s) returns Err; digit shift + width = %s (must be %d); Ok reachable when guard fires: %s" % (
                        hb and hb[0], hb and hb[1], (hb[1] + dcoef[1]) if hb and dcoef else None, hsb, bool(oks_when_too_big))
            run.inst("C05.R5", "position-guard", okg, whyg, where_ser)
    # R5 marker positions injective and below the code field
    if len(marker_pos) == 30:
        vals = list(marker_pos.values())
        run.inst("C05.R5", "marker-injective", len(set(vals)) == 30 and all(0 <= v < hsb for v in vals),
                 "marker bit positions for r=0..29 are %s: pairwise distinct and below bit %d" % (vals, hsb))
    # resolution limit accepted by the writer vs. the layout capacity
    # (r must satisfy 2(r-1)+1 <= 58, i.e. r <= 29; accepting more makes the marker shift underflow)

    # ---- R4 reader layout
    fd = fn_terms(facts, DES)
    res_r = ("call", GETRES, (("param", 1),))
    where_des = where(facts.fns[DES]["span"])
    code_r = ("cast", "IntToInt", ("bin", "Shr", ("param", 1), ("const", "int", hsb, None, "i32")), "usize")
    for lo, hi, nm in ((0, 0, "r=0"), (1, 1, "r=1"), (2, 29, "2<=r<=29")):
        A = regime_assumptions(fd, res_r, lo, hi)
        oks = [deep_resolve(fd, t, A) for t in returns_under(fd, A) if is_variant(t, "Ok")]
        if len(oks) != 1 or oks[0][3][0][0] != "agg":
            run.bad("C05.R4", "reader[%s]" % nm, "expected one Ok(A5Cell{..}) formula in regime %s - unrecognised shape, cannot decide" % nm, where_des)
            continue
        cell = oks[0][3][0]
        names = cell[4]
        f = dict(zip(names, cell[3]))
        # code extraction
        def is_code(t):
            t = unwrap_cast(t)
            return t[0] == "bin" and t[1] == "Shr" and t[2] == ("param", 1) and const_int(t[3]) == hsb
        o = unwrap_cast(f["origin_id"])
        if lo == 0:
            run.inst("C05.R4", "reader-code[%s]" % nm, is_code(o) and const_int(f["segment"]) == 0, "origin = %s, segment = %s (must be id >> %d, 0)" % (fmt(o), fmt(f["segment"]), hsb), where_des)
        else:
            okd = o[0] == "bin" and o[1] == "Div" and is_code(o[2]) and const_int(o[3]) == 5
            sg = f["segment"]
            oks_ = False
            why = "segment = %s" % fmt(sg)
            if sg[0] == "bin" and sg[1] == "Rem" and const_int(sg[3]) == 5:
                ico, ik = linear(sg[2], through_casts=False)
                fq = [a for a in ico if a[0] == "field" and a[2] == "first_quintant"]
                codes = [a for a in ico if is_code(a)]
                if len(fq) == 1 and len(codes) == 1 and ico[fq[0]] == 1 and ico[codes[0]] == 1 and ik % 5 == 0 and len(ico) == 2:
                    idx = _lookups(fq[0])
                    oks_ = len(idx) == 1 and strip_site(unwrap_cast(idx[0])) == strip_site(o) if okd else False
                    why = "segment = (code + first_quintant[code/5]) mod 5 : inverse of the writer's rotation for the same face"
            run.inst("C05.R4", "reader-code[%s]" % nm, okd and oks_, "origin = %s ; %s" % (fmt(o), why), where_des)
        # bounds check of the face number before it is used
        if lo >= 2:
            s = f["s"]
            oks_ = s[0] == "bin" and s[1] == "Shr" and s[2][0] == "bin" and s[2][1] == "BitAnd"
            why = "s = %s" % fmt(s)
            if oks_:
                m = s[2]
                mk = [x for x in (m[2], m[3]) if const_int(x) is not None]
                base = [x for x in (m[2], m[3]) if x == ("param", 1)]
                sh = lin_in(s[3], res_r)
                oks_ = len(mk) == 1 and const_int(mk[0]) == (1 << hsb) - 1 and len(base) == 1 and sh == w_digit_shift
                why = "s = (id & %#x) >> (%s*r + %s); writer shifts by (%s*r + %s)" % (const_int(mk[0]) if mk else 0, sh and sh[0], sh and sh[1], w_digit_shift and w_digit_shift[0], w_digit_shift and w_digit_shift[1])
            run.inst("C05.R4", "reader-digits[%s]" % nm, oks_, why, where_des)
        else:
            run.inst("C05.R4", "reader-digits[%s]" % nm, const_int(f["s"]) == 0, "s = %s below the first curve resolution" % fmt(f["s"]), where_des)
        run.inst("C05.R4", "reader-resolution[%s]" % nm, strip_site(f["resolution"]) == strip_site(res_r), "resolution field = %s" % fmt(f["resolution"]), where_des)
    # world cell regime
    A = regime_assumptions(fd, res_r, -1, -1)
    oks = [deep_resolve(fd, t, A) for t in returns_under(fd, A)]
    run.inst("C05.R4", "reader[r=-1]", len(oks) == 1 and is_variant(oks[0], "Ok"), "resolution -1 decodes to %s" % (fmt(oks[0]) if oks else None), where_des)
    A = regime_assumptions(ft, res_w, -1, -1)
    oks = [deep_resolve(ft, t, A) for t in returns_under(ft, A)]
    run.inst("C05.R4", "writer[r=-1]", len(oks) == 1 and is_variant(oks[0], "Ok") and const_int(oks[0][3][0]) == world, "resolution -1 encodes to %s" % (fmt(oks[0]) if oks else None), where_ser)
    run.floor("C05", "rule instances", len(run.instances), 35)
