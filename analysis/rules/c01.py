"""C01 - point lookup returns a cell of the requested resolution that contains the point.
Decided: R1 every successful result is serialize(estimate) of an estimate whose resolution field is the
`resolution` argument (or the world cell under resolution == -1); R2 the early return is taken only when the
containment measure of the very estimate being returned, evaluated at the *query* point, is positive; R3 the
fallback returns the recorded estimate with maximal containment measure; R4 one curve depth everywhere.
Not decided: that the 25-probe search always reaches the containing cell; edge band; periodicity; poles."""
from ..terms import fn_terms, fmt, strip_site, walk, const_int, const_float
from ..query import loops_of, returns_under, is_variant, linear, pushes_to, mutators_of, ref_key, ieval, Undetermined
from ..consts import const_py
from ..run import where
from .cell_common import *

IJ2S = "a5::core::hilbert::ij_to_s"
S2A = "a5::core::hilbert::s_to_anchor"
GPV = "a5::core::tiling::get_pentagon_vertices"

EXPL = ("PROV/GUARD/SIB rules on lonlat_to_cell / lonlat_to_estimate / get_pentagon: exact-resolution data flow, "
        "containment-guarded early return evaluated at the query point, arg-max fallback over (estimate, measure) "
        "pairs recorded for the same estimate, and a single curve depth resolution - FIRST_HILBERT_RESOLUTION + 1 in "
        "ij_to_s, the lattice scale 2^h, s_to_anchor and get_pentagon_vertices. Whether the search reaches the "
        "containing cell for every point is NOT decided (numerical, over a continuum).")


def est_of(t, point=None):
    """t == payload(Ok, lonlat_to_estimate(point, param2))"""
    t = peel(t)
    if t[0] != "payload" or t[1] != "Ok" or t[2][0] != "call" or t[2][1] != EST:
        return False
    a = t[2][2]
    if a[1] != ("param", 2):
        return False
    return point is None or strip_site(a[0]) == strip_site(point)


def run(ctx):
    facts, run = ctx.facts, ctx.run
    run.explanation = EXPL
    run.rule_text = "C01.R1 PROV, R2 GUARD, R3 SIB/PROV arg-max idiom, R4 SIB depth forms"
    for p in (L2C, EST, GETP, CONT, SER):
        if p not in facts.fns:
            run.missing("C01", p)
            return
    ft = fn_terms(facts, L2C)
    w = where(facts.fns[L2C]["span"])
    first = const_py(facts, "a5::core::serialization::FIRST_HILBERT_RESOLUTION")
    # ---- R1: estimate carries the requested resolution
    fe = fn_terms(facts, EST)
    oks = [t for t in returns_under(fe, {}) if is_variant(t, "Ok")]
    okr = bool(oks)
    for t in oks:
        cell = t[3][0]
        f = dict(zip(cell[4], cell[3])) if cell[0] == "agg" else {}
        okr = okr and f.get("resolution") == ("param", 2)
    run.inst("C01.R1", "estimate-resolution", okr, "every A5Cell returned by lonlat_to_estimate has resolution = its `resolution` argument (%d return sites)" % len(oks), where(facts.fns[EST]["span"]))
    rets = returns_under(ft, {})
    succ = [t for t in rets if not (t[0] == "call" and t[1].endswith("::from_residual"))]
    cells_key = None
    fallback = None
    fld_e, fld_d = "0", "1"
    nres = 0
    for t in succ:
        if is_variant(t, "Err"):
            continue
        if is_variant(t, "Ok"):
            v = t[3][0]
            okw = const_int(v) == 0
            # must be under resolution == -1
            run.inst("C01.R1", "world-cell-result", okw, "constant result %s" % fmt(v), w)
            continue
        if t[0] == "call" and t[1] == SER:
            a = peel(t[2][0])
            if est_of(a):
                run.ok("C01.R1", "result:estimate#%d" % nres, "result is serialize(%s)" % fmt(a)[:60], w)
                nres += 1
                continue
            # fallback: element of the recorded vector
            if a[0] == "field":
                # (the estimate component of a recorded pair: slot 0 of a tuple or a named field of a private struct)
                base = peel(a[1])
                if base[0] == "call" and base[1].endswith("::index"):
                    fld_e = a[2]
                    cells_key = ref_key(base[2][0]) or (("_%d" % peel(base[2][0])[1]) if peel(base[2][0])[0] == "escaped" else None)
                    fallback = (t, base)
                    continue
        run.bad("C01.R1", "result:other#%d" % nres, "result %s is not serialize(estimate) of the requested resolution" % fmt(t)[:160], w)
        nres += 1
    # world cell only for resolution == -1: in the regime 0..29 no constant result is feasible
    from ..query import regime_assumptions
    A = regime_assumptions(ft, ("param", 2), 0, 29)
    consts_in_range = [t for t in returns_under(ft, A) if is_variant(t, "Ok")]
    run.inst("C01.R1", "no-constant-result-for-0..29", not consts_in_range, "constant Ok results feasible for resolution in 0..29: %s" % [fmt(t) for t in consts_in_range], w)
    # ---- R2: early return guard
    early = [c for c in ft.calls() if c.callee == SER and any(d[0] == "bin" and d[1] in ("Gt", "Ge", "Lt", "Le") for d, *_ in ft.conditions(c.block)
                                                             if any(x[0] == "call" and x[1] == CONT for x in walk(d)))]
    if len(early) != 1:
        run.bad("C01.R2", "early-return", "expected one serialize guarded by a containment comparison, found %d" % len(early), w)
    else:
        c = early[0]
        e = peel(c.args[0])
        g = [(d, vals, other, excl) for d, vals, other, excl, _b in ft.conditions(c.block) if any(x[0] == "call" and x[1] == CONT for x in walk(d))][0]
        d = g[0]
        taken_true = (g[2] and 0 in g[3]) or (g[1] and 0 not in g[1])
        lhs, rhs, op = d[2], d[3], d[1]
        if op in ("Lt", "Le"):
            lhs, rhs, op = rhs, lhs, {"Lt": "Gt", "Le": "Ge"}[op]
        meas = peel(lhs)
        okm = meas[0] == "payload" and meas[2][0] == "call" and meas[2][1] == CONT
        same = okm and strip_site(peel(meas[2][2][0])) == strip_site(e)
        qpt = okm and meas[2][2][1] == ("param", 1)
        thr = const_float(rhs)
        run.inst("C01.R2", "early-return-guard", bool(okm and taken_true and op == "Gt" and thr == 0.0), "early return under %s %s %s" % (fmt(lhs)[:80], op, fmt(rhs)), where(c.span))
        run.inst("C01.R2", "guard-tests-returned-estimate", bool(same), "containment is evaluated for %s, returned estimate is %s" % (fmt(meas[2][2][0])[:70] if okm else "?", fmt(e)[:70]), where(c.span))
        run.inst("C01.R2", "guard-tests-query-point", bool(qpt), "containment is evaluated at %s (must be the lookup's own point, not the probe sample)" % (fmt(meas[2][2][1]) if okm else "?"), where(c.span))
    # ---- R3: fallback arg-max
    if fallback is None or cells_key is None:
        run.bad("C01.R3", "fallback", "no fallback of the form serialize(&cells[k].0) found - unrecognised idiom, cannot decide", w)
    else:
        t, base = fallback
        idx = base[2][1]
        ps = pushes_to(ft, cells_key)
        okp = len(ps) == 1
        if okp:
            v = peel(ps[0].args[1])
            okp = v[0] == "agg" and v[1] in ("tuple", "adt") and len(v[3]) == 2
            names_ = list(v[4]) if okp and v[4] and len(v[4]) == 2 else ["0", "1"]
            ie = names_.index(str(fld_e)) if okp and str(fld_e) in names_ else None
            okp = okp and ie is not None
            if okp:
                fld_d = names_[1 - ie]
                e, dist = peel(v[3][ie]), peel(v[3][1 - ie])
                okp = est_of(e) and dist[0] == "payload" and dist[2][0] == "call" and dist[2][1] == CONT \
                    and strip_site(peel(dist[2][2][0])) == strip_site(e) and dist[2][2][1] == ("param", 1)
        run.inst("C01.R3", "recorded-pairs", bool(okp), "the fallback list records (estimate, containment(estimate, query point)) for the same estimate", w)
        sorts = [c for c in mutators_of(ft, cells_key) if c.callee and ("sort" in c.callee.split("::")[-1])]
        order = None
        why = "no sort of the fallback list"
        if len(sorts) == 1 and sorts[0].callee.endswith("::sort_by"):
            clo = [x for x in walk(sorts[0].args[1]) if x[0] == "agg" and x[1] == "closure"]
            if clo:
                fc = fn_terms(facts, clo[0][2])
                cmpc = [c for c in fc.calls() if c.callee and (c.callee.endswith("::partial_cmp") or c.callee.endswith("::total_cmp") or c.callee.endswith("::cmp"))]
                if len(cmpc) == 1:
                    x, y = peel(cmpc[0].args[0]), peel(cmpc[0].args[1])

                    def side(z):
                        if z[0] == "field" and str(z[2]) == str(fld_d):
                            b = peel(z[1])
                            if b[0] == "param":
                                return b[1]
                        return None
                    sx, sy = side(x), side(y)
                    if sx == 2 and sy == 3:
                        order = "asc"
                    elif sx == 3 and sy == 2:
                        order = "desc"
                    why = "sort_by compares %s with %s -> %s" % (fmt(x), fmt(y), order)
        i = const_int(idx)
        okord = (order == "desc" and i == 0)
        if order == "asc":
            okord = idx[0] == "bin" and idx[1] == "Sub"  # len - 1
        after = len(sorts) == 1 and ft.cfg.dominates(sorts[0].block, [c for c in ft.calls() if c.callee == SER and strip_site(("call", SER, tuple(c.args))) == strip_site(t)[:3]][0].block) if sorts else False
        run.inst("C01.R3", "fallback-is-argmax", bool(okord and after), why + "; element %s is returned" % fmt(idx), w)
    # ---- R4 depth forms
    forms = {}

    def form(t, sym):
        t2 = t
        while t2[0] == "cast":
            t2 = t2[2]
        co, k = linear(t2)
        return (co.get(strip_site(sym), 0), k) if len(co) == 1 and strip_site(sym) in co else None
    for c in fe.calls():
        if c.callee == IJ2S:
            forms["lonlat_to_estimate: ij_to_s depth"] = form(c.args[1], ("param", 2))
        if c.callee and c.callee.endswith("::powi") and const_float(c.args[0]) == 2.0:
            forms["lonlat_to_estimate: lattice scale exponent"] = form(c.args[1], ("param", 2))
    fg = fn_terms(facts, GETP)
    resf = ("field", ("deref", ("param", 1)), "resolution")
    for c in fg.calls():
        if c.callee == S2A:
            forms["get_pentagon: s_to_anchor depth"] = form(c.args[1], resf)
        if c.callee == GPV:
            forms["get_pentagon: get_pentagon_vertices exponent"] = form(c.args[0], resf)
    want = (1, 1 - first)
    run.floor("C01.R4", "depth sites", len(forms), 4)
    for nm, f in sorted(forms.items()):
        run.inst("C01.R4", "depth:" + nm, f == want, "%s = %s*resolution + %s (must be resolution - FIRST_HILBERT_RESOLUTION + 1 = (1, %d))" % (nm, f and f[0], f and f[1], 1 - first), w)
    # ---- R6: probes are de-duplicated by an injective key: the serialized ID of the very estimate that may be skipped
    sets = [c for c in ft.calls() if c.callee and ("HashSet" in (c.inst or "") or "hash_set" in c.callee or "BTreeSet" in (c.inst or ""))
            and c.callee.split("::")[-1] in ("insert", "contains") and len(c.args) == 2]
    if sets:
        badk = []
        for c in sets:
            k = peel(c.args[1])
            okk = k[0] == "payload" and k[1] == "Ok" and k[2][0] == "call" and k[2][1] == SER and est_of(peel(k[2][2][0]))
            if not okk:
                badk.append(fmt(k)[:70])
        run.inst("C01.R6", "dedup-key-is-cell-id", not badk,
                 "probe estimates are skipped as duplicates by %s" % ("their serialized cell ID (injective)" if not badk else "a key that is not the serialized ID: %s - distinct cells may collide and the containing one be skipped" % badk[:2]), w)
    # ---- R5: the point-in-pentagon test classifies by the sign of the cross product: threshold exactly 0
    CP = "a5::geometry::pentagon::PentagonShape::contains_point"
    if CP not in facts.fns:
        run.missing("C01.R5", CP)
    else:
        fc = fn_terms(facts, CP)
        tests = []
        for b in sorted(fc.cfg.reach):
            t = fc.blocks[b]["term"]
            if t["k"] != "switch":
                continue
            d = fc.switch_term(b)
            if d[0] == "bin" and d[1] in ("Lt", "Le", "Gt", "Ge") and (fc.tyof(d[2]) in ("f64", "f32")):
                # the classification test: compares a product-difference (cross product) with a constant
                side = [x for x in (d[2], d[3]) if const_float(x) is not None]
                other = [x for x in (d[2], d[3]) if const_float(x) is None]
                if len(side) == 1 and len(other) == 1 and other[0][0] == "bin" and other[0][1] == "Sub":
                    tests.append((const_float(side[0]), d))
        okz = len(tests) == 1 and tests[0][0] == 0.0
        run.inst("C01.R5", "containment-threshold-zero", okz,
                 "contains_point compares the edge cross product with %s (must be exactly 0: the product scales with 4^-resolution, so any absolute tolerance admits every nearby cell at fine resolutions)" % [t[0] for t in tests],
                 where(fc.fn["span"]))
    # ---- R7: the lookup rejects no admissible point.  Under the property's own domain (latitude in [-90, 90], any finite
    # longitude, resolution 0..29) no explicitly constructed Err in lonlat_to_cell / lonlat_to_estimate is reachable
    # (interval analysis over that domain; errors handed up from callees are the callees' business).
    from ..ranges import Engine
    from ..avals import S as _S, F as _F, I as _I
    eng7 = Engine(facts)
    dom = (_S({"latitude": _S({"0": _F(-90.0, 90.0)}), "longitude": _S({"0": _F(-1.7e308, 1.7e308)})}), _I(0, 29))
    lty = facts.fns[L2C]["locals"][1]["ty"]
    live_err = []
    nerr = 0
    if not lty.endswith("lonlat::LonLat") or facts.fns[L2C]["arg_count"] != 2:
        run.bad("C01.R7", "no-rejection-in-domain", "lonlat_to_cell no longer takes (LonLat, resolution): %s - cannot state the domain" % lty, w)
    else:
        eng7.summary(L2C, dom)
        for key7, c7 in list(eng7.ctxs.items()):
            if len(key7) != 2 or key7[0] not in (L2C, EST):
                continue
            # only the lookup under the stated domain and the estimates it asks for (the engine may hold other contexts
            # of the same functions, e.g. with unconstrained arguments for a struct-field invariant)
            if key7[0] == L2C and key7 != (L2C, dom):
                continue
            if key7[0] == EST and not any((cp_, ca_) == (L2C, dom) for cp_, ca_, _s in eng7.callers.get(key7, ())):
                continue
            f7 = c7.ft
            for b7 in sorted(f7.cfg.reach):
                if f7.blocks[b7].get("cleanup"):
                    continue
                for st7 in f7.blocks[b7]["stmts"]:
                    rv7 = st7.get("rv") or {}
                    if st7["k"] == "assign" and rv7.get("k") == "aggregate" and rv7.get("agg") == "adt" and str(rv7.get("adt", "")).endswith("result::Result") and rv7.get("variant") == "Err":
                        # an error handed on from a callee (`Err(e) => Err(e)`, which is also what `?`-free combinators such
                        # as and_then are written out as) is the callee's business
                        t7 = f7.rvalue(rv7, b7, f7.blocks[b7]["stmts"].index(st7))
                        if t7[0] == "agg" and t7[3] and any(x[0] == "payload" and x[1] == "Err" for x in walk(t7[3][0])):
                            continue
                        nerr += 1
                        if c7.block_live(b7):
                            live_err.append("%s:%s" % (key7[0].split("::")[-1], (st7.get("span") or {}).get("line")))
        run.inst("C01.R7", "no-rejection-in-domain", not live_err,
                 "%d explicit error results in lonlat_to_cell / lonlat_to_estimate, reachable for latitude in [-90,90], finite longitude, resolution 0..29: %s" % (nerr, sorted(set(live_err)) or "none"), w)

    # ---- R8: every probe of the spiral is looked at: the probe list gets one entry per spiral index (no entry is filtered
    # out by its coordinates - a query given as lon +- 360 must see the same neighbourhood) and every entry is estimated
    from ..query import every_iteration as _ev
    lps8 = [l for l in loops_of(ft) if l.next and l.item is not None]
    est_loops = []
    for l in lps8:
        for c in ft.calls():
            if c.callee == EST and c.block in l.own and c.args and strip_site(peel(c.args[0])) == strip_site(l.item):
                est_loops.append((l, c))
    if len(est_loops) != 1:
        run.bad("C01.R8", "probes-unfiltered", "expected one loop estimating every probe, found %d - unrecognised idiom, cannot decide" % len(est_loops), w)
    else:
        l8, c8 = est_loops[0]
        why8 = None
        if not _ev(ft, l8, c8.block):
            why8 = "lonlat_to_estimate is not called for every probe of the list"
        FILT = ("filter", "filter_map", "take_while", "skip_while", "step_by", "skip", "take", "dedup", "retain", "flat_map")
        src8 = l8.source
        names8 = [x[1].split("::")[-1] for x in walk(src8) if x[0] == "call" and isinstance(x[1], str)] if src8 is not None else ["?"]
        if why8 is None and any(n in FILT for n in names8):
            why8 = "the probe sequence passes through %s" % sorted(set(n for n in names8 if n in FILT))
        base8 = src8
        while base8 is not None and base8[0] in ("ref", "deref", "call") and not (base8[0] == "call" and not base8[2]):
            base8 = base8[2] if base8[0] == "ref" else (base8[1] if base8[0] == "deref" else base8[2][0])
        if why8 is None and base8 is not None and base8[0] in ("phi", "escaped"):
            key8 = "_%d" % (base8[3] if base8[0] == "phi" else base8[1])
            for pc in pushes_to(ft, key8):
                if not pc.callee.endswith("Vec::push"):
                    ns = [x[1].split("::")[-1] for a in pc.args for x in walk(a) if x[0] == "call" and isinstance(x[1], str)]
                    if any(n in FILT for n in ns):
                        why8 = "the probe list is extended through %s" % sorted(set(n for n in ns if n in FILT))
                    continue
                inl = [l for l in lps8 + [l2 for l2 in loops_of(ft) if l2.counter] if pc.block in l.own]
                if inl and not _ev(ft, inl[0], pc.block):
                    why8 = "a probe is added to the list only under a condition (push not on every iteration of its loop)"
            for mc in mutators_of(ft, key8):
                if mc.callee and mc.callee.split("::")[-1] in ("retain", "dedup", "dedup_by", "dedup_by_key", "truncate", "drain", "remove", "swap_remove", "pop"):
                    why8 = "the probe list is thinned by %s" % mc.callee.split("::")[-1]
        run.inst("C01.R8", "probes-unfiltered", why8 is None,
                 "every spiral index contributes its probe and every probe is estimated" if why8 is None else why8, where(c8.span))

    run.floor("C01", "rule instances", len(run.instances), 13)
