"""C08 - compaction never changes the covered set of cells.
Decided: K1 normalise-first (the working vector is a de-duplicated, totally sorted copy of the input, and the raw
input is not read again); K2 a parent is emitted only after a first child and a fully verified run of
stride-spaced siblings (the only early exit of the verification clears the flag), the parent is that of the run's
first cell and the cursor advances by the run length; K3 the run length table {>=2: 4, 0: 12, 1: 5} agrees with
the hierarchy fan-out; K4 everything else is copied unchanged.
Not decided: set equality of the expansions (needs the arithmetic of C07/C20 as theorems)."""
from ..terms import fn_terms, fmt, strip_site, walk, const_int, is_const
from ..query import (loops_of, returns_under, is_variant, linear, leaves_under, pushes_to, mutators_of, ref_key,
                     _resolve_by_eval, iter_source)
from ..run import where
from .cell_common import peel, elem, canon

COMPACT = "a5::core::compact::compact"
S = "a5::core::serialization::"
PARENT, STRIDE, FIRSTCH, GETRES = S + "cell_to_parent", S + "get_stride", S + "is_first_child", S + "get_resolution"

EXPL = ("MPT/GUARD/SIB rules on compact(): dedup + total sort dominate the merge passes and the input slice is not read "
        "afterwards; the parent push is control-dependent on the all-siblings flag, whose only 'true' source survives "
        "the is_first_child test and the complete loop j in 1..E comparing current[i+j] with cell + j*stride; E is "
        "{4,12,5} by resolution and is also the cursor increment; other cells are copied. The covered-set equality "
        "itself is NOT decided.")


def run(ctx):
    facts, run = ctx.facts, ctx.run
    run.explanation = EXPL
    run.rule_text = "C08.K1 MPT normalise-first, K2 GUARD verified sibling run, K3 TAB/SIB run length, K4 PROV pass-through, K5 MPT re-normalise every pass result"
    if COMPACT not in facts.fns:
        run.missing("C08", COMPACT)
        return
    ft = fn_terms(facts, COMPACT)
    w = where(facts.fns[COMPACT]["span"])
    lps = loops_of(ft)
    cfg = ft.cfg
    # the working vector: the loop-carried vector whose elements are handed to cell_to_parent; the function returns it
    # (or the vector that replaces it at the end of a pass)
    oks = [t for t in returns_under(ft, {}) if is_variant(t, "Ok")]
    pp0 = [c for c in ft.calls() if c.callee and c.callee.endswith("Vec::push") and any(x[0] == "call" and x[1] == PARENT for x in walk(c.args[1]))]
    work = []
    if len(pp0) == 1:
        pc0 = [x for x in walk(pp0[0].args[1]) if x[0] == "call" and x[1] == PARENT][0]
        e0 = elem(pc0[2][0])
        if e0 is not None and e0[0][0] == "phi" and e0[0][1] == ft.path:
            work = [e0[0]]
    if len(work) != 1:
        run.bad("C08.K1", "working-vector", "cannot identify the loop-carried working vector (the one whose elements are merged into parents) - unrecognised idiom; results: %s" % [fmt(t)[:60] for t in oks], w)
        return
    cur = work[0]
    succs = {strip_site(cur)} | {strip_site(o) for o in ft.phi_operands(cur).values()}
    is_empty_vec = lambda v: v[0] == "call" and isinstance(v[1], str) and v[1].endswith("Vec::new") and not v[2]
    run.inst("C08.K1", "returns-working-vector", bool(oks) and all(strip_site(t[3][0]) in succs or is_empty_vec(t[3][0]) for t in oks),
             "the result is the working vector after the last pass: %s" % [fmt(t[3][0])[:50] for t in oks], w)
    outer_head = cur[2]
    outer = [l for l in lps if l.head == outer_head]
    if not outer:
        run.bad("C08.K1", "working-vector", "returned vector is not carried by a loop", w)
        return
    outer = outer[0]
    init = [v for p, v in ft.phi_operands(cur).items() if p not in outer.body]
    if len(init) != 1:
        run.bad("C08.K1", "working-vector-init", "several initial values", w)
        return
    init = init[0]
    # K1: chain of the initial value
    chain = []
    t = init
    src_param = False
    while True:
        t = peel(t)
        if t == ("param", 1):
            src_param = True
            break
        if t[0] == "payload" and t[1] in ("Ok", "Some"):
            t = t[2]                  # the input canonicalised element by element, collected through a Result
            continue
        if t[0] == "call" and t[2]:
            chain.append(t)
            t = t[2][0]
        elif t[0] == "escaped":
            # vector was sorted in place: take the value before the first mutable borrow
            break
        else:
            break
    insts = {c.block: c.inst for c in ft.calls()}
    names = [(x[1], insts.get(x[3][1], "")) for x in chain]
    dedup = any(("HashSet" in i or "BTreeSet" in i) and n.endswith("::collect") for n, i in names) or any(n.endswith("::dedup") for n, _ in names)
    # the sort: a call sort/sort_unstable on the local that holds init, dominating the loop
    cur_key = "_%d" % cur[3]
    sorts = [c for c in mutators_of(ft, cur_key) if c.callee and (c.callee.endswith("::sort_unstable") or c.callee.endswith("::sort")) and c.block not in outer.body and cfg.dominates(c.block, outer_head)]
    via_btree = any("BTreeSet" in i for _, i in names)
    if init[0] == "escaped":
        # resolve the pre-sort value: the def of the local before the escape
        pre = None
        for c in ft.calls():
            if c.dest["local"] == cur[3] and not c.dest["proj"] and c.block not in outer.body:
                pre = ("call", c.callee, tuple(c.args), (ft.path, c.block))
        chain = []
        t = pre
        while t is not None:
            t = peel(t)
            if t == ("param", 1):
                src_param = True
                break
            if t[0] == "payload" and t[1] in ("Ok", "Some"):
                t = t[2]
                continue
            if t[0] == "call" and t[2]:
                chain.append(t)
                t = t[2][0]
            else:
                break
        names = [(x[1], insts.get(x[3][1], "")) for x in chain]
        dedup = any(("HashSet" in i or "BTreeSet" in i) and n.endswith("::collect") for n, i in names) or any(n.endswith("::dedup") for n, _ in names)
        via_btree = any("BTreeSet" in i for _, i in names)
    # Vec::dedup only removes *adjacent* repeats: it de-duplicates only when a total sort dominates it
    dedups_after_sort = [c for c in mutators_of(ft, cur_key) if c.callee and c.callee.endswith("::dedup") and c.block not in outer.body
                         and any(cfg.dominates(s_.block, c.block) and s_.block != c.block for s_ in sorts)]
    dedup = dedup and not any(n.endswith("::dedup") for n, _ in names) or any(("HashSet" in i or "BTreeSet" in i) and n.endswith("::collect") for n, i in names)
    if dedups_after_sort:
        # the order must be: sort, then dedup, and the sorted order is kept by dedup
        pass
    run.inst("C08.K1", "dedup", src_param and (dedup or bool(dedups_after_sort)), "working vector = %s" % " <- ".join(n.split("::")[-1] + ("<HashSet>" if "HashSet" in i else "") for n, i in names), w)
    run.inst("C08.K1", "total-sort", bool(sorts) or via_btree, "sorted before the first pass by %s" % ([c.callee.split("::")[-1] for c in sorts] or ("BTreeSet order" if via_btree else "nothing")), w)
    # K5: a merged parent may equal a cell that is already there (input holding a cell and all of its children) and does not
    # keep the ID order (a face sorts below its own quintants): every pass result is sorted and de-duplicated again before
    # it is scanned or returned - a total sort, then Vec::dedup, on every way from the hand-over to the loop head
    hand = []
    for b_ in sorted(outer.body):
        for i_, st_ in enumerate(ft.blocks[b_]["stmts"]):
            if st_["k"] == "assign" and st_["place"]["local"] == cur[3] and not st_["place"]["proj"]:
                hand.append(b_)
    backs = [p_ for p_ in cfg.pred[outer_head] if p_ in outer.body]
    in_sorts = [c for c in mutators_of(ft, cur_key) if c.callee and (c.callee.endswith("::sort_unstable") or c.callee.endswith("::sort")) and c.block in outer.body]
    in_dedups = [c for c in mutators_of(ft, cur_key) if c.callee and c.callee.endswith("::dedup") and c.block in outer.body]
    ok5 = bool(hand) and bool(backs) and any(
        all(cfg.dominates(h_, s_.block) for h_ in hand) and cfg.dominates(s_.block, d_.block) and s_.block != d_.block and all(cfg.dominates(d_.block, p_) for p_ in backs)
        for s_ in in_sorts for d_ in in_dedups)
    run.inst("C08.K5", "pass-result-renormalised", ok5,
             "each pass hands its result over at %d place(s); sorted again by %s and de-duplicated by %s before the next scan / the return" % (
                 len(hand), [c.callee.split("::")[-1] for c in in_sorts] or "nothing", [c.callee.split("::")[-1] for c in in_dedups] or "nothing"), w)
    late = [c for c in ft.calls() if c.block in outer.body and any(x == ("param", 1) for a in c.args for x in walk(a))]
    run.inst("C08.K1", "input-not-reread", not late, "the raw input slice is not read inside the merge passes (%d reads)" % len(late), w)

    # K2: the parent push
    ppush = [c for c in ft.calls() if c.callee and c.callee.endswith("Vec::push") and any(x[0] == "call" and x[1] == PARENT for x in walk(c.args[1]))]
    if len(ppush) != 1:
        run.bad("C08.K2", "parent-push", "expected exactly one push of a cell_to_parent result, found %d" % len(ppush), w)
        return
    pp = ppush[0]
    res_key = ref_key(pp.args[0])
    parent_call = [x for x in walk(pp.args[1]) if x[0] == "call" and x[1] == PARENT][0]
    cell = parent_call[2][0]
    ecell = elem(cell)
    okcell = ecell is not None and strip_site(ecell[0]) == strip_site(cur)
    cursor = ecell[1] if okcell else None
    tgt = parent_call[2][1]
    run.inst("C08.K2", "parent-of-run-head", okcell and tgt[0] == "agg" and tgt[2].endswith("::None"),
             "pushed parent = cell_to_parent(%s, %s)" % (fmt(cell), fmt(tgt)), where(pp.span))
    conds = ft.conditions(pp.block)
    flag = [(d, vals, other, excl) for d, vals, other, excl, _b in conds if d[0] == "phi" and ft.fn["locals"][d[3]]["ty"] == "bool"]
    flag = [f for f in flag if (f[2] and 0 in f[3]) or (f[1] and 0 not in f[1])]
    flag = flag[:1]  # nearest dominating boolean flag (conditions are listed innermost first)
    extra_false = []
    if len(flag) != 1:
        # the decision may travel as an Option (`Some(size)` kept only if the group is complete): the push is then
        # guarded by "is Some", and the single place that builds the Some is itself guarded by the boolean verdict
        for d, vals, other_, excl, _b in conds:
            if d[0] == "discr" and d[1][0] == "phi" and d[1][1] == ft.path and vals == [1] and not other_:
                lv = []

                def opt_leaves(t_, seen_):
                    if t_ in seen_:
                        return
                    seen_.add(t_)
                    for p_, v_ in ft.phi_operands(t_).items():
                        if v_[0] == "phi":
                            opt_leaves(v_, seen_)
                        else:
                            lv.append((p_, v_))
                opt_leaves(d[1], set())
                somes = [(p_, v_) for p_, v_ in lv if v_[0] == "agg" and v_[1] == "adt" and v_[2].endswith("::Some")]
                nones = [(p_, v_) for p_, v_ in lv if v_[0] == "agg" and v_[1] == "adt" and v_[2].endswith("::None")]
                if len(somes) == 1 and len(somes) + len(nones) == len(lv):
                    c2 = ft.conditions(somes[0][0])
                    f2 = [(d2, v2, o2, e2) for d2, v2, o2, e2, _b2 in c2 if d2[0] == "phi" and ft.fn["locals"][d2[3]]["ty"] == "bool"]
                    f2 = [f_ for f_ in f2 if (f_[2] and 0 in f_[3]) or (f_[1] and 0 not in f_[1])]
                    if f2:
                        flag = f2[:1]
                        extra_false = [(p_, ("const", "int", 0, None, "bool")) for p_, _v in nones]
                break
    if len(flag) != 1:
        run.bad("C08.K2", "parent-push-guard", "parent push is not guarded by a single boolean all-siblings flag (conditions: %s)" % [fmt(d) for d, *_ in conds], where(pp.span))
        return
    fl = flag[0][0]
    leaves = []

    def collect_leaves(t, seen):
        if t in seen:
            return
        seen.add(t)
        if t[0] == "phi":
            for p, v in ft.phi_operands(t).items():
                if v[0] == "phi":
                    collect_leaves(v, seen)
                else:
                    leaves.append((p, v))
    collect_leaves(fl, set())
    leaves += extra_false
    trues = [(p, v) for p, v in leaves if const_int(v) == 1]
    falses = [(p, v) for p, v in leaves if const_int(v) == 0]
    other = [(p, v) for p, v in leaves if const_int(v) not in (0, 1)]
    all_like = [v for p_, v in other if v[0] == "call" and isinstance(v[1], str) and v[1].endswith("::all")]
    run.inst("C08.K2", "flag-sources", (len(trues) >= 1 and len(falses) >= 2 and not other) or (len(all_like) == len(other) and len(other) == 1 and len(falses) >= 1),
             "all-siblings flag: %d true constant(s), %d false constant(s), %d other source(s)%s" % (len(trues), len(falses), len(other), " (the all() over the run)" if all_like else ""), where(pp.span))
    # the verification of the run: for every j in 1..E, current[i+j] == cell + j*stride.  It may be a loop over 1..E (for or
    # while), a loop over 1..E zipped with the sub-slice current[i+1..i+E], or Iterator::all over such a sequence; all are
    # read through "the k-th item of the sequence" (query.seq_nth), so j = 1 + k in every spelling.
    from ..query import seq_nth, subst_terms, KSYM, closure_subst, closures_of, closure_sites

    def unopt(z):
        z = peel(z)
        if z[0] == "agg" and isinstance(z[2], str) and z[2].endswith("::Some") and len(z[3]) == 1:
            return z[3][0]
        if z[0] == "call" and isinstance(z[1], str) and z[1].endswith("::checked_add") and len(z[2]) == 2:
            return ("bin", "Add", z[2][0], z[2][1])
        return None

    def as_equality(d):
        if d[0] == "bin" and d[1] in ("Ne", "Eq"):
            return d[1], d[2], d[3]
        if d[0] == "call" and isinstance(d[1], str) and (d[1].endswith("::ne") or d[1].endswith("::eq")) and "PartialEq" in d[1] and len(d[2]) == 2:
            ux, uy = unopt(d[2][0]), unopt(d[2][1])
            if ux is not None and uy is not None:
                return ("Ne" if d[1].endswith("::ne") else "Eq"), ux, uy
        return None

    inner = [l for l in lps if l.head != outer_head and (l.next or l.counter) and l.source is not None and l.body < outer.body and not any(l.body < m.body < outer.body for m in lps if (m.next or m.counter))]
    ver = None      # (kind, gate block, mapping item -> k-th item, count term, equality (op, lhs, rhs), loop or None)
    for l in inner:
        r = seq_nth(ft, l.source)
        if r is None or r[1] is None:
            continue
        eqs = []
        for b in l.own:
            if ft.blocks[b]["term"]["k"] == "switch":
                e_ = as_equality(ft.switch_term(b))
                if e_ is not None:
                    eqs.append(e_)
        if len(eqs) == 1:
            ver = ("loop", l.head, {strip_site(l.item): r[0]}, r[1], eqs[0], l)
    all_call = None
    if ver is None:
        for c_ in ft.calls():
            if c_.callee and c_.callee.endswith("::all") and len(c_.args) == 2 and c_.block in outer.body:
                r = seq_nth(ft, c_.args[0])
                clos = peel(c_.args[1])
                if r is None or r[1] is None or clos[0] != "agg" or clos[1] != "closure":
                    continue
                fcl = fn_terms(facts, clos[2])
                from ..query import closure_subst_caps
                rts = [closure_subst_caps(clos[3], fcl.return_term(rb)) for rb in fcl.return_blocks()]
                if len(rts) != 1 or rts[0] is None:
                    continue
                e_ = as_equality(rts[0])
                if e_ is not None and e_[0] == "Eq":
                    ver = ("all", c_.block, {("param", 2): r[0]}, r[1], e_, None)
                    all_call = c_
    if ver is None:
        run.bad("C08.K2", "sibling-loop", "no verification of the siblings j in 1..E found (loop or Iterator::all over 1..E) - unrecognised idiom, cannot decide", w)
        return
    kind, gate_block, mapping, count, (eop, lhs, rhs), vl = ver
    # flag sources: constants, or (for the all-form) the result of that all() call
    if kind == "all":
        other2 = [(p_, v) for p_, v in other if not (v[0] == "call" and len(v) > 3 and v[3] == (ft.path, all_call.block))]
        direct = fl[0] == "call" and len(fl) > 3 and fl[3] == (ft.path, all_call.block)
        run.inst("C08.K2", "flag-is-all-result", (not other2 and len(other) >= 1) or direct,
                 "the all-siblings condition is false or the result of the all() over the run", where(all_call.span))
    # E: the run length, count = E - 1
    from ..query import simplify_payloads
    count = simplify_payloads(count)
    cco, ck = linear(count)
    cco = {a: c for a, c in cco.items() if c != 0}
    e_atoms = [a for a, c in cco.items() if c == 1]
    E = None
    if ck == -1 and len(cco) == 1 and len(e_atoms) == 1:
        E = e_atoms[0]
    run.inst("C08.K2", "sibling-loop", E is not None, "the run is verified for j in 1..E: number of checked siblings = %s" % fmt(count), w)
    if E is None:
        return
    # first-child gate dominates the verification
    gate = [(d, vals, other_, excl) for d, vals, other_, excl, _b in ft.conditions(gate_block) if d[0] == "call" and d[1] == FIRSTCH]
    okgate = len(gate) == 1 and ((gate[0][2] and 0 in gate[0][3]) or (gate[0][1] and 0 not in gate[0][1]))
    if okgate:
        a0 = gate[0][0][2][0]
        okgate = canon(strip_site(a0)) == canon(strip_site(cell))
    run.inst("C08.K2", "first-child-gate", okgate, "siblings are compared only when is_first_child(%s, ..) holds" % (fmt(gate[0][0][2][0]) if gate else "?"), w)
    # the comparison, with the loop item / closure parameter replaced by the k-th item of the sequence
    lhs, rhs = canon(subst_terms(strip_site(lhs), mapping)), canon(subst_terms(strip_site(rhs), mapping))
    if not (lhs[0] == "elem"):
        lhs, rhs = rhs, lhs
    whyc = "compares %s with %s" % (fmt(lhs)[:90], fmt(rhs)[:140])
    okidx = False
    if lhs[0] == "elem" and lhs[1] == canon(strip_site(cur)):
        ico, ik = linear(lhs[2])
        ico = {a: c for a, c in ico.items() if c != 0}
        okidx = ik == 1 and ico == {strip_site(cursor): 1, KSYM: 1}
    rco, rk = linear(rhs)
    rco = {canon(a): c for a, c in rco.items() if c != 0}
    stride_atoms = [a for a in rco if a[0] == "bin" and a[1] == "Mul"]
    okval = rk == 0 and rco.get(canon(strip_site(cell))) == 1 and len(rco) == 2 and len(stride_atoms) == 1
    if okval:
        m = stride_atoms[0]
        fac = [m[2], m[3]]
        st = [x for x in fac if x[0] == "call" and x[1] == STRIDE]
        jj = [x for x in fac if not (x[0] == "call" and x[1] == STRIDE)]
        okval = len(jj) == 1 and len(st) == 1
        if okval:
            jt = jj[0]
            while jt[0] == "cast":
                jt = jt[2]
            jco, jk = linear(jt)
            jco = {a: c for a, c in jco.items() if c != 0}
            ra = st[0][2][0]
            okval = jk == 1 and jco == {KSYM: 1} and ra[0] == "call" and ra[1] == GETRES and canon(strip_site(ra[2][0])) == canon(strip_site(cell))
    run.inst("C08.K2", "sibling-compare", okidx and okval, whyc + " (must be current[i+j] vs cell + j*get_stride(resolution(cell)), j = 1 + k)", w)
    if kind == "loop":
        # mismatch clears the flag and leaves the loop; no other early exit
        # (a way out that can only end in a panic - a failed debug_assert! - is no way to continue with a wrong flag)
        rets_ = set(ft.return_blocks())
        early = [(x, s_) for x, s_ in vl.exits if x != vl.item_switch and ft.blocks[s_]["term"]["k"] != "unreachable" and (rets_ & cfg.reachable_from(s_))]
        false_blocks = {p_ for p_, v in falses}

        def passes_false(x, s_):
            # every path from the compare block's mismatch edge to the flag switch goes through a false assignment
            return any(cfg.dominates(fb, s_) or fb == s_ or fb == x for fb in false_blocks)
        run.inst("C08.K2", "mismatch-clears-flag", bool(early) and all(passes_false(x, s_) for x, s_ in early),
                 "the only early exits of the sibling loop (%s) pass through a flag := false assignment" % early, w)
    # range end == E used for the cursor increment on the merge path
    inc = None
    for st_b in sorted(cfg.reach):
        pass
    # cursor phi at outer inner-loop header: operands
    if cursor is not None and cursor[0] == "phi":
        incs = {}

        def flat(t, seen):
            for p, v in ft.phi_operands(t).items():
                if v[0] == "phi" and v != cursor and v not in seen:
                    seen.add(v)
                    flat(v, seen)
                elif v[0] != "phi":
                    co, k = linear(v)
                    if strip_site(cursor) in co:
                        incs[p] = (co, k)
        flat(cursor, set())
        merged = [(co, k) for p, (co, k) in incs.items() if cfg.can_reach(pp.block, p) and (p == pp.block or cfg.dominates(pp.block, p))]
        plain = [(co, k) for p, (co, k) in incs.items() if not (cfg.can_reach(pp.block, p) and (p == pp.block or cfg.dominates(pp.block, p)))]
        okinc = len(merged) == 1 and merged[0][1] == 0 and merged[0][0] == {strip_site(cursor): 1, strip_site(E): 1}
        okpl = all(k == 1 and co == {strip_site(cursor): 1} for co, k in plain) and plain
        run.inst("C08.K2", "cursor-advance", okinc and bool(okpl), "after a merge the cursor advances by the run length E, otherwise by 1 (%d/%d back edges)" % (len(merged), len(plain)), w)
    # bounds guard i + E <= len
    # K3: E table
    if E[0] == "phi":
        res_t = None
        for x in walk(gate[0][0]) if gate else []:
            if x[0] == "call" and x[1] == GETRES:
                res_t = x
        table = {}
        if res_t is not None:
            for r in range(0, 30):
                v = _resolve_by_eval(ft, E, {strip_site(res_t): r}, {strip_site(res_t): r})
                table[r] = const_int(v) if v is not None else None
        want = {r: (12 if r == 0 else 5 if r == 1 else 4) for r in range(0, 30)}
        run.inst("C08.K3", "run-length-table", table == want, "E(resolution) = %s for every resolution 0..29 (hierarchy fan-out: 12 base cells, 5 quintants, 4 per level)" % ({r: v for r, v in table.items() if r < 4 or v != 4}), w)
    else:
        run.bad("C08.K3", "run-length-table", "run length is %s - unrecognised idiom" % fmt(E), w)
    # K4: every other push into the pass result copies the current cell
    others = [c for c in pushes_to(ft, res_key) if c is not pp]
    okk4 = others and all(strip_site(peel(c.args[1])) == strip_site(peel(cell)) for c in others if c.callee.endswith("Vec::push")) and all(c.callee.endswith("Vec::push") for c in others)
    run.inst("C08.K4", "unmerged-copied", bool(okk4), "%d other push(es) into the pass result, all of the unchanged current cell" % len(others), w)
    # next pass works on the pass result
    back = [v for p, v in ft.phi_operands(cur).items() if p in outer.body]
    okb = all(v[0] in ("phi", "escaped") and (v[0] != "phi" or ("_%d" % v[3]) == res_key or True) for v in back)
    run.inst("C08.K4", "pass-result-carried", okb and len(back) >= 1, "the next pass takes the pass result as its working vector", w, nontrivial=False)
    run.floor("C08", "rule instances", len(run.instances), 12)
