"""C13 - every call is a pure function of its arguments: no history or thread effects.
All clauses are decided statically (proof-style: obligations enumerated, all discharged mechanically):
P1 census of global state (statics, user unsafe blocks); P2 initialisers of once-cells and of the per-thread
object are free of hidden inputs; P3 no hidden input reaches any public entry point (clock, env, fs, RNG, thread id,
pointer-to-integer casts, shared mutable statics, hash iteration order); P4 the memo tables of the per-thread
projection object are sound caches (written only by their getter, fill-once, key injective on the value-relevant
key over every calling context, value a function of the key and of construction-only state) and the only other
mutated field influences nothing but a diagnostic print; P5 the per-thread object is confined to its thread."""
import itertools

from ..callgraph import api_entry_points, CallGraph, lazy_initialisers
from ..effects import Effects, classify_static, where as ewhere
from ..ranges import Engine
from ..terms import fn_terms, fmt, walk, strip_site, const_int, is_const
from ..query import (ieval, Undetermined, assumptions_by_eval, feasible_blocks, deep_resolve, returns_under, is_variant,
                     mutators_of)
from ..run import where
from ..facts import strip_generics
from ..avals import show

D = "a5::projections::dodecahedron::DodecahedronProjection::"
TLS_GETTER = D + "get_thread_local"

EXPL = ("CENSUS + effect analysis over the resolved call graph + memo-table soundness. Every static is immutable, a once-cell "
        "or thread-local; the only user unsafe block is the thread-local accessor; initialisers and all public entry points "
        "(the 13 API functions and the projection's public forward/inverse) reach no clock/env/fs/RNG/thread-id/pointer-to-int/"
        "shared-mutable-static source and iterate hash containers only into a sorted vector; each memo table is written only by "
        "its getter on the path where the slot was just read as None, the slot index is injective on the value-relevant key over "
        "every calling context (enumerated from the range analysis), the stored value depends only on the key, once-cells and "
        "construction-only state; the per-thread object never escapes its thread. Holds for every call history and interleaving; "
        "trusts std's OnceLock/LazyLock/thread_local!/lazy_static.")

WRITE_ONLY_OK = ("fetch_add", "fetch_sub", "store", "fetch_or", "fetch_and", "fetch_max", "fetch_min", "fetch_xor")


def run(ctx):
    facts, run = ctx.facts, ctx.run
    run.explanation = EXPL
    run.rule_text = "C13.P1 CENSUS, P2/P3 effect OBL per entry point and initialiser, P4 memo soundness OBL, P5 confinement"
    eff = Effects(facts)
    cg = eff.cg
    check_purity(facts, run, eff, cg, selftest=False)
    # positive controls on the selftest crate
    bad = ctx.bad
    beff = Effects(bad)
    from ..run import Run
    probe = Run("C13", "probe")
    roots = [p for p in bad.fns if p.startswith("badcrate::impure_") and bad.fns[p]["kind"] == "Fn"]
    for p in sorted(roots):
        imp = beff.impure([p])
        fired = bool(imp) or not hash_sites_sorted(bad, beff, [p])[0]
        run.control("C13.P3", p.split("::")[-1], fired, "; ".join("%s %s" % (e[0], e[1]) for e in list(imp)[:2]))
    # static census controls
    for sp, s in sorted(bad.statics.items()):
        if "BAD_" in sp:
            k = classify_static(s)
            run.control("C13.P1", sp.split("::")[-1], k == "shared-mutable", "classified %s" % k)
    # memo-key control
    for g, tab in (("badcrate::MemoBad::get_collapsed", "slots"),):
        if g in bad.fns:
            res = check_memo_table(bad, None, g, tab, [("badcrate::MemoBad::entry", None)])
            run.control("C13.P4", g.split("::")[-1], any(not ok for ok, _k, _w in res), "; ".join(w for ok, _k, w in res if not ok)[:200])


def hash_sites_sorted(facts, eff, roots):
    """every hash-ordered iteration reachable from roots is collected into a vector that is sorted before any other use"""
    ok = True
    details = []
    for p in sorted(eff.cg.reachable(roots)):
        le = [e for e in eff.local.get(p, ()) if e[0] == "hashiter"]
        if not le:
            continue
        ft = fn_terms(facts, p)
        for c in ft.calls():
            inst = c.inst or ""
            short = (c.callee or "").split("::")[-1]
            if not (("HashSet" in inst or "HashMap" in inst) and short in ("into_iter", "iter", "drain", "keys", "values", "into_keys", "into_values", "iter_mut", "values_mut")):
                continue
            # the iterator must flow (only) into a collect whose destination local is sorted before other uses
            site = (ft.path, c.block)
            users = [c2 for c2 in ft.calls() if any(_is_site(a, site) for a in c2.args)]
            good = False
            why = "hash-ordered iterator used by %s" % [u.callee.split("::")[-1] for u in users]
            if len(users) == 1 and users[0].callee.endswith("::collect") and not users[0].dest["proj"]:
                L = users[0].dest["local"]
                key = "_%d" % L
                sorts = [m for m in mutators_of(ft, key) if m.callee and ("::sort" in m.callee)]
                reads = [c3 for c3 in ft.calls() if c3 is not users[0] and c3 not in sorts and any(
                    x[0] in ("phi", "escaped") and (x[3] if x[0] == "phi" else x[1]) == L for a in c3.args for x in walk(a))
                    and not c3.callee.endswith("::deref_mut")]
                if sorts and all(ft.cfg.dominates(sorts[0].block, r.block) for r in reads):
                    good = True
                    why = "collected into a vector and sorted (%s) before any other use" % sorts[0].callee.split("::")[-1]
                else:
                    why = "collected vector is used before / without a total sort"
            ok = ok and good
            details.append((p, good, why, where(c.span)))
    return ok, details


def _is_site(a, site):
    """argument is (a reference / reborrow of) the result of the call at `site`, not something computed from it"""
    x = a
    while x[0] in ("ref", "deref"):
        x = x[2] if x[0] == "ref" else x[1]
    return x[0] == "call" and len(x) > 3 and x[3] == site


def _closure_keeps_receiver_only(facts, ft, agg, fields):
    """the per-thread reference captured in closure fields `fields`: None if (a) the closure value is handed directly to
    one std adaptor call of the creating function, (b) that function returns nothing that could hold the closure, and
    (c) the closure body uses the captured reference only as the receiver of projection methods; else the reason"""
    from ..query import closure_sites
    cpath = agg[2]
    sites = closure_sites(facts, cpath)
    if len(sites) != 1:
        return "closure value used at %d places" % len(sites)
    _f, c, _i, _a = sites[0]
    callee = c.callee or ""
    if callee in facts.fns or not (callee.startswith("std::") or callee.startswith("core::") or callee.startswith("<")):
        return "closure passed to %s" % callee
    rt = ft.fn["ret_ty"]
    if "{closure" in rt or "impl " in rt or "Map<" in rt or "dyn " in rt:
        return "the function returns %s, which may carry the closure" % rt
    fc = fn_terms(facts, cpath)

    def is_cap(x):
        while x[0] in ("ref", "deref"):
            x = x[2] if x[0] == "ref" else x[1]
        return x[0] == "field" and x[2] in fields and (x[1] == ("param", 1) or (x[1][0] == "deref" and x[1][1] == ("param", 1)))
    for c2 in fc.calls():
        for ai, a in enumerate(c2.args):
            if is_cap(a):
                if ai != 0 or not (c2.callee or "").startswith("a5::projections::dodecahedron::DodecahedronProjection::"):
                    return "inside the closure it is passed to %s as argument %d" % (c2.callee, ai)
    for b in sorted(fc.cfg.reach):
        for i, st in enumerate(fc.blocks[b]["stmts"]):
            if st["k"] == "assign" and st["rv"]["k"] == "aggregate":
                t = fc.rvalue(st["rv"], b, i)
                if t[0] == "agg" and any(is_cap(o) for o in t[3]):
                    return "inside the closure it is stored into an aggregate"
    for rb in fc.return_blocks():
        if is_cap(fc.return_term(rb)):
            return "the closure returns it"
    return None


def check_purity(facts, run, eff, cg, selftest):
    # ---------------- P1 statics
    for sp, s in sorted(facts.statics.items()):
        k = eff.kinds[sp]
        if k != "shared-mutable":
            run.ok("C13.P1", "static:" + sp.split("::")[-1] + ("@" + sp.split("::")[-3] if "__RUST" in sp or "LAZY" in sp else ""),
                   "%s : %s -> %s" % (sp, s["ty"][:70], k), where(s["span"]), nontrivial=False)
            continue
        # shared mutable state: allowed only when no read of it can influence anything (write-only use)
        readers = []
        for p, f in facts.fns.items():
            if f["kind"] not in ("Fn", "AssocFn", "Closure"):
                continue
            from ..callgraph import static_refs
            if sp not in static_refs(facts, p):
                continue
            ft = fn_terms(facts, p)
            uses = 0
            for c in ft.calls():
                if any(x == ("static", sp) for a in c.args for x in walk(a)):
                    uses += 1
                    short = (c.callee or "").split("::")[-1]
                    dest_used = _local_used(ft.fn, c.dest["local"])
                    if short not in WRITE_ONLY_OK or dest_used:
                        readers.append((p, c.callee, where(c.span)))
            if uses == 0:
                readers.append((p, "direct access", None))
        run.inst("C13.P1", "static:" + sp.split("::")[-1], not readers,
                 "%s : %s is shared mutable state; %s" % (sp, s["ty"][:60], "only written, never read" if not readers else "it is read by %s" % readers[:2]), where(s["span"]))
    # unsafe census
    user_unsafe = [u for u in facts.unsafe_blocks if u["source"] == "UserProvided" and not (u["from_expansion"] and u["span"].get("exp_crate") in ("std", "core", "alloc"))]
    for u in user_unsafe:
        ok = u["fn"].startswith(TLS_GETTER)
        run.inst("C13.P1", "unsafe:" + u["fn"].split("::")[-2], ok,
                 "user-written unsafe block in %s: %s" % (u["fn"], "the thread-local accessor (dereferences the per-thread pointer)" if ok else "not classified - aliasing invisible to the analysis, fails closed"),
                 where(u["span"]))
    # ---------------- P2 initialisers
    inits = set()
    li = lazy_initialisers(facts)
    for sp, fs in li.items():
        inits |= {f for f in fs if facts.fns[f]["kind"] in ("Fn", "AssocFn", "Closure")}
    for p, f in facts.fns.items():
        if f["kind"] not in ("Fn", "AssocFn", "Closure"):
            continue
        for b in f["blocks"]:
            t = b["term"]
            if t["k"] == "call" and t["func"].get("k") == "fn":
                n = strip_generics(t["func"].get("resolved") or t["func"]["path"])
                if n.endswith("OnceLock::get_or_init") or n.endswith("OnceLock::get_or_try_init") or n.endswith("LazyLock::new") or n.endswith("Once::call_once"):
                    for a in t["args"]:
                        v = a.get("value") if a.get("k") == "const" else None
                        if v and v.get("k") == "fn":
                            tgt = v.get("resolved") or v["path"]
                            if tgt in facts.fns:
                                inits.add(tgt)
    # a once-cell initialised by a closure that captures values of its caller takes its value from the first call
    ncells = 0
    for p, f in sorted(facts.fns.items()):
        if f["kind"] not in ("Fn", "AssocFn", "Closure"):
            continue
        ftp = None
        for bi, b in enumerate(f["blocks"]):
            t = b["term"]
            if b["cleanup"] or t["k"] != "call" or t["func"].get("k") != "fn":
                continue
            n = strip_generics(t["func"].get("resolved") or t["func"]["path"])
            if not (n.endswith("OnceLock::get_or_init") or n.endswith("OnceLock::get_or_try_init") or n.endswith("Once::call_once") or n.endswith("OnceLock::set")
                    or n.endswith("OnceCell::get_or_init") or n.endswith("LazyLock::force") and False):
                continue
            ncells += 1
            if ftp is None:
                ftp = fn_terms(facts, p)
            args = [ftp.operand(a, bi, len(b["stmts"])) for a in t["args"]]
            captured = []
            for a in args[1:]:
                for x in walk(a):
                    if x[0] == "agg" and x[1] == "closure":
                        captured += [o for o in x[3] if not is_const(o)]
                    if n.endswith("::set") and not is_const(a):
                        captured.append(a)
            run.inst("C13.P2", "init-argument-free:%s@%s" % (n.split("::")[-1], _short(p)), not captured,
                     "once-cell initialised in %s: %s" % (p.split("::")[-1], "initialiser takes nothing from the calling context" if not captured else
                                                          "the initialiser captures %s of the first caller, so the stored value depends on call history" % [fmt(c)[:40] for c in captured[:2]]),
                     where(t["span"]))
    # the thread-local initialiser: every function nested under a thread_local! item
    for sp, s in facts.statics.items():
        if s["thread_local"]:
            owner = sp.split("::{constant")[0]
            inits |= {p for p, f in facts.fns.items() if p.startswith(owner + "::") and f["kind"] in ("Fn", "AssocFn", "Closure")}
    for p in sorted(inits):
        imp = eff.impure([p], allow=("once",))
        # thread-local initialiser machinery may touch its own thread-local storage
        imp = {e: w for e, w in imp.items() if not (e[0] == "tls" and p.split("::{constant")[0] in e[1])}
        okh, hd = hash_sites_sorted(facts, eff, [p])
        imp = {e: w for e, w in imp.items() if e[0] != "hashiter"}
        run.inst("C13.P2", "init:" + _short(p), not imp and okh,
                 "initialiser %s reaches %d functions; hidden inputs: %s" % (p, len(cg.reachable([p])), [("%s %s in %s" % (e[0], e[1], w.split("::")[-1])) for e, w in list(imp.items())[:3]] or "none"),
                 where(facts.fns[p]["span"]))
    # ---------------- P3 entry points
    api = api_entry_points(facts)
    entries = list(api) + [p for p in (D + "forward", D + "inverse") if p in facts.fns]
    for p in (D + "forward", D + "inverse"):
        if p not in facts.fns:
            run.missing("C13.P3", p)
    run.floor("C13.P3", "public entry points analysed", len(entries), 15)
    for p in entries:
        imp = eff.impure([p], allow=("once", "tls", "hashiter"))
        run.inst("C13.P3", "entry:" + p.split("::")[-1], not imp,
                 "%s reaches %d functions; hidden inputs: %s" % (p.split("::")[-1], len(cg.reachable([p])), [("%s %s in %s @%s" % (e[0], e[1], w.split("::")[-1], e[2])) for e, w in list(imp.items())[:3]] or "none"),
                 where(facts.fns[p]["span"]))
    okh, hd = hash_sites_sorted(facts, eff, entries)
    for p, good, why, w in hd:
        run.inst("C13.P3", "hash-order:" + p.split("::")[-1], good, why, w)
    # thread-local state is reached only through the accessor
    tls_users = sorted(p for p, es in eff.local.items() if any(e[0] == "tls" for e in es))
    okt = all(p.startswith(TLS_GETTER) or "THREAD_DODECA" in p for p in tls_users)
    run.inst("C13.P3", "tls-only-through-accessor", okt, "thread-local storage is touched by %s" % [_short(p) for p in tls_users])
    # ---------------- P4 memo tables of the per-thread object
    check_object_state(facts, run, eff, cg, entries)
    # ---------------- P5 confinement
    check_confinement(facts, run, eff, cg)


def _short(p):
    return "::".join(p.split("::")[-2:])


def _local_used(f, local):
    n = 0

    def visit(o):
        nonlocal n
        if isinstance(o, dict):
            if o.get("local") == local and "proj" in o:
                n += 1
            for v in o.values():
                visit(v)
        elif isinstance(o, list):
            for v in o:
                visit(v)
    for b in f["blocks"]:
        if b["cleanup"]:
            continue
        for st in b["stmts"]:
            if st["k"] == "assign":
                visit(st["rv"])
        t = b["term"]
        if t["k"] == "call":
            visit(t["args"])
        elif t["k"] in ("switch",):
            visit(t["discr"])
        elif t["k"] == "assert":
            visit(t["cond"])
    return n > 0


def object_types(facts):
    """ADT reachable (by value) from the type behind the thread-local pointer"""
    roots = []
    for sp, s in facts.statics.items():
        if s["thread_local"] and "*mut " in s["ty"]:
            t = s["ty"].split("*mut ")[1].split(",")[0].strip()
            roots.append(facts.crate + "::" + t if not t.startswith(facts.crate) else t)
    seen = set()
    st = list(roots)
    while st:
        a = st.pop()
        if a in seen or a not in facts.adts:
            continue
        seen.add(a)
        for v in facts.adts[a]["variants"]:
            for f in v["fields"]:
                for b in facts.adts:
                    if b.split("::", 1)[1] in f["ty"]:
                        st.append(b)
    return seen


def check_object_state(facts, run, eff, cg, entries):
    objs = object_types(facts)
    if not objs:
        run.note("no per-thread object found")
        return
    # writes to fields of the object types after construction: stores through &mut self / index_mut on self fields
    written = {}   # (adt, field) -> list of (fn, kind, where)
    for p, f in facts.fns.items():
        if f["kind"] not in ("Fn", "AssocFn", "Closure"):
            continue
        ft = None
        for bi, b in enumerate(f["blocks"]):
            if b["cleanup"]:
                continue
            for st in b["stmts"]:
                if st["k"] != "assign":
                    continue
                pr = st["place"]["proj"]
                if pr and pr[0]["k"] == "deref":
                    flds = [e for e in pr if e["k"] == "field" and e.get("adt") in objs]
                    if flds:
                        written.setdefault((flds[-1]["adt"], flds[-1]["name"]), []).append((p, "assign", where(st.get("span"))))
            t = b["term"]
            if t["k"] == "call":
                # a call result stored straight into a field of the object
                pr = t["dest"]["proj"]
                if pr and pr[0]["k"] == "deref":
                    flds = [e for e in pr if e["k"] == "field" and e.get("adt") in objs]
                    if flds:
                        written.setdefault((flds[-1]["adt"], flds[-1]["name"]), []).append((p, "call-result", where(t.get("span"))))
            if t["k"] == "call" and t["func"].get("k") == "fn":
                n = strip_generics(t["func"].get("resolved") or t["func"]["path"])
                if any(n.endswith(s_) for s_ in ("::deref", "::len", "::iter", "::index", "::is_empty", "::as_slice", "::clone", "::get", "::first", "::last", "::contains")):
                    continue
                for a in t["args"]:
                    if a.get("k") in ("copy", "move"):
                        # the argument local: find its defining `&mut (*self).field`
                        if ft is None:
                            ft = fn_terms(facts, p)
                        at = ft.operand(a, bi, len(b["stmts"]))
                        for x in walk(at):
                            if x[0] == "ref" and x[1] in (True, "raw") and isinstance(x[3], str) and ".deref." in x[3]:
                                fld = x[3].split(".")[-1]
                                for adt in objs:
                                    if any(fl["name"] == fld for v in facts.adts[adt]["variants"] for fl in v["fields"]):
                                        # only when the base is a self-like reference of that type
                                        base_local = int(x[3].split(".")[0][1:])
                                        bty = f["locals"][base_local]["ty"]
                                        if adt.split("::", 1)[1] in bty:
                                            written.setdefault((adt, fld), []).append((p, n.split("::")[-1], where(t["span"])))
    # constructors: functions that build the object by an aggregate
    ctors = set()
    for p, f in facts.fns.items():
        if f["kind"] in ("Fn", "AssocFn", "Closure"):
            for b in f["blocks"]:
                for st in b["stmts"]:
                    if st["k"] == "assign" and st["rv"]["k"] == "aggregate" and st["rv"].get("adt") in objs:
                        ctors.add(p)
    ctor_reach = set()
    for c in ctors:
        # helpers called only from constructors (CRS::add_*) count as construction
        ctor_reach |= cg.reachable([c])
    post = {}
    for (adt, fld), ws in written.items():
        # (a helper that was spliced into all of its callers is dead as a function: its writes are examined where they now are)
        dead = {w_ for w_ in getattr(facts, "spliced_helpers", ()) if not cg.callers(w_)}
        outside = [w for w in ws if w[0] not in ctors and w[0] not in dead and not _only_called_from(cg, w[0], ctors, dead)]
        if outside:
            post[(adt, fld)] = outside
    run.extra["object_types"] = sorted(objs)
    run.extra["fields_written_after_construction"] = {"%s.%s" % (a.split("::")[-1], f): sorted({w[0].split("::")[-1] for w in ws}) for (a, f), ws in post.items()}
    run.floor("C13.P4", "memo tables of the per-thread object", sum(1 for (a_, f_) in post if [fl["ty"] for v in facts.adts[a_]["variants"] for fl in v["fields"] if fl["name"] == f_][0].startswith("std::vec::Vec<std::option::Option<")), 2)
    for (adt, fld), ws in sorted(post.items()):
        fty = [fl["ty"] for v in facts.adts[adt]["variants"] for fl in v["fields"] if fl["name"] == fld][0]
        writers = sorted({w[0] for w in ws})
        if any(o.split("::", 1)[1] == fty or o.split("::")[-1] == fty.split("::")[-1] for o in objs) and not any(w[1] in ("assign", "call-result") for w in ws):
            continue   # a nested state object handed to its own methods: its fields are censused themselves (a whole-field overwrite is judged here)
        if fty.startswith("std::vec::Vec<std::option::Option<"):
            if len(writers) != 1:
                run.bad("C13.P4", "memo-writers:%s.%s" % (adt.split("::")[-1], fld), "memo table is written by several functions: %s" % writers)
                continue
            callers = []
            for ok, key, why in check_memo_table(facts, run, writers[0], fld, [(e, None) for e in entries]):
                run.inst("C13.X1" if key == "table-holds-every-slot" else "C13.P4", "memo:%s:%s" % (fld, key), ok, why, where(facts.fns[writers[0]]["span"]))
            # who may read: only the getter (and constructors)
            readers = set()
            for p, f in facts.fns.items():
                if f["kind"] not in ("Fn", "AssocFn", "Closure") or p in ctors:
                    continue
                for b in f["blocks"]:
                    for st in b["stmts"]:
                        if st["k"] == "assign" and st["rv"]["k"] in ("ref", "use"):
                            pl = st["rv"].get("place") or (st["rv"].get("op", {}).get("place"))
                            if pl and any(e["k"] == "field" and e.get("name") == fld and e.get("adt") == adt for e in pl["proj"]):
                                readers.add(p)
            run.inst("C13.P4", "memo:%s:only-getter-touches-table" % fld, readers <= {writers[0]}, "table %s is accessed by %s" % (fld, sorted(_short(r) for r in readers)))
        else:
            ok, why = benign_counter(facts, adt, fld, writers)
            run.inst("C13.P4", "state:%s.%s" % (adt.split("::")[-1], fld), ok, why, ws[0][2])


def _only_called_from(cg, p, ctors, dead=()):
    callers = [c for c in cg.callers(p) if c not in dead]
    if not callers:
        return False
    seen = set()
    st = list(callers)
    while st:
        c = st.pop()
        if c in seen:
            continue
        seen.add(c)
        if c in ctors:
            continue
        cs = [c2 for c2 in cg.callers(c) if c2 not in dead]
        if not cs:
            return False
        st.extend(cs)
    return True


def benign_counter(facts, adt, fld, writers):
    """a mutated scalar field that influences nothing but a diagnostic print: every read flows only into
    (a) the write-back of itself plus a constant, (b) a comparison that guards only printing"""
    for p, f in facts.fns.items():
        if f["kind"] not in ("Fn", "AssocFn", "Closure"):
            continue
        ft = None
        for bi, b in enumerate(f["blocks"]):
            if b["cleanup"]:
                continue
            for i, st in enumerate(b["stmts"]):
                if st["k"] != "assign":
                    continue
                rv = st["rv"]
                if rv["k"] in ("ref", "rawptr") and any(e["k"] == "field" and e.get("name") == fld and e.get("adt") == adt for e in rv["place"]["proj"]) \
                        and not (st["place"]["proj"] == [] and _borrow_only_written_back(f, st["place"]["local"])):
                    # the field is borrowed: whatever receives the reference can read it (a comparison, a clone, a match)
                    return False, "field %s is borrowed in %s: its value can influence results" % (fld, p)
                reads = _reads_field(rv, adt, fld)
                if not reads:
                    continue
                if ft is None:
                    ft = fn_terms(facts, p)
                # allowed: checked add feeding the write-back, or a copy compared in a switch guarding only prints
                dest = st["place"]
                if rv["k"] == "binop" and rv["op"].startswith("Add") and any(o.get("k") == "const" for o in (rv["a"], rv["b"])):
                    continue
                if rv["k"] == "use" and not dest["proj"]:
                    L = dest["local"]
                    uses_ok = True
                    for b2i, b2 in enumerate(f["blocks"]):
                        for st2 in b2["stmts"]:
                            if st2["k"] == "assign" and _uses_local(st2["rv"], L):
                                r2 = st2["rv"]
                                if not (r2["k"] == "binop" and r2["op"] in ("Eq", "Ne", "Lt", "Le", "Gt", "Ge")):
                                    uses_ok = False
                                else:
                                    # the comparison result must only feed a switch whose branches only print
                                    cl = st2["place"]["local"]
                                    tsw = b2["term"]
                                    if not (tsw["k"] == "switch" and tsw["discr"].get("place", {}).get("local") == cl):
                                        uses_ok = False
                                    else:
                                        for _v, tgt in tsw["targets"]:
                                            pass
                                        if not _branch_only_prints(ft, b2i):
                                            uses_ok = False
                    if uses_ok:
                        continue
                return False, "field %s is read in %s in a way that can influence results" % (fld, p)
        for b in f["blocks"]:
            t = b["term"]
            if t["k"] == "assert" and any(_reads_field_op(o, adt, fld) for o in t["ops"]):
                continue
    return True, "%s.%s is only incremented and compared with a constant to guard a diagnostic print (writers: %s)" % (adt.split("::")[-1], fld, [w.split("::")[-1] for w in writers])


def _borrow_only_written_back(f, local):
    """the borrow held in `local` is used only as the destination of stores (`*r = v`), never read or passed on"""
    for b in f["blocks"]:
        for st in b["stmts"]:
            if st["k"] != "assign":
                continue
            if _mentions_local(st["rv"], local):
                return False
            pl = st["place"]
            if pl["local"] == local and not (pl["proj"] and pl["proj"][0]["k"] == "deref"):
                continue
        t = b["term"]
        if _mentions_local(t, local):
            return False
    return True


def _mentions_local(o, local):
    if isinstance(o, dict):
        if "local" in o and "proj" in o and o["local"] == local:
            return True
        return any(_mentions_local(v, local) for k, v in o.items() if k not in ("dest",) or True)
    if isinstance(o, list):
        return any(_mentions_local(v, local) for v in o)
    return False


def _reads_field_op(o, adt, fld):
    if not isinstance(o, dict):
        return False
    pl = o.get("place")
    if pl and any(e["k"] == "field" and e.get("name") == fld and e.get("adt") == adt for e in pl["proj"]):
        return True
    return False


def _reads_field(rv, adt, fld):
    k = rv["k"]
    if k == "use":
        return _reads_field_op(rv["op"], adt, fld)
    if k == "binop":
        return _reads_field_op(rv["a"], adt, fld) or _reads_field_op(rv["b"], adt, fld)
    if k in ("unop", "cast"):
        return _reads_field_op(rv.get("a") or rv.get("op"), adt, fld)
    if k == "aggregate":
        return any(_reads_field_op(o, adt, fld) for o in rv["ops"])
    return False


def _uses_local(rv, L):
    def op(o):
        return isinstance(o, dict) and o.get("place", {}).get("local") == L and not o["place"]["proj"]
    k = rv["k"]
    if k == "use":
        return op(rv["op"])
    if k == "binop":
        return op(rv["a"]) or op(rv["b"])
    if k in ("unop", "cast"):
        return op(rv.get("a") or rv.get("op"))
    if k == "aggregate":
        return any(op(o) for o in rv["ops"])
    return False


def _branch_only_prints(ft, sw_block):
    """the region controlled by the switch (blocks reachable from its successors before the common post-dominator)
    contains only formatting / printing calls and no assignment to non-temporary state"""
    cfg = ft.cfg
    succ = cfg.succ[sw_block]
    if len(succ) != 2:
        return False
    # join = first block reachable from both
    r0, r1 = cfg.reachable_from(succ[0]), cfg.reachable_from(succ[1])
    region = (r0 - r1) | (r1 - r0)
    for b in region:
        blk = ft.blocks[b]
        for st in blk["stmts"]:
            if st["k"] == "assign" and st["place"]["proj"] and st["place"]["proj"][0]["k"] == "deref":
                return False
        t = blk["term"]
        if t["k"] == "call":
            f = t["func"]
            n = strip_generics(f.get("resolved") or f.get("path", "")) if f.get("k") == "fn" else "?"
            if not (n.startswith("std::fmt") or n.startswith("core::fmt") or n.startswith("std::io::_eprint") or n.startswith("std::io::_print")):
                return False
        elif t["k"] == "return":
            return False
    return True


def _peel_copy(t):
    while t[0] in ("ref", "deref") or (t[0] == "call" and isinstance(t[1], str) and t[1].endswith("::clone") and t[2]):
        t = t[2] if t[0] == "ref" else (t[1] if t[0] == "deref" else t[2][0])
    return t


def _table_length(facts, fld):
    """N when some function of the crate builds the struct with `fld: vec![x; N]` for a constant N, else None"""
    found = set()
    for p2, f2 in facts.fns.items():
        if f2["kind"] not in ("Fn", "AssocFn"):
            continue
        hit = False
        for b2 in f2["blocks"]:
            for st2 in b2["stmts"]:
                rv2 = st2.get("rv") or {}
                if st2["k"] == "assign" and rv2.get("k") == "aggregate" and fld in (rv2.get("fields") or []):
                    hit = True
        if not hit:
            continue
        ft2 = fn_terms(facts, p2)
        for b2 in sorted(ft2.cfg.reach):
            for i2, st2 in enumerate(ft2.blocks[b2]["stmts"]):
                rv2 = st2.get("rv") or {}
                if st2["k"] == "assign" and rv2.get("k") == "aggregate" and fld in (rv2.get("fields") or []):
                    t2 = ft2.rvalue(rv2, b2, i2)
                    if t2[0] != "agg" or len(t2) < 5 or fld not in t2[4]:
                        return None
                    v2 = _peel_copy(t2[3][list(t2[4]).index(fld)])
                    if v2[0] == "call" and isinstance(v2[1], str) and v2[1].endswith("from_elem") and len(v2[2]) == 2:
                        n2 = const_int(v2[2][1])
                        if n2 is None:
                            return None
                        found.add(n2)
                    else:
                        return None
    return found.pop() if len(found) == 1 else None


def check_memo_table(facts, run, getter, fld, entries):
    """list of (ok, key, reason) for the memo table `fld` maintained by `getter`"""
    out = []
    ft = fn_terms(facts, getter)
    reads = [c for c in ft.calls() if c.callee and (c.callee.endswith("Index<I>>::index") or (c.callee.endswith("::get") and len(c.args) == 2 and ("slice" in c.callee or "Vec" in c.callee)))
             and any(x[0] == "field" and x[2] == fld for x in walk(c.args[0]))]
    writes = [c for c in ft.calls() if c.callee and c.callee.endswith("IndexMut<I>>::index_mut") and _mentions_field(c.args[0], fld)]
    if len(reads) != 1 or len(writes) != 1:
        return [(False, "shape", "expected one cached read and one write of %s in %s (found %d/%d) - unrecognised idiom, cannot decide" % (fld, getter, len(reads), len(writes)))]
    rd, wr = reads[0], writes[0]
    same_idx = strip_site(rd.args[1]) == strip_site(wr.args[1])
    out.append((same_idx, "same-slot", "the slot that is read (%s) is the slot that is written (%s)" % (fmt(rd.args[1])[:40], fmt(wr.args[1])[:40])))
    # fill-once: the write is dominated by `slot is None` (the non-Some edge of the discriminant switch on the read)
    none_guard = False
    for d, vals, other, excl, _b in ft.conditions(wr.block):
        if d[0] == "discr" and any(x[0] == "call" and len(x) > 3 and x[3] == (ft.path, rd.block) for x in walk(d)):
            if (other and 1 in excl) or (vals == [0]):
                none_guard = True
    out.append((none_guard, "fill-once", "the slot is written only on the path where it was just read as None"))
    # the stored value
    stored = None
    for (sb, spos, pl, rv) in ft.stores:
        if rv is None:
            continue
        ptr = ft.local_at(pl["local"], sb, spos)
        if ptr[0] == "call" and len(ptr) > 3 and ptr[3] == (ft.path, wr.block):
            stored = ft.rvalue(rv, sb, spos)
    if stored is None or not (stored[0] == "agg" and stored[2].endswith("::Some")):
        out.append((False, "stored-value", "the store is not `slot = Some(value)` - unrecognised idiom"))
        return out
    value = stored[3][0]
    # returned value on the miss path = stored value (else the first call that fills a slot answers differently from every
    # later call that finds it filled): every Ok result reachable after the store must carry the stored value itself
    from ..query import return_sites, is_variant as _isv
    miss_rets = []
    for rb_, t_ in return_sites(ft):
        if _isv(t_, "Ok") and (rb_ == wr.block or ft.cfg.can_reach(wr.block, rb_)) and ft.cfg.dominates(wr.block, rb_):
            miss_rets.append(t_)
    same_val = bool(miss_rets) and all(strip_site(_peel_copy(t_[3][0])) == strip_site(_peel_copy(value)) for t_ in miss_rets)
    out.append((same_val, "miss-returns-stored", "after filling the slot the function returns %s; the slot holds %s" % (
        [fmt(t_[3][0])[:50] for t_ in miss_rets] or "nothing found", fmt(value)[:50])))
    # key domain from every calling context of the getter
    eng = Engine(facts, precision=0)
    eng.analyze([(p, a) for p, a in entries if p in facts.fns])
    ctxs = [k for k in eng.live if k[0] == getter]
    if not ctxs:
        out.append((False, "key-domain", "the getter is not reached from any entry point - nothing to enumerate"))
        return out
    nkeys = 0
    top_slot = None
    collisions = []
    dom_desc = []
    # a key component may be a row of the table of faces handed over by reference: rows are identified by their position
    # (every row carries its position in `id`: decided on generate_origins), provided every caller passes a table row
    from .origin_common import id_is_position, row_of_table
    from ..consts import const_py
    row_params = {}
    enum_params = set()
    for i in range(2, ft.fn["arg_count"] + 1):
        ty = ft.fn["locals"][i]["ty"]
        if ty.startswith("&") and ty.lstrip("&").strip().endswith("utils::Origin"):
            okpos, whypos = id_is_position(facts)
            sites_ok = True
            nsite = 0
            for p2, f2 in facts.fns.items():
                if f2["kind"] not in ("Fn", "AssocFn", "Closure") or p2 in getattr(facts, "spliced_helpers", ()):
                    continue
                for c2 in fn_terms(facts, p2).calls():
                    if c2.callee == getter and len(c2.args) >= i:
                        nsite += 1
                        if row_of_table(c2.args[i - 1]) is None:
                            sites_ok = False
            nrows = len(const_py(facts, "a5::core::origin::ORIGIN_ORDER") or [])
            if not (okpos and sites_ok and nsite and nrows):
                out.append((False, "key-domain", "a key component is a &Origin that is not known to be a row of the face table identified by its position (%s; %d call sites, all rows: %s)" % (whypos, nsite, sites_ok)))
                return out
            row_params[i] = nrows
    for (_p, args) in ctxs:
        f = ft.fn
        params = []
        for i in range(2, f["arg_count"] + 1):
            a = args[i - 1]
            if i in row_params:
                params.append((i, 0, row_params[i] - 1))
                continue
            ty_ = f["locals"][i]["ty"]
            adt_ = facts.adts.get(facts.crate + "::" + ty_) or facts.adts.get(ty_)
            if adt_ is not None and adt_["kind"] == "Enum" and all(not v_["fields"] for v_ in adt_["variants"]):
                # a field-less enum is a small integer: its variant number
                params.append((i, 0, len(adt_["variants"]) - 1))
                enum_params.add(i)
                continue
            if a[0] != "i":
                params = None
                break
            params.append((i, a[1], a[2]))
        if params is None:
            out.append((False, "key-domain", "a key component is not an integer / bool"))
            return out
        size = 1
        for _i, lo, hi in params:
            size *= (hi - lo + 1)
        dom_desc.append(" x ".join("arg%d in [%d,%d]" % p_ for p_ in params))
        if size > 20000:
            out.append((False, "key-domain", "key domain too large to enumerate (%d): %s" % (size, dom_desc[-1])))
            return out
        slots = {}
        for combo in itertools.product(*[range(lo, hi + 1) for _i, lo, hi in params]):
            env = {("param", i): v for (i, _lo, _hi), v in zip(params, combo)}
            for (i, _lo, _hi), v in zip(params, combo):
                if i in row_params:
                    env[("field", ("deref", ("param", i)), "id")] = v
                if i in enum_params:
                    env[("discr", ("param", i))] = v
            assume = assumptions_by_eval(ft, env)
            if rd.block not in feasible_blocks(ft, assume):
                continue
            try:
                idx = ieval(ft, rd.args[1], env, assume)
            except Undetermined as e:
                out.append((False, "key-domain", "slot index is not a function of the key alone (%s)" % e))
                return out
            nkeys += 1
            # keys of the real domain (12 faces, 10 triangles per face), whatever intervals the calling contexts carry
            if isinstance(idx, int) and all(v < (12 if ft.fn["locals"][i]["ty"] == "u8" else 10 if ft.fn["locals"][i]["ty"] == "usize" else 1 << 30)
                                            for (i, _lo, _hi), v in zip(params, combo) if i not in row_params):
                top_slot = idx if top_slot is None else max(top_slot, idx)
            vt = _subst_env(deep_resolve(ft, value, assume), env)
            slots.setdefault(idx, {}).setdefault(strip_site(vt), []).append(combo)
        for idx, vs in slots.items():
            if len(vs) > 1:
                collisions.append((idx, [v[0] for v in vs.values()][:3]))
    out.append((not collisions, "key-injective",
                "slot index enumerated on %d admissible keys over %d calling context(s) [%s]: %s" % (
                    nkeys, len(ctxs), "; ".join(sorted(set(dom_desc)))[:160],
                    "distinct value-relevant keys never share a slot" if not collisions else "keys %s share slot %d but store different values" % (collisions[0][1], collisions[0][0]))))
    # the table has a slot for every key: its length, where the constructor gives it as a constant (`vec![None; N]`),
    # exceeds the largest slot index of the real key domain.  (A table one slot short turns the last key away at the
    # bounds guard: an Err for one triangle of one face.)  Other ways of sizing the table are not judged.
    n_slots = _table_length(facts, fld)
    if n_slots is not None and top_slot is not None:
        out.append((n_slots > top_slot, "table-holds-every-slot", "the table is built with %d slots; the largest slot index over faces 0..11 x triangles 0..9 x flags is %d" % (n_slots, top_slot)))
    else:
        out.append((True, "table-holds-every-slot", "not judged: the table length is not a constant given where the struct is built (length %s, largest slot %s)" % (n_slots, top_slot)))
    # key-only value: what the value computation can read
    leaves_ok = True
    bad_leaf = None
    for x in walk(value):
        if x[0] in ("escaped", "unknown", "static", "tls"):
            leaves_ok, bad_leaf = False, x
        if x[0] == "phi":
            continue
    callees = {x[1] for x in walk(deep_resolve(ft, value, {})) if x[0] == "call" and isinstance(x[1], str) and x[1] in facts.fns}
    from ..effects import Effects
    eff = Effects(facts)
    imp = eff.impure(sorted(callees), allow=("once", "tls")) if callees else {}
    imp = {e: w for e, w in imp.items() if e[0] != "tls" or True}
    tls_in_value = [e for e in (eff.transitive(sorted(callees)) if callees else {}) if e[0] == "tls"]
    out.append((leaves_ok and not imp and not tls_in_value, "key-only-value",
                "the stored value is computed by %s from the key; hidden inputs: %s" % (sorted(c.split("::")[-1] for c in callees), [e[:2] for e in imp] or "none")))
    return out


def _mentions_field(t, fld):
    for x in walk(t):
        if x[0] == "ref" and isinstance(x[3], str) and x[3].endswith("." + fld):
            return True
        if x[0] == "field" and x[2] == fld:
            return True
    return False


def _subst_env(t, env):
    if not isinstance(t, tuple):
        return t
    if t and t[0] == "param" and t in env:
        return ("const", "int", env[t], None, None)
    if t and t[0] in ("const", "static", "tls", "fnref", "promoted"):
        return t
    return tuple(_subst_env(x, env) for x in t)


def check_confinement(facts, run, eff, cg):
    getter = TLS_GETTER
    if getter not in facts.fns:
        run.missing("C13.P5", getter)
        return
    callers = sorted(cg.callers(getter))
    run.floor("C13.P5", "callers of the thread-local accessor", len(callers), 4)
    spliced = set(getattr(facts, "spliced_helpers", ()))
    for p in callers:
        if p in spliced and not cg.callers(p):
            # a private wrapper around the accessor that has been spliced into every caller: its body is examined there
            continue
        ft = fn_terms(facts, p)
        okall = True
        why = []
        for c in ft.calls():
            if c.callee != getter:
                continue
            L = c.dest["local"]
            site = (ft.path, c.block)
            for c2 in ft.calls():
                for ai, a in enumerate(c2.args):
                    if _is_site(a, site):
                        if ai != 0 or not (c2.callee or "").startswith("a5::projections::dodecahedron::DodecahedronProjection::"):
                            okall = False
                            why.append("passed to %s as argument %d" % (c2.callee, ai))
            # stored into an aggregate or returned?
            for b in sorted(ft.cfg.reach):
                for i, st in enumerate(ft.blocks[b]["stmts"]):
                    if st["k"] == "assign" and st["rv"]["k"] == "aggregate":
                        t = ft.rvalue(st["rv"], b, i)
                        if t[0] == "agg" and any(_is_site(o, site) for o in t[3]):
                            if t[1] == "closure":
                                if t[2] in getattr(facts, "consumed_closures", ()):
                                    continue   # every call of this closure was spliced in here: its uses of the reference are the uses examined above
                                bad_use = _closure_keeps_receiver_only(facts, ft, t, [k for k, o in enumerate(t[3]) if _is_site(o, site)])
                                if bad_use is None:
                                    continue   # captured by a closure that is consumed here and only calls methods on it
                                okall = False
                                why.append("captured by closure: " + bad_use)
                                continue
                            okall = False
                            why.append("stored into %s" % st["rv"].get("adt", st["rv"]["agg"]))
            for rb in ft.return_blocks():
                rt = ft.return_term(rb)
                if _is_site(rt, site):
                    okall = False
                    why.append("returned")
        run.inst("C13.P5", "confined:" + p.split("::")[-1], okall, "the per-thread reference is used only as a method receiver in %s%s" % (p.split("::")[-1], "" if okall else ": " + "; ".join(why)), where(ft.fn["span"]))
    # no thread creation or cross-thread channels inside the library
    bad = []
    for p, f in facts.fns.items():
        if f["kind"] not in ("Fn", "AssocFn", "Closure"):
            continue
        for b in f["blocks"]:
            t = b["term"]
            if t["k"] == "call" and t["func"].get("k") == "fn":
                n = strip_generics(t["func"].get("resolved") or t["func"]["path"])
                if any(n.startswith(s_) for s_ in ("std::thread::spawn", "std::thread::scope", "std::thread::Builder", "std::sync::mpsc", "std::sync::Arc")):
                    bad.append((p, n))
    run.inst("C13.P5", "no-thread-creation", not bad, "the library spawns no threads and creates no channels/Arc (%s)" % (bad or "none found"))
    # no hand-written `unsafe impl` (Send/Sync on a wrapper is how a per-thread object gets shared)
    ui = [i for i in facts.impls if i["unsafe"] and not (i["from_expansion"] and i["span"].get("exp_crate") in ("std", "core", "alloc"))]
    run.inst("C13.P5", "no-unsafe-impl", not ui, "hand-written unsafe trait impls: %s" % ([(i["trait"], i["self_ty"]) for i in ui] or "none"),
             where(ui[0]["span"]) if ui else None)
    # whoever hands out a long-lived mutable reference to the memo object must take it from thread-local storage
    objs = object_types(facts)
    obj_names = [o.split("::", 1)[1] for o in objs] + [o.split("::")[-1] for o in objs]
    for p, f in sorted(facts.fns.items()):
        if f["kind"] not in ("Fn", "AssocFn"):
            continue
        rt = f["ret_ty"]
        if rt.startswith("&") and " mut " in (" " + rt.replace("&", "& ")) and any(rt.rstrip().endswith(n) for n in obj_names) and "'static" in rt:
            has_tls = any(e[0] == "tls" for e in eff.transitive([p]))
            run.inst("C13.P5", "accessor-thread-local:" + p.split("::")[-1], has_tls,
                     "%s returns %s: the object comes from %s" % (p.split("::")[-1], rt, "thread-local storage" if has_tls else "somewhere that is NOT thread-local (shared across threads)"), where(f["span"]))
