"""C04 - all cells of a resolution have equal area.
Decided: R1 the boundary is subdivided in the plane *before* unprojection (every face point handed to the
inverse projection in cell_to_boundary is an element of split_edges(get_pentagon(cell), n)); R2 the tabulated
per-resolution area equals authalic area / cell count (values read from the MIR's switch, quotient computed
by the checker from the extracted constants).  Not decided: that the projection preserves area (C16)."""
from ..terms import fn_terms, fmt, strip_site, walk, const_float
from ..query import loops_of, fn_table, const_tree, fconst, closures_of, closure_subst, closure_item_source
from ..consts import const_py
from ..run import where
from .cell_common import *

AREA = "a5::core::cell_info::cell_area"
NUM = "a5::core::cell_info::get_num_cells"
SPLIT = "a5::geometry::pentagon::PentagonShape::split_edges"
VERTS = "a5::geometry::pentagon::PentagonShape::get_vertices_vec"

EXPL = ("MPT/PROV: in cell_to_boundary the inverse projection is applied only to points iterated from "
        "get_vertices_vec(split_edges(get_pentagon(decode(cell)), n)) with the decoded cell's own face: subdivision "
        "happens in the plane before unprojection, so the ring follows the true cell edge. TAB: each of the 31 area "
        "literals returned by cell_area equals AUTHALIC_AREA / N(r), N(0)=12, N(r)=60*4^(r-1), to 1e-12 relative, and "
        "negative resolutions return the whole-sphere area. Equal area of the cells themselves is NOT decided.")


def run(ctx):
    facts, run = ctx.facts, ctx.run
    run.explanation = EXPL
    run.rule_text = "C04.R1 provenance of every argument of the inverse projection; C04.R2 table predicate on 31+1 area values"
    # ---- R1
    if C2B not in facts.fns:
        run.missing("C04.R1", C2B)
    else:
        ft = fn_terms(facts, C2B)
        invs = [(c, None) for c in ft.calls() if c.callee == INV]
        for cp in closures_of(facts, C2B):
            invs += [(c, cp) for c in fn_terms(facts, cp).calls() if c.callee == INV]
        run.floor("C04.R1", "inverse-projection call sites in cell_to_boundary", len(invs), 1)
        lps = loops_of(ft)
        for c, cp in invs:
            a1, a2 = c.args[1], c.args[2]
            source = None
            if cp is not None:
                # the call sits in a closure handed to an iterator adaptor: captured variables are read in the enclosing
                # function, the closure's item parameter ranges over the adapted iterator
                a1, a2 = closure_subst(facts, cp, a1), closure_subst(facts, cp, a2)
                its = closure_item_source(facts, cp)
                if a1 is None or a2 is None or its is None or its[0].path != C2B:
                    run.bad("C04.R1", "split-before-unproject", "inverse projection called from a closure whose use cannot be resolved - unrecognised idiom", where(c.span))
                    continue
                if peel(a1) == ("param", 2):
                    source = its[1]
            pt = peel(a1)
            ok = False
            why = "face point %s is not an element of the split pentagon" % fmt(pt)
            if source is None and pt[0] == "payload" and pt[1] == "Some":
                lp = [l for l in lps if l.next and strip_site(l.item) == strip_site(pt)]
                if lp and lp[0].source is not None:
                    source = lp[0].source
            if source is not None:
                if True:
                    src = peel(source)
                    views = []
                    while src[0] == "call" and src[1] != SPLIT and src[2] and (
                            src[1].endswith("::into_iter") or src[1].endswith("::iter") or src[1] == VERTS or src[1].endswith("::as_slice")):
                        views.append(src[1])
                        src = peel(src[2][0])
                    if src[0] == "call" and src[1] == SPLIT and VERTS in views and pentagon_of_decoded(src[2][0]):
                        ok = True
                        why = "unprojected points are iterated from get_vertices_vec(split_edges(get_pentagon(decode(cell)), n))"
                    else:
                        why = "iterated collection is %s, expected the vertices of split_edges(get_pentagon(decode(cell)), n)" % fmt(source)
            run.inst("C04.R1", "split-before-unproject", ok, why, where(c.span))
            face_ok = peel(a2)[0] == "field" and peel(a2)[2] == "origin_id" and decoded_cell(peel(a2)[1])
            run.inst("C04.R1", "unproject-own-face", face_ok, "inverse projection uses face %s" % fmt(a2), where(c.span))
    # ---- R2
    if AREA not in facts.fns:
        run.missing("C04.R2", AREA)
        return
    total = const_py(facts, "a5::core::cell_info::AUTHALIC_AREA")
    if total is None:
        run.missing("C04.R2", "a5::core::cell_info::AUTHALIC_AREA")
        return
    tab = fn_table(facts, AREA, range(-2, 31))
    # the literals may live in a constant table read with `.get(resolution as usize)` / indexing instead of a match
    fa = fn_terms(facts, AREA)
    from ..query import _cval, ieval, Undetermined, returns_under as _ru, deep_resolve as _dr
    lookups = [c for c in fa.calls() if c.callee and c.callee.split("::")[-1] in ("get", "index") and len(c.args) == 2]
    table_val = None
    if len(lookups) == 1:
        tv = _cval(fa, lookups[0].args[0], {})
        if isinstance(tv, (list, tuple)) and tv and all(isinstance(x, float) for x in tv):
            table_val = list(tv)
    n_lit = 0
    for r in range(-2, 31):
        t = tab[r]
        v = const_tree(t) if t is not None else None
        if t is None and table_val is not None:
            lk = lookups[0]
            call_t = ("call", lk.callee, tuple(lk.args), (fa.path, lk.block))
            try:
                idx = ieval(fa, lk.args[1], {("param", 1): r})
            except Undetermined:
                idx = None
            if idx is not None:
                hit = 0 <= idx < len(table_val)
                A = {("param", 1): r, strip_site(("discr", call_t)): 1 if hit else 0}
                rs = [_dr(fa, x, A) for x in _ru(fa, A)]
                if len(rs) == 1:
                    t = rs[0]
                    leaf = t
                    while leaf[0] in ("deref", "ref"):
                        leaf = leaf[1] if leaf[0] == "deref" else leaf[2]
                    if hit and leaf[0] == "payload" and leaf[1] == "Some" and strip_site(leaf[2]) == strip_site(call_t):
                        v = table_val[idx]
                    elif not hit:
                        v = const_tree(t)
        if r < 0:
            run.inst("C04.R2", "area[%d]" % r, v == total, "cell_area(%d) = %s (whole authalic sphere %s)" % (r, v, total), nontrivial=False)
            continue
        n = 12 if r == 0 else 60 * 4 ** (r - 1)
        want = total / n
        if v is None:
            # computed form: must be AUTHALIC_AREA / get_num_cells(r)
            okc = t is not None and t[0] == "bin" and t[1] == "Div" and fconst(t[2]) == total and any(x[0] == "call" and x[1] == NUM for x in walk(t[3]))
            run.inst("C04.R2", "area[%d]" % r, okc, "cell_area(%d) is computed as %s" % (r, fmt(t) if t else None))
            continue
        n_lit += 1
        run.inst("C04.R2", "area[%d]" % r, abs(v - want) <= 1e-12 * want, "cell_area(%d) = %.17g, AUTHALIC_AREA/%d = %.17g (rel. diff %.1e)" % (r, v, n, want, abs(v - want) / want))
    run.extra["area_literals"] = n_lit
    run.floor("C04", "rule instances", len(run.instances), 30)
