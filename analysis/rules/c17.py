"""C17 - within a quintant the curve position <-> cell mapping is a bijection.
Decided: the structural preconditions H1..H7 of DESIGN section 6 (tables are permutations,
reversed tables are the inverses of the forward tables they are paired with, both walks use
the same orientation flags, rewrite every digit in opposite order, same reverse involution).
Not decided: injectivity over all 4^n positions (needs enumeration or proof)."""
from ..terms import fn_terms, fmt, strip_site, walk, is_const, const_int
from ..query import fn_table, const_tree, linear, return_under
from ..consts import const_py
from ..run import where
from .hilbert_common import *

EXPL = ("Static structural preconditions of the curve bijection: digit-shift tables are permutations of 0..8; "
        "each inverse-walk table is produced by an index/value swap of the forward table it is paired with; "
        "s_to_anchor and ij_to_s derive reverse/invert_j/flip_ij from identical orientation sets; both walks call "
        "shift_digits for every digit, forward descending / inverse ascending; flip alphabet is {-1,+1}; the reverse "
        "involution 4^n-1-s is the same on both sides.  The bijection itself over all 4^n positions is NOT decided.")


def is_perm(v, n):
    return isinstance(v, list) and sorted(v) == list(range(n))


def inverse_table_origin(facts, name):
    """For the global used by the inverse walk: ('const', value) or ('init', fn path, arg globals, callee)"""
    if name in facts.consts:
        return ("const", const_py(facts, name))
    if name in facts.statics:
        short = name.split("::")[-1]
        # lazy_static!: <NAME as Deref>::deref::__static_ref_initialize ; LazyLock/OnceLock: fn ref in the static's initialiser
        cands = [p for p in facts.fns if "__static_ref_initialize" in p and ("::%s as " % short) in p and facts.fns[p]["kind"] == "Fn"]
        if not cands and name in facts.fns:
            ft = fn_terms(facts, name)
            for b in ft.return_blocks():
                for x in walk(ft.return_term(b)):
                    if x[0] == "fnref" and x[1] in facts.fns:
                        cands.append(x[1])
        if len(cands) == 1:
            ft = fn_terms(facts, cands[0])
            rbs = ft.return_blocks()
            if len(rbs) == 1:
                rt = ft.return_term(rbs[0])
                if rt[0] == "call" and isinstance(rt[1], str):
                    return ("init", cands[0], globals_in(facts, rt), rt[1])
    return None


def check_swap(facts, path):
    """Does `path` (fn(&[usize]) -> Vec<usize>) compute the inverse permutation: result[input[i]] = i ?"""
    if path not in facts.fns:
        return False, "function %s not found" % path
    ft = fn_terms(facts, path)
    rbs = ft.return_blocks()
    hits = 0
    writes = list(ft.stores)
    for b_ in sorted(ft.cfg.reach):
        for i_, st_ in enumerate(ft.blocks[b_]["stmts"]):
            if st_["k"] == "assign" and st_["place"]["proj"] and st_["place"]["proj"][0]["k"] != "deref" and st_["place"]["proj"][-1]["k"] == "index":
                writes.append((b_, i_, st_["place"], st_["rv"]))      # element of a local array written in place
    for (b, pos, pl, rv) in writes:
        if rv is None:
            continue
        ptr = ft.local_at(pl["local"], b, pos)
        val = ft.rvalue(rv, b, pos)
        if pl["proj"] and pl["proj"][-1]["k"] == "index" and len(pl["proj"]) <= 2 and all(e["k"] == "deref" for e in pl["proj"][:-1]):
            # the result is a fixed-size array (or a slice) written in place: result[idx] = val
            idx = ft.local_at(pl["proj"][-1]["local"], b, pos)
        elif ptr[0] != "call" or not isinstance(ptr[1], str) or not ptr[1].endswith("IndexMut<I>>::index_mut"):
            continue
        else:
            idx = ptr[2][1]
        # (integer width changes of the index / the value are not the swap's business: whether they fit is C14's)
        while idx[0] == "cast" and idx[1] == "IntToInt":
            idx = idx[2]
        while val[0] == "cast" and val[1] == "IntToInt":
            val = val[2]
        # enumerate idiom: idx = *item.1, val = item.0 with item = payload(Some, Enumerate::next(..))
        if idx[0] == "deref" and idx[1][0] == "field" and str(idx[1][2]) == "1" and val[0] == "field" and str(val[2]) == "0":
            if strip_site(idx[1][1]) == strip_site(val[1]) and val[1][0] == "payload":
                nxt = val[1][2]
                if nxt[0] == "call" and "Enumerate" in nxt[1] and nxt[1].endswith("::next"):
                    hits += 1
                    continue
        # range idiom: idx = input[i], val = i
        if idx[0] in ("deref", "index", "call"):
            inner = [x for x in walk(idx) if strip_site(x) == strip_site(val)]
            if inner and any(x == ("param", 1) for x in walk(idx)):
                hits += 1
                continue
        return False, "store through index_mut is not result[input[i]] = i (index %s, value %s)" % (fmt(idx), fmt(val))
    if hits != 1:
        return False, "unrecognised idiom - cannot decide (%d index/value-swap stores found)" % hits
    return True, "single store result[input[i]] = i over an enumeration of the input"


def loop_direction(ft, idx_term):
    """'desc' / 'asc' / None for an index produced by iterating a Range (optionally reversed)"""
    t = idx_term
    # hand-written ascending counter recognised by the loop layer (`let mut i = 0; while i < end { .. i += 1 }`)
    from ..query import loops_of as _loops_of
    for lp in _loops_of(ft):
        if getattr(lp, "counter", False) and lp.item is not None and strip_site(lp.item) == strip_site(t):
            start, end = lp.source[3]
            if const_int(start) == 0:
                return "asc", end
    # hand-written counters: `let mut i = end; while i > 0 { i -= 1; use(i) }` walks end-1 .. 0,
    # `let mut i = 0; while i < end { use(i); i += 1 }` walks 0 .. end-1
    cnt, off = t, 0
    if t[0] == "bin" and t[1] in ("Sub", "Add") and const_int(t[3]) is not None:
        cnt, off = t[2], const_int(t[3]) * (1 if t[1] == "Add" else -1)
    if cnt[0] == "phi" and cnt[1] == ft.path:
        loops = ft.cfg.loops()
        body = loops.get(cnt[2])
        if body is not None:
            ops = ft.phi_operands(cnt)
            inits = [v for p, v in ops.items() if p not in body]
            backs = [v for p, v in ops.items() if p in body]

            def step(v):
                if v[0] == "bin" and v[1] in ("Add", "Sub") and strip_site(v[2]) == strip_site(cnt) and const_int(v[3]) is not None:
                    return const_int(v[3]) * (1 if v[1] == "Add" else -1)
                return None
            steps = {step(v) for v in backs}
            guard = None
            tm = ft.blocks[cnt[2]]["term"]
            if tm["k"] == "switch":
                guard = ft.switch_term(cnt[2])
            if len(inits) == 1 and steps == {-1} and off == -1 and guard is not None and guard[0] == "bin" and guard[1] == "Gt" \
                    and strip_site(guard[2]) == strip_site(cnt) and const_int(guard[3]) == 0:
                return "desc", inits[0]
            if len(inits) == 1 and steps == {1} and off == 0 and const_int(inits[0]) == 0 and guard is not None and guard[0] == "bin" and guard[1] == "Lt" \
                    and strip_site(guard[2]) == strip_site(cnt):
                return "asc", guard[3]
    if t[0] != "payload" or t[2][0] != "call":
        return None, "index is not produced by an iterator"
    nxt = t[2]
    name = nxt[1]
    if not name.endswith("::next"):
        return None, "index is not produced by Iterator::next"
    # the iterator object: follow the &mut to the loop-carried local
    it = nxt[2][0]
    seen = 0
    src = None
    while seen < 10:
        seen += 1
        if it[0] in ("ref", "deref"):
            it = it[2] if it[0] == "ref" else it[1]
            continue
        if it[0] == "phi":
            ops = [x for x in ft.phi_operands(it).values() if x[0] != "escaped"]
            if len(ops) != 1:
                return None, "iterator has several sources"
            it = ops[0]
            continue
        src = it
        break
    if src is None:
        return None, "iterator source not found"
    calls = [x[1] for x in walk(src) if x[0] == "call" and isinstance(x[1], str)]
    rng = [x for x in walk(src) if x[0] == "agg" and x[2].startswith("std::ops::Range::")]
    if not rng:
        return None, "iterator is not built from a Range"
    start, end = rng[0][3][0], rng[0][3][1]
    if const_int(start) != 0:
        return None, "range does not start at 0"
    rev = any(".rev" in c or c.endswith("::rev") for c in calls)
    return ("desc" if rev else "asc"), end


def run(ctx):
    facts, run = ctx.facts, ctx.run
    run.explanation = EXPL
    run.rule_text = "TAB/SIB/PROV/MPT rules C17.H1-H7 over hilbert.rs; instance = (rule, table or function pair)"
    for p in (S2A, S2A_INT, IJ2S, IJ2S_INT, SHIFT):
        if p not in facts.fns:
            run.missing("C17.ANCHOR", p)
            return
    fw = walker_roles(facts, S2A_INT)
    iv = walker_roles(facts, IJ2S_INT)
    if not fw or fw["sel"] is None or fw["inv"] is None:
        run.bad("C17.H4", "forward-walk-roles", "cannot identify the pattern selector / invert_j parameters of s_to_anchor_internal by data flow")
        return
    if not iv or iv["sel"] is None or iv["inv"] is None:
        run.bad("C17.H4", "inverse-walk-roles", "cannot identify the pattern selector / invert_j parameters of ij_to_s_internal by data flow")
        return

    # H1: forward tables are permutations
    ftabs = {}
    for k in (0, 1):
        names = fw["tables"][k]
        if len(names) != 1:
            run.bad("C17.H1", "forward-table-%d" % k, "forward walk selects %s (expected one table)" % sorted(names))
            continue
        name = next(iter(names))
        v = const_py(facts, name)
        ftabs[k] = (name, v)
        run.inst("C17.H1", "perm:" + name, is_perm(v, 8), "%s = %s %s a permutation of 0..8" % (name.split("::")[-1], v, "is" if is_perm(v, 8) else "is NOT"),
                 where(facts.consts[name]["span"]) if name in facts.consts else None)

    # H2/H4: inverse tables are index/value swaps of the paired forward table
    for k in (0, 1):
        names = iv["tables"][k]
        if len(names) != 1 or k not in ftabs:
            run.bad("C17.H4", "inverse-table-%d" % k, "inverse walk selects %s (expected one table)" % sorted(names))
            continue
        rname = next(iter(names))
        fname, fval = ftabs[k]
        org = inverse_table_origin(facts, rname)
        sel = "flip_ij" if k else "!flip_ij"
        if org is None:
            run.bad("C17.H2", "origin:" + rname, "cannot find how %s is initialised - unrecognised idiom, cannot decide" % rname)
            continue
        if org[0] == "const":
            inv = [fval.index(i) for i in range(8)] if is_perm(fval, 8) else None
            run.inst("C17.H4", "pair[%s]" % sel, org[1] == inv, "%s == inverse permutation of %s" % (rname.split("::")[-1], fname.split("::")[-1]))
            continue
        _, initfn, globs, callee = org
        run.inst("C17.H4", "pair[%s]" % sel, globs == {fname},
                 "inverse walk under %s uses %s, initialised by %s from %s; forward walk uses %s" % (
                     sel, rname.split("::")[-1], callee.split("::")[-1], sorted(g.split("::")[-1] for g in globs), fname.split("::")[-1]),
                 where(facts.fns[initfn]["span"]))
        ok, why = check_swap(facts, callee)
        run.inst("C17.H2", "swap:%s(%s)" % (callee.split("::")[-1], rname.split("::")[-1]), ok, why, where(facts.fns[callee]["span"]) if callee in facts.fns else None)

    # H3: identical orientation sets
    a, ea = orientation_flags(facts, S2A, S2A_INT)
    b, eb = orientation_flags(facts, IJ2S, IJ2S_INT)
    if a is None or b is None:
        run.bad("C17.H3", "flags", ea or eb)
    else:
        for nm in ("invert_j", "flip_ij"):
            run.inst("C17.H3", "flag:" + nm, a[nm] == b[nm], "s_to_anchor %s = %s ; ij_to_s %s = %s" % (nm, sorted(a[nm]), nm, sorted(b[nm])))
        oa = sorted(sorted(s) for _, s in a["others"])
        ob = sorted(sorted(s) for _, s in b["others"])
        run.inst("C17.H3", "flag:reverse", oa == ob and len(oa) == 1, "remaining orientation-derived flag (reverse): s_to_anchor %s ; ij_to_s %s" % (oa, ob))
        # non-degenerate: the three flags distinguish all 6 orientations
        if len(oa) == 1:
            sig = {}
            for _d, name in enum_variants(facts, ORIENT):
                sig.setdefault((name in a["invert_j"], name in a["flip_ij"], name in oa[0]), []).append(name)
            run.inst("C17.H3", "flags-separate-orientations", all(len(v) == 1 for v in sig.values()),
                     "the flag triple is distinct for each of the %d orientations: %s" % (len(enum_variants(facts, ORIENT)), sorted(sig.values())))

    # H4b: both walks hand their own invert_j to shift_digits (role already located) and the same flips/digits
    run.ok("C17.H4", "invert_j-forwarded", "s_to_anchor_internal passes parameter %d, ij_to_s_internal passes parameter %d as shift_digits' invert_j; pattern selected by parameters %d / %d" % (
        fw["inv"], iv["inv"], fw["sel"], iv["sel"]))

    # H5: every digit index, opposite order
    dirs = {}
    for nm, path, roles in (("forward", S2A_INT, fw), ("inverse", IJ2S_INT, iv)):
        ft = fn_terms(facts, path)
        cs = roles["calls"]
        if len(cs) != 1:
            run.bad("C17.H5", nm + "-walk", "expected exactly one shift_digits call site in %s, found %d" % (path, len(cs)))
            continue
        c = cs[0]
        d, end = loop_direction(ft, c.args[1])
        if d is None:
            run.bad("C17.H5", nm + "-walk", "unrecognised loop idiom - cannot decide (%s)" % end, where(c.span))
            continue
        # the range end must be the length of the very digit vector handed to shift_digits
        digs = c.args[0]
        vec_ids = {strip_site(x) for x in walk(digs) if x[0] in ("phi", "call", "escaped")}
        end_ok = end[0] == "call" and end[1].endswith("::len") or end[0] == "param"
        dirs[nm] = d
        run.inst("C17.H5", nm + "-walk", end_ok, "%s calls shift_digits for i in 0..%s, %s" % (path.split("::")[-1], fmt(end), "descending" if d == "desc" else "ascending"), where(c.span))
        # the loop containing the call must not have an early exit other than iterator exhaustion
    if len(dirs) == 2:
        run.inst("C17.H5", "opposite-order", dirs["forward"] == "desc" and dirs["inverse"] == "asc",
                 "forward walk %s, inverse walk %s (must be descending / ascending)" % (dirs["forward"], dirs["inverse"]))

    # H6: flip alphabet
    q2f = "a5::core::hilbert::quaternary_to_flips"
    if q2f not in facts.fns:
        run.missing("C17.H6", q2f)
    else:
        tab = fn_table(facts, q2f, range(0, 4))
        vals = {v: const_tree(t) for v, t in tab.items()}
        ok = all(isinstance(x, list) and len(x) == 2 and all(y in (-1, 1) for y in x) for x in vals.values())
        run.inst("C17.H6", "flip-alphabet", ok, "quaternary_to_flips maps 0..3 to %s (every entry must be +-1)" % vals)
        yes, no = const_py(facts, "a5::core::hilbert::YES"), const_py(facts, "a5::core::hilbert::NO")
        run.inst("C17.H6", "YES/NO", {yes, no} == {-1, 1}, "YES=%s NO=%s (must be -1/+1 so that products stay in the alphabet)" % (yes, no))

    # H7: the same reverse involution 4^n - 1 - s on both sides
    if a and b and len(a["others"]) == 1 and len(b["others"]) == 1:
        fta, ftb = fn_terms(facts, S2A), fn_terms(facts, IJ2S)
        ca, cb = a["call"], b["call"]
        # forward: first argument of the walker under reverse; inverse: returned value under reverse
        from ..query import resolve_under
        ka = strip_site(fta.switch_term(a["others"][0][0]))
        kb = strip_site(ftb.switch_term(b["others"][0][0]))
        ta = resolve_under(fta, ca.args[0], {ka: 1}) if ca.args[0][0] == "phi" else ca.args[0]
        rb = [ftb.return_term(x) for x in ftb.return_blocks()]
        tb = resolve_under(ftb, rb[0], {kb: 1}) if rb and rb[0][0] == "phi" else (rb[0] if rb else None)
        ta0 = resolve_under(fta, ca.args[0], {ka: 0}) if ca.args[0][0] == "phi" else None
        tb0 = resolve_under(ftb, rb[0], {kb: 0}) if rb and rb[0][0] == "phi" else None

        def shape(t, x, res):
            if t is None:
                return False, "no unique value under reverse"
            co, k = linear(t)
            want_pow = None
            xs = strip_site(x)
            pows = [u for u in co if u[0] == "bin" and u[1] == "Shl"]
            if k != -1 or co.get(xs) != -1 or len(pows) != 1 or co[pows[0]] != 1 or len(co) != 2:
                return False, "reverse form is %s, expected (1 << 2n) - s - 1" % fmt(t)
            p = pows[0]
            base, sh = p[2], p[3]
            lc, lk = linear(sh)
            if const_int(base) != 1 or lk != 0 or lc != {strip_site(res): 2}:
                return False, "power is %s, expected 1 << (2 * resolution)" % fmt(p)
            return True, "(1 << 2n) - s - 1 with n = the depth handed to the walker"

        res_a = ca.args[1]
        res_b = cb.args[[i for i in (0, 1, 2, 3) if i + 1 not in (iv["inv"], iv["sel"]) and i != 0][0]] if len(cb.args) == 4 else None
        oka, whya = shape(ta, ("param", 1), res_a)
        okb, whyb = shape(tb, ("call",) + tuple(strip_site(("call", cb.callee, tuple(cb.args), None))[1:]), res_b) if tb is not None else (False, "no value")
        # simpler for the inverse side: the subtracted atom must be the walker's result
        if tb is not None:
            co, k = linear(tb)
            callres = [u for u in co if u[0] == "call" and u[1] == IJ2S_INT]
            pows = [u for u in co if u[0] == "bin" and u[1] == "Shl"]
            okb = (k == -1 and len(co) == 2 and len(callres) == 1 and co[callres[0]] == -1 and len(pows) == 1 and co[pows[0]] == 1
                   and const_int(pows[0][2]) == 1 and linear(pows[0][3]) == ({strip_site(res_b): 2}, 0))
            whyb = "returned value under reverse is %s" % fmt(tb)
        run.inst("C17.H7", "reverse-forward", oka, whya, where(ca.span))
        run.inst("C17.H7", "reverse-inverse", okb, whyb, where(cb.span))
        run.inst("C17.H7", "identity-when-not-reversed", ta0 == ("param", 1) and tb0 is not None and tb0[0] == "call" and tb0[1] == IJ2S_INT,
                 "without reverse the position is passed / returned unchanged (%s ; %s)" % (fmt(ta0) if ta0 else None, fmt(tb0) if tb0 else None))
    run.floor("C17", "rule instances", len(run.instances), 18)
