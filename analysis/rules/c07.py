"""C07 - parent/children form one consistent tree over all resolutions.
Decided: T1 every cell handed to serialize by the hierarchy functions carries the guarded target resolution;
T2 children keep face/segment of the decoded parent except the documented fan-outs (12 faces under the world
cell, 5 segments under a base cell); parent keeps both; T3 two bits per level on both sides (4^d children,
shift 2d, same d); T4 children are (s << 2d) + i for the contiguous range i in [0, 4^d), one serialize+push per
triple; T5 guard orientation; get_res0_cells = cell_to_children(WORLD_CELL, Some(0)).
Not decided: distinctness / exactly-one-parent covering as theorems over all cells."""
from ..terms import fn_terms, fmt, strip_site, walk, const_int, is_const
from ..query import (option_default, loops_of, every_iteration, returns_under, is_variant, linear, ieval, Undetermined, leaves_under,
                     regime_assumptions, deep_resolve)
from ..consts import const_py
from ..run import where
from .cell_common import peel, DES, SER

S = "a5::core::serialization::"
CHILDREN, PARENT, RES0 = S + "cell_to_children", S + "cell_to_parent", S + "get_res0_cells"

EXPL = ("PROV/SIB/GUARD rules on cell_to_children / cell_to_parent derived from MIR terms: target-resolution "
        "provenance, fan-out sets (0..12 faces = length of the face table, segments {0..4} = residues of the codec's mod 5), "
        "4^d children with shift 2d for the same d = target - max(current, first curve resolution - 1), parent shift "
        "2*(current - target), contiguous child enumeration, guard orientation. The tree theorems (distinctness, unique "
        "parent, exact cover) are NOT decided.")


def dec_field(t, name):
    """t == decode(param1).<name>"""
    t = peel(t)
    return t[0] == "field" and t[2] == name and t[1][0] == "payload" and t[1][1] == "Ok" and t[1][2][0] == "call" and t[1][2][1] == DES and peel(t[1][2][2][0]) == ("param", 1)


def literal_seq(t):
    """elements of a literal sequence - vec![..], an array, or a borrowed / unsized view of one - else None"""
    for _ in range(8):
        if t[0] in ("ref", "deref"):
            t = t[2] if t[0] == "ref" else t[1]
        elif t[0] == "cast" and t[1] in ("PointerCoercion", "Unsize"):
            t = t[2]
        elif t[0] == "call" and isinstance(t[1], str) and len(t[2]) == 1 and t[1].split("::")[-1] in ("as_slice", "deref", "to_vec", "into_vec", "iter", "into_iter"):
            t = t[2][0]
        else:
            break
    if t[0] == "agg" and t[1] in ("vec", "array"):
        return list(t[3])
    if t[0] == "agg" and isinstance(t[2], str) and t[2].startswith("std::ops::Range::") and len(t[3]) == 2:
        a, b = t[3]
        if const_int(a) is not None and const_int(b) is not None and 0 <= const_int(b) - const_int(a) <= 64:
            ty = a[4] if len(a) > 4 else None
            return [("const", "int", v, None, ty) for v in range(const_int(a), const_int(b))]
        co, k = linear(b)
        if k == 1 and co == {strip_site(a): 1}:
            return [a]          # x..x+1
    return None


def collapse_refs(t):
    """*&x -> x everywhere (values that travelled through closure captures)"""
    if not isinstance(t, tuple) or not t:
        return t
    if t[0] == "deref" and isinstance(t[1], tuple) and t[1] and t[1][0] == "ref":
        return collapse_refs(t[1][2])
    return tuple(collapse_refs(x) for x in t)


def struct_view(ft, cell):
    """{field: value} of the A5Cell handed to serialize, whether it is built in one literal or built once and then
    updated field by field (a loop-carried struct whose `s` is assigned per iteration)"""
    from ..query import field_of
    out = {}
    for name in ("origin_id", "segment", "s", "resolution"):
        v = field_of(ft, cell, name)
        if v is None or v == ("self",):
            return None
        out[name] = v
    return out


def run(ctx):
    facts, run = ctx.facts, ctx.run
    run.explanation = EXPL
    run.rule_text = "C07.T1-T5 over serialization.rs hierarchy functions"
    for p in (CHILDREN, PARENT, RES0):
        if p not in facts.fns:
            run.missing("C07", p)
            return
    first = const_py(facts, S + "FIRST_HILBERT_RESOLUTION")
    # ------------------------------------------------ children
    ft = fn_terms(facts, CHILDREN)
    w = where(facts.fns[CHILDREN]["span"])
    sers = [c for c in ft.calls() if c.callee == SER]
    run.floor("C07.T1", "serialize call sites in cell_to_children", len(sers), 1)
    lps = loops_of(ft)
    def decoded(t):
        t = peel(t)
        return t[0] == "payload" and t[1] == "Ok" and t[2][0] == "call" and t[2][1] == DES and peel(t[2][2][0]) == ("param", 1)

    def same_res_guard(ftx, c):
        """serialize(decoded cell) is the canonical form of the input itself: only valid when target == current"""
        for d, vals, other, excl, _b in ftx.conditions(c.block):
            if d[0] == "bin" and d[1] == "Eq" and ((other and 0 in excl) or (vals and 0 not in vals)):
                if any(dec_field(x, "resolution") for x in (d[2], d[3])):
                    return True
        return False
    nbuilt = 0

    class _Site:
        pass
    sites = []
    for c in sers:
        cell = peel(c.args[0])
        if decoded(c.args[0]):
            run.inst("C07.T5", "children-same-resolution-canonical", same_res_guard(ft, c),
                     "the decoded input cell is re-serialised only when target == current resolution", where(c.span))
            continue
        f = struct_view(ft, cell)
        if f is None:
            run.bad("C07.T1", "children-cell", "serialize argument is %s - unrecognised idiom" % fmt(cell), where(c.span))
            continue
        st_ = _Site()
        st_.f, st_.block, st_.span, st_.gens, st_.ads = f, c.block, c.span, None, None
        sites.append(st_)
    if not sites:
        # the children may be produced by an iterator pipeline (iter / flat_map / map .. collect) instead of a loop nest:
        # read the pipeline symbolically - one generator per traversal, the collected item as a term over them
        from ..query import pipe_item
        for c in ft.calls():
            if c.callee and c.callee.endswith("::collect") and c.args:
                r = pipe_item(facts, ft, c.args[0])
                if r is None:
                    continue
                it = r[0]
                if it[0] == "call" and it[1] == SER:
                    fz = struct_view(ft, peel(it[2][0]))
                    if fz is not None:
                        fz = {k_: collapse_refs(v_) for k_, v_ in fz.items()}
                        st_ = _Site()
                        st_.f, st_.block, st_.span, st_.ads = fz, c.block, c.span, r[2]
                        st_.gens = {g: collapse_refs(src_) for g, src_ in r[1]}
                        sites.append(st_)

    class _PL:          # a generator of a pipeline, presented like a loop: item = its symbol, source = what it walks
        pass
    for site in sites:
        f = site.f
        c = site
        lps_here = list(lps)
        if site.gens:
            for g, src_ in site.gens.items():
                pl = _PL()
                pl.item, pl.source, pl.next, pl.counter = g, src_, [True], False
                pl.own, pl.body, pl.head = set(), set(), None
                lps_here.append(pl)
        nbuilt += 1
        T = f["resolution"]
        od = option_default(ft, T)
        okT = od is not None and od[0] == ("param", 2) and od[1] is not None and od[1][0] != "agg"
        cur = None
        if okT:
            co, k = linear(od[1])
            curs = [a for a in co if dec_field(a, "resolution")]
            okT = len(curs) == 1 and co[curs[0]] == 1 and k == 1 and len(co) == 1
            cur = curs[0] if curs else None
        run.inst("C07.T1", "children-target", okT, "children are built with resolution %s (must be the requested target, default current+1)" % fmt(T), where(c.span))
        # guards on the same T
        conds = ft.conditions(c.block)
        have = {}
        for d, vals, other, excl, _b in conds:
            if d[0] == "bin" and d[1] in ("Lt", "Gt", "Eq", "Le", "Ge") and strip_site(d[2]) == strip_site(T):
                truth = 0 if (vals == [0] or (0 in vals)) else 1
                have[(d[1], fmt(d[3]))] = truth
        low = any(op == "Lt" and tr == 0 and cur is not None and strip_site(ft_arg) == fmt(cur) for (op, ft_arg), tr in have.items()) or \
            any(op == "Lt" and tr == 0 for (op, _a), tr in have.items())
        high = any(op == "Gt" and tr == 0 and "MAX_RESOLUTION" in a for (op, a), tr in have.items())
        run.inst("C07.T5", "children-range-guards", low and high, "serialize reached only when !(target < current) and !(target > MAX_RESOLUTION): %s" % have, where(c.span))
        # T2 origin / segment fan-out
        for fld, want_full in (("origin_id", 12), ("segment", 5)):
            v = peel(f[fld])
            lp = [l for l in lps_here if l.item is not None and strip_site(l.item) == strip_site(v)]
            ok = False
            why = "%s = %s is not an element of the fan-out set" % (fld, fmt(v))
            if lp and lp[0].source is not None:
                src = peel(lp[0].source)
                while src[0] == "call" and (src[1].endswith("::into_iter") or src[1].endswith("::iter")):
                    src = peel(src[2][0])
                sets = leaves_under(ft, src, {}) if src[0] == "phi" else [src]
                desc = []
                own = full = False
                for sset in sets:
                    els = literal_seq(sset)
                    if els is not None and len(els) == 1 and dec_field(els[0], fld):
                        own = True
                        desc.append("[parent.%s]" % fld)
                    elif els is not None and [const_int(x) for x in els] == list(range(want_full)):
                        full = True
                        desc.append("[0..%d)" % want_full)
                    elif sset[0] == "call" and sset[1].endswith("::collect") and sset[2][0][0] == "agg" and "Range" in sset[2][0][2] \
                            and const_int(sset[2][0][3][0]) == 0 and const_int(sset[2][0][3][1]) == want_full:
                        full = True
                        desc.append("0..%d" % want_full)
                    else:
                        desc.append("?? " + fmt(sset))
                ok = own and full and len(sets) == 2
                why = "%s ranges over %s" % (fld, " or ".join(desc))
            run.inst("C07.T2", "children-" + fld, ok, why, where(c.span))
        # fan-out conditions: which (current, target) pairs select the full sets - small-set evaluation of the
        # switch conditions over representative resolutions
        if cur is not None and okT:
            from ..query import _resolve_by_eval
            wrong = []
            cases = 0
            for curv in range(-1, 29):       # every level, not a sample: a condition may single out any one
                for tv in range(curv + 1, min(curv + 4, 30)):
                    env = {strip_site(cur): curv, strip_site(T): tv}
                    got = {}
                    for fld, want_full in (("origin_id", 12), ("segment", 5)):
                        v = peel(f[fld])
                        lp = [l for l in lps_here if l.item is not None and strip_site(l.item) == strip_site(v)]
                        if not lp or lp[0].source is None:
                            continue
                        src = peel(lp[0].source)
                        while src[0] == "call" and (src[1].endswith("::into_iter") or src[1].endswith("::iter")):
                            src = peel(src[2][0])
                        r = _resolve_by_eval(ft, src, env, env) if src[0] == "phi" else src
                        if r is None:
                            got[fld] = None
                        else:
                            got[fld] = not (literal_seq(r) is not None and len(literal_seq(r)) == 1)
                    cases += 1
                    want = {"origin_id": curv == -1, "segment": (curv == -1 and tv > 0) or curv == 0}
                    if got != want:
                        wrong.append((curv, tv, got))
            run.inst("C07.T2", "children-fanout-conditions", not wrong,
                     "full face set iff current == -1, full segment set iff current == 0 or (current == -1 and target > 0): %d (current,target) pairs evaluated%s" % (
                         cases, "" if not wrong else "; wrong at %s" % wrong[:2]), where(c.span))
        # T3/T4 s
        s_t = f["s"]
        co, k = linear(s_t, through_casts=True)
        idx = [a for a in co if (a[0] == "payload" and a[2][0] == "call" and a[2][1].endswith("::next")) or a[0] == "gen"]
        base = [a for a in co if a not in idx]
        ok34 = k == 0 and len(idx) == 1 and co[idx[0]] == 1 and len(base) == 1 and co[base[0]] == 1
        why = "s = %s" % fmt(s_t)
        if ok34:
            ilp = [l for l in lps_here if l.item is not None and strip_site(l.item) == idx[0]]
            cnt = None
            if ilp and ilp[0].source is not None:
                src = peel(ilp[0].source)
                while src[0] == "call" and src[1].endswith("::into_iter"):
                    src = peel(src[2][0])
                if src[0] == "agg" and "Range" in src[2] and const_int(src[3][0]) == 0:
                    cnt = src[3][1]
            shifted = None
            for x in walk(s_t):
                if x[0] in ("phi", "field") and strip_site(x) == base[0]:
                    shifted = x
            if cnt is None or shifted is None:
                ok34 = False
                why += " ; child index is not a 0..count range / base not loop-invariant"
            else:
                # count = phi{1, 4^D} ; shifted = phi{s << 2D, s}
                def alts(t_):
                    # the alternatives of a value that is a join, or one component of a join of tuples
                    if t_[0] == "phi":
                        return leaves_under(ft, t_, {})
                    if t_[0] == "field" and t_[1][0] == "phi" and str(t_[2]).isdigit():
                        from ..terms import mk_field
                        return [mk_field(l_, t_[2], int(t_[2])) for l_ in leaves_under(ft, t_[1], {}) if not (l_[0] == "unknown")]
                    return [t_]
                cl = [deep_resolve(ft, l, {}) for l in alts(cnt)]
                sl = [deep_resolve(ft, l, {}) for l in alts(shifted)]
                pw = [l for l in cl if l[0] == "call" and l[1].endswith("::pow")]
                one = [l for l in cl if const_int(l) == 1]
                sh = [l for l in sl if l[0] == "bin" and l[1] == "Shl"]
                plain = [l for l in sl if dec_field(l, "s")]
                okc = len(pw) == 1 and len(one) == 1 and len(cl) == 2 and const_int(pw[0][2][0]) == 4
                oks = len(sh) == 1 and len(plain) == 1 and len(sl) == 2 and dec_field(sh[0][2], "s")
                D1 = pw[0][2][1] if okc else None
                while D1 is not None and D1[0] == "cast":
                    D1 = D1[2]
                D2c = linear(sh[0][3]) if oks else None
                if okc and oks:
                    l1 = linear(D1)
                    sameD = D2c == ({a: 2 * c for a, c in l1[0].items()}, 2 * l1[1])
                else:
                    sameD = False
                run.inst("C07.T3", "children-two-bits-per-level", bool(sameD),
                         "count in %s ; base in %s (must be 4^d and s << 2d with the same d)" % ([fmt(x)[:80] for x in cl], [fmt(x)[:80] for x in sl]), where(c.span))
                if D1 is not None:
                    dc, dk = linear(D1)
                    mx = [a for a in dc if a[0] == "call" and a[1].endswith("::max")]
                    okd = dk == 0 and dc.get(strip_site(T)) == 1 and len(mx) == 1 and dc[mx[0]] == -1 and len(dc) == 2
                    if okd:
                        a0, a1 = mx[0][2]
                        vals = []
                        for a in (a0, a1):
                            if dec_field(a, "resolution"):
                                vals.append("cur")
                            else:
                                try:
                                    vals.append(ieval(ft, a, {}))
                                except Undetermined:
                                    vals.append(None)
                        okd = sorted(map(str, vals)) == sorted(["cur", str(first - 1)])
                    run.inst("C07.T3", "children-depth", okd, "d = %s (must be target - max(current, %d))" % (fmt(D1), first - 1), where(c.span))
        run.inst("C07.T4", "children-contiguous", ok34, why + " (must be base + i for i in 0..count)", where(c.span))
        # one serialize + push per innermost iteration
        if site.gens:
            # pipeline form: only element-wise stages (no filter / skip / take / step_by / chain), three traversals
            pure = all(a_ in ("iter", "into_iter", "copied", "cloned", "by_ref", "range", "map", "flat_map") for a_ in site.ads)
            run.inst("C07.T4", "children-one-per-triple", pure and len(site.gens) == 3,
                     "the pipeline yields exactly one serialized cell per (face, segment, i): stages %s" % site.ads, where(c.span))
        else:
            pushes = [p for p in ft.calls() if p.callee and p.callee.endswith("Vec::push") and any(x[0] == "call" and x[1] == SER for x in walk(p.args[1]))]
            inner = [l for l in lps if c.block in l.own]
            okp = len(pushes) == 1 and inner and every_iteration(ft, inner[0], c.block) and pushes[0].block in inner[0].own
            allp = [p for p in ft.calls() if p.callee and (p.callee.endswith("Vec::push") or p.callee.endswith("::extend") or p.callee.endswith("Vec::insert"))]
            run.inst("C07.T4", "children-one-per-triple", bool(okp) and len(allp) == 1, "exactly one serialize+push per (face, segment, i); pushes in the function: %d" % len(allp), where(c.span))
    # T5: equal resolution returns the cell itself; target below current is an error
    rets = returns_under(ft, {})
    same = [t for t in rets if is_variant(t, "Ok") and t[3][0][0] == "agg" and t[3][0][1] == "vec"]
    run.inst("C07.T5", "children-same-resolution", len(same) == 1 and len(same[0][3][0][3]) == 1, "equal target returns a one-element vector: %s" % [fmt(t) for t in same], w)

    # ------------------------------------------------ parent
    fp = fn_terms(facts, PARENT)
    wp = where(facts.fns[PARENT]["span"])
    sers = [c for c in fp.calls() if c.callee == SER]
    run.floor("C07.T1", "serialize call sites in cell_to_parent", len(sers), 1)
    for c in sers:
        cell = peel(c.args[0])
        if decoded(c.args[0]):
            run.inst("C07.T5", "parent-same-resolution-canonical", same_res_guard(fp, c),
                     "the decoded input cell is re-serialised only when target == current resolution", where(c.span))
            continue
        f = struct_view(fp, cell)
        if f is None:
            run.bad("C07.T1", "parent-cell", "serialize argument is %s - unrecognised idiom" % fmt(cell), where(c.span))
            continue
        T = f["resolution"]
        od = option_default(fp, T)
        okT = od is not None and od[0] == ("param", 2) and od[1] is not None and od[1][0] != "agg"
        if okT:
            co, k = linear(od[1])
            curs = [a for a in co if dec_field(a, "resolution")]
            okT = len(curs) == 1 and co[curs[0]] == 1 and k == -1 and len(co) == 1
        run.inst("C07.T1", "parent-target", okT, "parent is built with resolution %s (must be the requested target, default current-1)" % fmt(T), where(c.span))
        run.inst("C07.T2", "parent-keeps-face-segment", dec_field(f["origin_id"], "origin_id") and dec_field(f["segment"], "segment"),
                 "parent face = %s, segment = %s" % (fmt(f["origin_id"]), fmt(f["segment"])), where(c.span))
        s_t = f["s"]
        oks = s_t[0] == "bin" and s_t[1] == "Shr" and dec_field(s_t[2], "s")
        if oks:
            co, k = linear(s_t[3])
            curk = [a for a in co if dec_field(a, "resolution")]
            oks = k == 0 and len(curk) == 1 and co[curk[0]] == 2 and co.get(strip_site(T)) == -2 and len(co) == 2
        run.inst("C07.T3", "parent-two-bits-per-level", oks, "parent position = %s (must be s >> 2*(current - target))" % fmt(s_t), where(c.span))
        conds = fp.conditions(c.block)
        have = {}
        for d, vals, other, excl, _b in conds:
            if d[0] == "bin" and strip_site(d[2]) == strip_site(T):
                have[(d[1], "current" if dec_field(d[3], "resolution") else fmt(d[3]))] = 0 if 0 in vals else 1
        # target <= current: !(target > current), or the stronger target < current / target == current of a three-way match
        le_cur = any(a == "current" and ((op == "Gt" and tr == 0) or (op in ("Lt", "Le", "Eq") and tr == 1)) for (op, a), tr in have.items())
        okg = le_cur and any(op == "Lt" and tr == 0 and a == "0" for (op, a), tr in have.items())
        run.inst("C07.T5", "parent-range-guards", okg, "serialize reached only when !(target > current) and !(target < 0): %s" % have, where(c.span))
    # ------------------------------------------------ res0
    fr = fn_terms(facts, RES0)
    rts = returns_under(fr, {})
    okr = len(rts) == 1 and rts[0][0] == "call" and rts[0][1] == CHILDREN
    if okr:
        a0, a1 = rts[0][2]
        okr = const_int(a0) == 0 and is_variant(a1, "Some") and const_int(a1[3][0]) == 0
    run.inst("C07.T5", "res0-is-children-of-world", okr, "get_res0_cells = %s" % [fmt(t) for t in rts], where(facts.fns[RES0]["span"]))
    run.floor("C07.T1", "children construction sites analysed (serialize of a freshly built cell)", nbuilt, 1)
    # T6: the world cell is the answer exactly for target resolution -1
    fpw = fn_terms(facts, PARENT)
    nw = 0
    from ..query import return_sites
    for rb, t in return_sites(fpw):
        if True:
            if is_variant(t, "Ok") and const_int(t[3][0]) == 0:
                nw += 1
                conds = fpw.conditions(rb)
                okw = False
                for d, vals, other, excl, _b in conds:
                    if d[0] == "bin" and d[1] == "Eq" and const_int(d[3]) == -1:
                        od = option_default(fpw, d[2])
                        if od is not None and od[0] == ("param", 2) and not (vals == [0] or 0 in vals):
                            okw = True
                    elif vals == [-1] and not other:
                        # `match target { -1 => Ok(WORLD_CELL), .. }`: the switch is on the target itself
                        od = option_default(fpw, d)
                        if od is not None and od[0] == ("param", 2):
                            okw = True
                run.inst("C07.T6", "world-cell-iff-target-minus-one", okw,
                         "cell_to_parent returns the world cell under %s (must be: requested target == -1)" % [fmt(d)[:50] for d, *_ in conds][:3], where(fpw.fn["span"]))
    run.floor("C07.T6", "world-cell results of cell_to_parent", nw, 1)
    run.floor("C07", "rule instances", len(run.instances), 14)
