"""Semantics-preserving MIR normalisations applied before any analysis, so that equivalent source idioms give one shape.

lower_int_cmp:  `match a.cmp(&b) { Less => L, Equal => E, Greater => G }` on primitive integers
                (call <impl Ord for iN>::cmp, discriminant, 3-way switch) becomes the boolean cascade
                `if a < b { L } else if a == b { E } else { G }` that an if/else chain compiles to.
                Ord::cmp on primitive integers is total, so exactly one arm is taken in both forms."""
import re

from .facts import strip_generics

_INT_CMP = re.compile(r"<impl (?:std|core)::cmp::Ord for (i8|i16|i32|i64|i128|isize|u8|u16|u32|u64|u128|usize)>::cmp$")


def lower_int_cmp(facts):
    n = 0
    for path, f in facts.fns.items():
        blocks = f["blocks"]
        preds = {}
        for i, b in enumerate(blocks):
            t = b["term"]
            if t["k"] in ("call", "goto", "assert", "drop") and t.get("target") is not None:
                preds.setdefault(t["target"], []).append(i)
            elif t["k"] == "switch":
                for _v, bb in t["targets"]:
                    preds.setdefault(bb, []).append(i)
                preds.setdefault(t["otherwise"], []).append(i)
        for bi in range(len(blocks)):
            blk = blocks[bi]
            t = blk["term"]
            if t["k"] != "switch" or t["discr"].get("k") not in ("move", "copy"):
                continue
            dl = t["discr"]["place"]
            if dl["proj"]:
                continue
            # the discriminant statement of a local assigned by the cmp call of the unique predecessor
            src = None
            for st in blk["stmts"]:
                if st["k"] == "assign" and st["place"]["local"] == dl["local"] and not st["place"]["proj"] and st["rv"]["k"] in ("discr", "discriminant"):
                    src = st["rv"]["place"]
            if src is None or src["proj"]:
                continue
            ps = preds.get(bi, [])
            if len(ps) != 1:
                continue
            pt = blocks[ps[0]]["term"]
            if pt["k"] != "call" or pt["func"].get("k") != "fn" or pt["dest"]["local"] != src["local"] or pt["dest"]["proj"]:
                continue
            name = strip_generics(pt["func"].get("resolved") or pt["func"]["path"])
            m = _INT_CMP.search(name)
            if not m or len(pt["args"]) != 2:
                continue
            ity = m.group(1)
            ops = []
            for a in pt["args"]:
                if a.get("k") not in ("move", "copy") or a["place"]["proj"]:
                    ops = None
                    break
                ops.append({"k": "copy", "place": {"local": a["place"]["local"], "proj": [{"k": "deref"}], "ty": ity}})
            if not ops:
                continue
            tg = {int(v): bb for v, bb in t["targets"]}
            other = t["otherwise"]
            lt_t, eq_t, gt_t = tg.get(-1, other), tg.get(0, other), tg.get(1, other)
            span = t.get("span")
            base = len(f["locals"])
            f["locals"].append({"ty": "bool", "mut": True})
            f["locals"].append({"ty": "bool", "mut": True})
            nb = len(blocks)
            # both comparisons are evaluated where the operands are live: just before the cmp call
            pst = blocks[ps[0]]["stmts"]
            pst.append({"k": "assign", "place": {"local": base, "proj": [], "ty": "bool"},
                        "rv": {"k": "binop", "op": "Lt", "a": ops[0], "b": ops[1], "ty": ity}, "span": span})
            pst.append({"k": "assign", "place": {"local": base + 1, "proj": [], "ty": "bool"},
                        "rv": {"k": "binop", "op": "Eq", "a": ops[0], "b": ops[1], "ty": ity}, "span": span})
            blk["term"] = {"k": "switch", "discr": {"k": "move", "place": {"local": base, "proj": [], "ty": "bool"}}, "discr_ty": "bool",
                           "targets": [["0", nb]], "otherwise": lt_t, "span": span}
            blocks.append({"cleanup": False, "stmts": [],
                "term": {"k": "switch", "discr": {"k": "move", "place": {"local": base + 1, "proj": [], "ty": "bool"}}, "discr_ty": "bool",
                         "targets": [["0", gt_t]], "otherwise": eq_t, "span": span}})
            n += 1
    return n
