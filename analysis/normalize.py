"""Semantics-preserving MIR normalisations applied before any analysis, so that equivalent source idioms give one shape.

lower_int_cmp:  `match a.cmp(&b) { Less => L, Equal => E, Greater => G }` on primitive integers
                (call <impl Ord for iN>::cmp, discriminant, 3-way switch) becomes the boolean cascade
                `if a < b { L } else if a == b { E } else { G }` that an if/else chain compiles to.
                Ord::cmp on primitive integers is total, so exactly one arm is taken in both forms."""
import re

from .facts import strip_generics

_INT_CMP = re.compile(r"<impl (?:std|core)::cmp::Ord for (i8|i16|i32|i64|i128|isize|u8|u16|u32|u64|u128|usize)>::cmp$")


def lower_int_cmp(facts):
    n = 0
    for path, f in facts.fns.items():
        blocks = f["blocks"]
        preds = {}
        for i, b in enumerate(blocks):
            t = b["term"]
            if t["k"] in ("call", "goto", "assert", "drop") and t.get("target") is not None:
                preds.setdefault(t["target"], []).append(i)
            elif t["k"] == "switch":
                for _v, bb in t["targets"]:
                    preds.setdefault(bb, []).append(i)
                preds.setdefault(t["otherwise"], []).append(i)
        for bi in range(len(blocks)):
            blk = blocks[bi]
            t = blk["term"]
            if t["k"] != "switch" or t["discr"].get("k") not in ("move", "copy"):
                continue
            dl = t["discr"]["place"]
            if dl["proj"]:
                continue
            # the discriminant statement of a local assigned by the cmp call of the unique predecessor
            src = None
            for st in blk["stmts"]:
                if st["k"] == "assign" and st["place"]["local"] == dl["local"] and not st["place"]["proj"] and st["rv"]["k"] in ("discr", "discriminant"):
                    src = st["rv"]["place"]
            if src is None or src["proj"]:
                continue
            ps = preds.get(bi, [])
            if len(ps) != 1:
                continue
            pt = blocks[ps[0]]["term"]
            if pt["k"] != "call" or pt["func"].get("k") != "fn" or pt["dest"]["local"] != src["local"] or pt["dest"]["proj"]:
                continue
            name = strip_generics(pt["func"].get("resolved") or pt["func"]["path"])
            m = _INT_CMP.search(name)
            if not m or len(pt["args"]) != 2:
                continue
            ity = m.group(1)
            ops = []
            for a in pt["args"]:
                if a.get("k") not in ("move", "copy") or a["place"]["proj"]:
                    ops = None
                    break
                ops.append({"k": "copy", "place": {"local": a["place"]["local"], "proj": [{"k": "deref"}], "ty": ity}})
            if not ops:
                continue
            tg = {int(v): bb for v, bb in t["targets"]}
            other = t["otherwise"]
            lt_t, eq_t, gt_t = tg.get(-1, other), tg.get(0, other), tg.get(1, other)
            span = t.get("span")
            base = len(f["locals"])
            f["locals"].append({"ty": "bool", "mut": True})
            f["locals"].append({"ty": "bool", "mut": True})
            nb = len(blocks)
            # both comparisons are evaluated where the operands are live: just before the cmp call
            pst = blocks[ps[0]]["stmts"]
            pst.append({"k": "assign", "place": {"local": base, "proj": [], "ty": "bool"},
                        "rv": {"k": "binop", "op": "Lt", "a": ops[0], "b": ops[1], "ty": ity}, "span": span})
            pst.append({"k": "assign", "place": {"local": base + 1, "proj": [], "ty": "bool"},
                        "rv": {"k": "binop", "op": "Eq", "a": ops[0], "b": ops[1], "ty": ity}, "span": span})
            blk["term"] = {"k": "switch", "discr": {"k": "move", "place": {"local": base, "proj": [], "ty": "bool"}}, "discr_ty": "bool",
                           "targets": [["0", nb]], "otherwise": lt_t, "span": span}
            blocks.append({"cleanup": False, "stmts": [],
                "term": {"k": "switch", "discr": {"k": "move", "place": {"local": base + 1, "proj": [], "ty": "bool"}}, "discr_ty": "bool",
                         "targets": [["0", gt_t]], "otherwise": eq_t, "span": span}})
            n += 1
    return n


# ---------------------------------------------------------------------- Option / Result combinators with closures that hold logic

_COMB = {
    # name suffix -> (enum, variant the closure is applied to, how the closure's result becomes the call's result)
    "std::option::Option::<T>::filter": ("Option", "Some", "filter"),
    "std::option::Option::<T>::map": ("Option", "Some", "wrap"),
    "std::option::Option::<T>::and_then": ("Option", "Some", "flat"),
    "std::option::Option::<T>::unwrap_or_else": ("Option", "None", "value"),
    "std::result::Result::<T, E>::map": ("Result", "Ok", "wrap"),
    "std::result::Result::<T, E>::map_err": ("Result", "Err", "wrap"),
    "std::result::Result::<T, E>::and_then": ("Result", "Ok", "flat"),
}
_VARIANTS = {"Option": (("None", 0), ("Some", 1)), "Result": (("Ok", 0), ("Err", 1))}


def _split_args(ty):
    i = ty.find("<")
    inner, depth, cur, out = ty[i + 1:-1], 0, "", []
    for ch in inner:
        if ch in "<([":
            depth += 1
        elif ch in ">)]":
            depth -= 1
        if ch == "," and depth == 0:
            out.append(cur.strip())
            cur = ""
        else:
            cur += ch
    if cur.strip():
        out.append(cur.strip())
    return out


def _closure_has_logic(facts, cpath):
    f = facts.fns.get(cpath)
    if f is None:
        return False
    for b in f["blocks"]:
        if b["cleanup"]:
            continue
        t = b["term"]
        if t["k"] == "switch":
            return True
        if t["k"] == "call" and t["func"].get("k") == "fn":
            n = strip_generics(t["func"].get("resolved") or t["func"]["path"])
            if n in facts.fns and facts.fns[n]["kind"] in ("Fn", "AssocFn"):
                return True
            if any(n.endswith(s_) for s_ in ("::box_assume_init_into_vec_unsafe", "Vec::push", "::from_elem", "::to_vec", "::into_vec", "::collect")):
                return True           # the closure builds a collection (`|x| vec![x]`): its result has a shape the rules read
    return False


def desugar_combinators(facts):
    """`opt.filter(|v| ..)`, `.map(..)`, `.and_then(..)`, `.unwrap_or_else(..)`, `res.map / map_err / and_then(..)` whose closure
    holds logic (a branch or a call into the crate) are written out as the match they abbreviate, with the closure called
    directly (the inliner then splices its body in).  What the closure decides becomes ordinary control flow of the
    function, which is what the rule packs and the range engine read.  Returns the number of rewritten calls."""
    n = 0
    for path, f in list(facts.fns.items()):
        if f["kind"] not in ("Fn", "AssocFn", "Closure"):
            continue
        blocks = f["blocks"]
        # closure locals -> closure body path (unique aggregate assignment)
        clos_of = {}
        for b in blocks:
            for st in b["stmts"]:
                if st["k"] == "assign" and st["rv"]["k"] == "aggregate" and st["rv"].get("agg") == "closure" and not st["place"]["proj"]:
                    clos_of.setdefault(st["place"]["local"], []).append(st["rv"].get("closure"))
        for bi in range(len(blocks)):
            blk = blocks[bi]
            t = blk["term"]
            if t["k"] != "call" or t["func"].get("k") != "fn" or t.get("target") is None:
                continue
            spec = _COMB.get(t["func"].get("path"))
            if spec is None or len(t["args"]) != 2:
                continue
            O, F = t["args"]
            if O.get("k") not in ("move", "copy") or O["place"]["proj"] or F.get("k") not in ("move", "copy") or F["place"]["proj"]:
                continue
            cps = clos_of.get(F["place"]["local"], [])
            if len(cps) != 1 or not _closure_has_logic(facts, cps[0]):
                continue
            cpath = cps[0]
            g = facts.fns[cpath]
            enum, act, how = spec
            oty = O["place"]["ty"]
            targs = _split_args(oty)
            act_idx = dict(_VARIANTS[enum])[act]
            (pas, pas_idx), = [(v, i) for v, i in _VARIANTS[enum] if v != act]
            dest, target, span = t["dest"], t["target"], t.get("span")
            dty = dest["ty"]
            adt = "std::option::Option" if enum == "Option" else "std::result::Result"
            act_ty = None if (enum == "Option" and act == "None") else (targs[0] if act in ("Some", "Ok") else targs[1])
            pas_ty = None if (enum == "Option" and pas == "None") else (targs[0] if pas in ("Some", "Ok") else targs[1])
            rty = g["ret_ty"]
            o = O["place"]["local"]
            L = f["locals"]

            def new_local(ty):
                L.append({"ty": ty, "mut": True})
                return len(L) - 1

            def pl(local, ty, proj=None):
                return {"local": local, "proj": proj or [], "ty": ty}

            def payload(variant, idx, ty):
                return pl(o, ty, [{"k": "downcast", "variant": variant, "idx": idx}, {"k": "field", "i": 0, "ty": ty, "name": "0", "adt": adt.rsplit("::", 1)[-1]}])

            def agg(variant, idx, ops):
                return {"k": "aggregate", "agg": "adt", "adt": adt, "variant": variant, "variant_idx": idx, "fields": ["0"] if ops else [], "ops": ops}
            d = new_local("isize")
            nb = len(blocks)
            B_act, B_pas, B_after = nb, nb + 1, nb + 2
            blk["stmts"].append({"k": "assign", "place": pl(d, "isize"), "rv": {"k": "discr", "place": pl(o, oty)}, "span": span})
            blk["term"] = {"k": "switch", "discr": {"k": "move", "place": pl(d, "isize")}, "discr_ty": "isize",
                           "targets": [[str(act_idx), B_act]], "otherwise": B_pas, "span": span}
            # active variant: call the closure directly
            st_act = []
            if act_ty is not None:
                p = new_local(act_ty)
                st_act.append({"k": "assign", "place": pl(p, act_ty), "rv": {"k": "use", "op": {"k": "move", "place": payload(act, act_idx, act_ty)}}, "span": span})
                if how == "filter":
                    pref = new_local("&" + act_ty)
                    st_act.append({"k": "assign", "place": pl(pref, "&" + act_ty), "rv": {"k": "ref", "place": pl(p, act_ty), "mut": False, "kind": "Shared"}, "span": span})
                    tup_ty, tup_ops = "(&%s,)" % act_ty, [{"k": "move", "place": pl(pref, "&" + act_ty)}]
                else:
                    tup_ty, tup_ops = "(%s,)" % act_ty, [{"k": "move", "place": pl(p, act_ty)}]
            else:
                p = None
                tup_ty, tup_ops = "()", []
            tup = new_local(tup_ty)
            st_act.append({"k": "assign", "place": pl(tup, tup_ty), "rv": {"k": "aggregate", "agg": "tuple", "ops": tup_ops}, "span": span})
            r = new_local(rty)
            call = {"k": "call",
                    "func": {"k": "fn", "path": "std::ops::FnOnce::call_once", "inst": "desugared", "local": False, "crate": "core",
                             "resolved": cpath, "resolved_inst": cpath, "resolved_local": True, "resolved_kind": "Item"},
                    "args": [F, {"k": "move", "place": pl(tup, tup_ty)}], "dest": pl(r, rty), "target": B_after, "unwind": None,
                    "span": span, "fn_span": t.get("fn_span")}
            blocks.append({"cleanup": False, "stmts": st_act, "term": call})
            # passive variant
            st_pas = []
            if how == "value":
                st_pas.append({"k": "assign", "place": dest, "rv": {"k": "use", "op": {"k": "move", "place": payload(pas, pas_idx, pas_ty)}}, "span": span})
            elif pas_ty is None:
                st_pas.append({"k": "assign", "place": dest, "rv": agg(pas, pas_idx, []), "span": span})
            else:
                st_pas.append({"k": "assign", "place": dest, "rv": agg(pas, pas_idx, [{"k": "move", "place": payload(pas, pas_idx, pas_ty)}]), "span": span})
            blocks.append({"cleanup": False, "stmts": st_pas, "term": {"k": "goto", "target": target}})
            # after the closure
            if how == "wrap":
                blocks.append({"cleanup": False, "stmts": [{"k": "assign", "place": dest, "rv": agg(act, act_idx, [{"k": "move", "place": pl(r, rty)}]), "span": span}],
                               "term": {"k": "goto", "target": target}})
            elif how in ("flat", "value"):
                blocks.append({"cleanup": False, "stmts": [{"k": "assign", "place": dest, "rv": {"k": "use", "op": {"k": "move", "place": pl(r, rty)}}, "span": span}],
                               "term": {"k": "goto", "target": target}})
            else:   # filter
                B_keep = nb + 3
                blocks.append({"cleanup": False, "stmts": [], "term": {"k": "switch", "discr": {"k": "move", "place": pl(r, rty)}, "discr_ty": "bool",
                                                                     "targets": [["0", B_pas]], "otherwise": B_keep, "span": span}})
                blocks.append({"cleanup": False, "stmts": [{"k": "assign", "place": dest, "rv": agg("Some", 1, [{"k": "move", "place": pl(p, act_ty)}]), "span": span}],
                               "term": {"k": "goto", "target": target}})
            f.setdefault("desugared", []).append(t["func"]["path"].rsplit("::", 1)[-1])
            n += 1
    return n


# ---------------------------------------------------------------------------------------------------------------------
# private newtypes introduced around a single value

def unwrap_newtypes(raw, ref, crate):
    """A struct the reference tree does not have, with exactly one field and no public visibility, is a wrapper somebody put
    around a value that used to travel bare (`struct Level(i32)` for a resolution handed between private functions).
    The wrapper is written out of the program: the type becomes its field's type, building it is a move of the field,
    reading its field is the value itself.  Its methods and From impls are ordinary new helpers (spliced into their
    callers), whose bodies are then identities or the arithmetic they wrap.  Returns the text of the rewritten facts
    and the list of unwrapped types; only applied when the reference lists its ADTs."""
    import json as _json, re as _re
    known = set(ref.get("adts") or ())
    if not known:
        return None, []
    news = {}
    for a in raw["adts"]:
        if a["path"] in known or a["kind"] != "Struct" or a.get("vis") == "pub":
            continue
        fs = a["variants"][0]["fields"]
        if len(fs) != 1 or "<" in a["path"] or fs[0]["ty"] == "()" or a["path"] in {x["path"] for x in raw.get("statics", [])}:
            continue                      # (lazy_static! generates a unit-like struct named like its static)
        news[a["path"]] = fs[0]["ty"]
    if not news:
        return None, []
    # wrappers of wrappers: resolve inner types that are themselves wrappers
    def ty_name(path):
        return path.split("::", 1)[1] if path.startswith(crate + "::") else path
    for _ in range(4):
        for pth, inner in list(news.items()):
            for p2, i2 in news.items():
                if p2 != pth and _re.search(r"(?<![A-Za-z0-9_:])" + _re.escape(ty_name(p2)) + r"(?![A-Za-z0-9_])", inner):
                    news[pth] = _re.sub(r"(?<![A-Za-z0-9_:])" + _re.escape(ty_name(p2)) + r"(?![A-Za-z0-9_])", i2, inner)

    def fix(o):
        if isinstance(o, dict):
            # building the wrapper = using the field
            if o.get("k") == "aggregate" and o.get("agg") == "adt" and o.get("adt") in news and len(o.get("ops", [])) == 1:
                op = o["ops"][0]
                o.clear()
                o.update({"k": "use", "op": op})
            # reading the field = the value itself
            if "proj" in o and isinstance(o["proj"], list) and any(isinstance(e, dict) and e.get("k") == "field" and e.get("adt") in {p_.rsplit("::", 1)[-1] for p_ in news} | set(news) for e in o["proj"]):
                o["proj"] = [e for e in o["proj"] if not (isinstance(e, dict) and e.get("k") == "field" and (e.get("adt") in news or e.get("adt") in {p_.rsplit("::", 1)[-1] for p_ in news}))]
            for v in list(o.values()):
                fix(v)
        elif isinstance(o, list):
            for v in o:
                fix(v)
    fix(raw["fns"])
    text = _json.dumps(raw)
    for pth, inner in sorted(news.items(), key=lambda kv: -len(kv[0])):
        tn = ty_name(pth)
        # type strings carry no crate prefix; item paths (functions, impls) do and are left alone
        text = _re.sub(r"(?<![A-Za-z0-9_:])" + _re.escape(tn) + r"(?![A-Za-z0-9_:])", inner.replace("\\", "\\\\"), text)
    return text, sorted(news)


def redirect_into(raw):
    """`x.into()` goes through std's blanket `impl<T, U: From<T>> Into<U> for T`, whose body is `U::from(x)`: when that `from`
    is a function of this crate the call is pointed at it directly (so that it can be read, or spliced, like any other
    local function).  Returns the number of redirected calls."""
    import re as _re
    crate = raw["crate"]
    fns = {f["path"] for f in raw["fns"]}
    n = 0
    for f in raw["fns"]:
        for b in f["blocks"]:
            t = b["term"]
            if t["k"] != "call" or t["func"].get("k") != "fn" or t["func"].get("path") != "std::convert::Into::into":
                continue
            m = _re.match(r"^<(.*) as std::convert::Into<(.*)>>::into$", t["func"].get("inst", ""))
            if not m:
                continue
            A, B = m.group(1), m.group(2)
            cands = [p_ for p_ in fns if p_ == "%s::<%s as std::convert::From<%s>>::from" % (crate, B, A)
                     or p_.endswith("<impl std::convert::From<%s> for %s>::from" % (A, B))]
            if len(cands) == 1:
                t["func"] = {"k": "fn", "path": cands[0], "inst": cands[0], "local": True, "crate": crate, "resolved": cands[0],
                             "resolved_inst": cands[0], "resolved_local": True, "resolved_kind": "Item", "via": "Into::into"}
                n += 1
    return n
