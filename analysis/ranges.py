"""Sparse interprocedural range analysis over the SSA terms (abstract interpretation, no execution).

For every function reachable from the chosen entry points, in every calling context (abstract
arguments), the engine computes abstract values of terms (intervals, float intervals, shapes),
a fixpoint over phi nodes with widening/narrowing, linear facts from dominating branch edges,
and discharges *obligations*: arithmetic overflow, shift amounts, division, indexing, explicit
panics, allocation sizes.  An obligation that cannot be discharged locally but is linear in the
function's parameters is lifted to the call sites and proved there."""
import re
import math
from fractions import Fraction

from .avals import *
from .terms import (fn_terms, walk, strip_site, is_const, const_int, const_float, fmt, mk_deref, mk_field, float_of_bits)
from .cfg import switch_edge_values
from .query import iter_source, ref_key, CMP, SWAP
from .facts import strip_generics

LEN_PRESERVING = ("::deref_mut", "::deref", "::as_mut_slice", "::as_slice", "::iter_mut", "::iter", "::index_mut", "::index",
                  "::sort_unstable", "::sort", "::sort_by", "::reverse", "::swap", "::len", "::is_empty", "::last_mut",
                  "::first_mut", "::get_mut", "::get", "::first", "::last", "::contains", "::as_ptr", "::as_mut_ptr", "::fill",
                  "::sort_by_key", "::sort_unstable_by", "::binary_search", "::to_vec", "::clone", "::capacity")


def peel(t):
    while True:
        if t[0] == "ref":
            t = t[2]
        elif t[0] == "deref":
            t = t[1]
        elif t[0] == "cast" and t[1] == "PointerCoercion":
            t = t[2]
        elif t[0] == "call" and isinstance(t[1], str) and t[2] and (
                t[1].endswith("::deref") or t[1].endswith("::deref_mut") or t[1].endswith("::as_slice") or t[1].endswith("::as_mut_slice")
                or t[1].endswith("::borrow") or t[1].endswith("::as_ref")):
            t = t[2][0]
        else:
            return t


# ---------------------------------------------------------------------- Fourier-Motzkin

def fm_infeasible(cons, limit=4000):
    """cons: list of (coef dict, const) meaning sum(coef*x) + const <= 0 over the rationals.
    Returns True when the system is infeasible (sound: rational infeasibility implies integer infeasibility)."""
    cons = [({k: Fraction(v) for k, v in c.items() if v}, Fraction(k0)) for c, k0 in cons]
    while True:
        for c, k0 in cons:
            if not c and k0 > 0:
                return True
        vs = set()
        for c, _ in cons:
            vs |= set(c)
        if not vs:
            return False
        # choose the variable with the fewest pos*neg combinations
        best = None
        for v in vs:
            p = sum(1 for c, _ in cons if c.get(v, 0) > 0)
            n = sum(1 for c, _ in cons if c.get(v, 0) < 0)
            sc = p * n - p - n
            if best is None or sc < best[0]:
                best = (sc, v)
        v = best[1]
        pos = [(c, k0) for c, k0 in cons if c.get(v, 0) > 0]
        neg = [(c, k0) for c, k0 in cons if c.get(v, 0) < 0]
        rest = [(c, k0) for c, k0 in cons if c.get(v, 0) == 0]
        new = []
        for cp, kp in pos:
            for cn, kn in neg:
                a, b = cp[v], -cn[v]
                c = {}
                for x in set(cp) | set(cn):
                    if x == v:
                        continue
                    val = cp.get(x, 0) * b + cn.get(x, 0) * a
                    if val:
                        c[x] = val
                new.append((c, kp * b + kn * a))
        cons = rest + new
        if len(cons) > limit:
            return False
        # drop trivially true constraints and duplicates
        seen = set()
        out = []
        for c, k0 in cons:
            if not c and k0 <= 0:
                continue
            key = (tuple(sorted((repr(x), v) for x, v in c.items())), k0)
            if key in seen:
                continue
            seen.add(key)
            out.append((c, k0))
        cons = out


# ---------------------------------------------------------------------- interval helpers

def i_add(a, b):
    return I(a[1] + b[1], a[2] + b[2])


def i_sub(a, b):
    return I(a[1] - b[2], a[2] - b[1])


def i_mul(a, b):
    ps = [a[1] * b[1], a[1] * b[2], a[2] * b[1], a[2] * b[2]]
    return I(min(ps), max(ps))


def tdiv(a, b):
    q = abs(a) // abs(b)
    return -q if (a < 0) != (b < 0) else q


def i_div(a, b):
    if b[1] <= 0 <= b[2]:
        # divisor may be zero: exclude it (the zero case is an obligation), use the nearest non-zero ends
        cands = []
        if b[1] < 0:
            cands += [b[1], -1]
        if b[2] > 0:
            cands += [1, b[2]]
        if not cands:
            return BOT
    else:
        cands = [b[1], b[2]]
    ps = [tdiv(x, y) for x in (a[1], a[2]) for y in cands]
    return I(min(ps), max(ps))


def i_rem(a, b):
    m = max(abs(b[1]), abs(b[2]))
    if m == 0:
        return BOT
    lo, hi = -(m - 1), m - 1
    if a[1] >= 0:
        lo = 0
        hi = min(hi, a[2])
    if a[2] <= 0:
        hi = 0
        lo = max(lo, a[1])
    # exact when the dividend range does not cross a multiple boundary
    if b[1] == b[2] and b[1] > 0 and a[1] >= 0 and a[1] // b[1] == a[2] // b[1]:
        return I(a[1] % b[1], a[2] % b[1])
    return I(lo, hi)


def fit(av, ty):
    """wrap an exact integer interval into the range of `ty`: unchanged when it fits, else the full type range"""
    r = int_range(ty)
    if r is None or av[0] != "i":
        return av
    if av[1] >= r[0] and av[2] <= r[1]:
        return av
    # both ends wrap by the same multiple of 2^bits: still an interval
    span = r[1] - r[0] + 1
    klo = (av[1] - r[0]) // span
    khi = (av[2] - r[0]) // span
    if klo == khi:
        return I(av[1] - klo * span, av[2] - klo * span)
    return I(*r)


def f_arith(op, a, b):
    if a[0] != "f" or b[0] != "f":
        return FTOP
    if op == "Rem" and not b[3] and not math.isinf(b[1]) and not math.isinf(b[2]) and (b[1] > 0.0 or b[2] < 0.0):
        # x % m has the sign of x and magnitude below |m|; NaN when x is infinite or NaN
        m = max(abs(b[1]), abs(b[2]))
        lo = -m if a[1] < 0.0 else 0.0
        hi = m if a[2] > 0.0 else 0.0
        return ("f", lo, hi, a[3] or math.isinf(a[1]) or math.isinf(a[2]))
    nan = a[3] or b[3]
    if any(math.isinf(x) for x in (a[1], a[2], b[1], b[2])):
        return ("f", -math.inf, math.inf, True)
    try:
        if op == "Add":
            lo, hi = a[1] + b[1], a[2] + b[2]
        elif op == "Sub":
            lo, hi = a[1] - b[2], a[2] - b[1]
        elif op == "Mul":
            ps = [a[1] * b[1], a[1] * b[2], a[2] * b[1], a[2] * b[2]]
            lo, hi = min(ps), max(ps)
        elif op == "Div":
            if b[1] <= 0.0 <= b[2]:
                return ("f", -math.inf, math.inf, True)
            ps = [a[1] / b[1], a[1] / b[2], a[2] / b[1], a[2] / b[2]]
            lo, hi = min(ps), max(ps)
        else:
            return FTOP
    except (OverflowError, ZeroDivisionError):
        return FTOP
    if math.isnan(lo) or math.isnan(hi):
        return FTOP
    # outward rounding by one ulp
    return ("f", math.nextafter(lo, -math.inf), math.nextafter(hi, math.inf), nan)


_SCALARS = {"u8", "u16", "u32", "u64", "u128", "usize", "i8", "i16", "i32", "i64", "i128", "isize", "f32", "f64", "bool", "char"}
_PLAIN_WRAPPERS = {"Range", "RangeInclusive", "Rev", "Option", "StepBy", "Enumerate", "Zip", "Take", "Skip"}


def _pointer_free(ty):
    """is `ty` (a printed type) built only from scalars, tuples, arrays and plain std wrappers of those - nothing that could hold a pointer?"""
    if not ty or any(ch in ty for ch in "&*'?") or "dyn " in ty or "impl " in ty or "{closure" in ty:
        return False
    import re as _re
    for tok in _re.findall(r"[A-Za-z_][A-Za-z0-9_:]*", ty):
        last = tok.split("::")[-1]
        if last not in _SCALARS and last not in _PLAIN_WRAPPERS and last not in ("std", "core", "ops", "iter", "option"):
            return False
    return True


def direct_mutators(ft, key):
    """call sites one of whose arguments is itself a mutable reference to place `key` (through reborrows only);
    calls that merely receive something derived from such a reference (a slice from deref_mut) are not included"""
    out = []
    for c in ft.calls():
        for a in c.args:
            x = a
            while x[0] == "deref" or (x[0] == "ref" and x[2][0] == "deref"):
                x = x[1] if x[0] == "deref" else x[2]
            if x[0] == "ref" and x[1] in (True, "raw") and x[3] == key:
                out.append(c)
                break
    return out


_esc_cache = {}


def has_escaped(t):
    k = id(t)
    hit = _esc_cache.get(k)
    if hit is not None and hit[0] is t:
        return hit[1]
    r = any(x[0] == "escaped" for x in walk(t))
    if len(_esc_cache) > 2000000:
        _esc_cache.clear()
    _esc_cache[k] = (t, r)
    return r


class Oblig:
    __slots__ = ("key", "kind", "fn", "where", "status", "detail", "ctx", "float_dep", "input_dep", "sig")


class Engine:
    def __init__(self, facts, precision=0):
        self.facts = facts
        self.precision = precision
        self.ret_memo = {}
        self.in_progress = set()
        self.ctxs = {}
        self.live = []            # (path, args) contexts reached in the final phase
        self.live_set = set()
        self.callers = {}         # (path,args) -> set of (caller key, block)
        self.obligations = {}     # key -> Oblig (worst status over contexts)
        self.assumed_total = set()
        self.once_cache = {}
        self._disj = {}
        self.roots = set()
        self.split_pref = {}
        self.splits = {}
        self.once_inits = set()
        self.constant_ctx = set()
        self.depth = 0

    # -------- contexts
    def ctx(self, path, args, choice=None):
        key = (path, args) if choice is None else (path, args, choice)
        c = self.ctxs.get(key)
        if c is None:
            c = FnCtx(self, path, args, choice)
            self.ctxs[key] = c
        return c

    def solved_ctx(self, path, args, choice=None):
        c = self.ctx(path, args, choice)
        if not c.solved:
            if choice is None:
                self.summary(path, args)
            else:
                self.depth += 1
                try:
                    c.solve()
                finally:
                    self.depth -= 1
        return c

    # -------- partitioned return values: the result of `callee` split by the value of one small-range field
    PARTITION_RETURNS = {"a5::core::serialization::deserialize": "resolution"}

    def disjuncts(self, callee, args):
        key = (callee, args)
        if key in self._disj:
            return self._disj[key]
        self._disj[key] = None
        field = self.PARTITION_RETURNS.get(callee)
        if field is None or callee not in self.facts.fns:
            return None
        c = self.solved_ctx(callee, args)
        ft = c.ft
        from .query import returns_under
        terms = set()
        for leaf in returns_under(ft, {}):
            for x in walk(leaf):
                if x[0] == "agg" and x[1] == "adt" and field in x[4]:
                    t = x[3][x[4].index(field)]
                    if not is_const(t):
                        terms.add(t)
        if len({strip_site(t) for t in terms}) != 1:
            return None
        T = next(iter(terms))
        rng = c.av(T, None)
        if rng[0] != "i" or rng[2] - rng[1] > 40 or rng[2] == rng[1]:
            return None
        atom = c.atom(T, None)
        out = []
        saved = (dict(c.phi), list(c.seen_phis), c.ret)
        for v in range(rng[1], rng[2] + 1):
            c.extra_facts = [({atom: 1}, -v), ({atom: -1}, v)]
            c.phi, c.seen_phis, c.final = {}, [], False
            self.depth += 1
            try:
                r = c.solve()
            finally:
                self.depth -= 1
            out.append((v, r))
        c.extra_facts = []
        c.phi, c.seen_phis, c.ret = saved
        c.reset_caches()
        c.final = True
        self._disj[key] = out
        return out

    def split_candidates(self, args):
        """(description, list of argument tuples) for each small-range integer component of the arguments"""
        out = []

        def comps(av, path):
            if av[0] == "i" and 2 <= av[2] - av[1] + 1 <= 40:
                yield path, av
            elif av[0] == "r" and len(path) < 3:
                yield from comps(av[1], path + ("*",))
            elif av[0] == "s" and len(path) < 3:
                for n, v in av[1]:
                    yield from comps(v, path + (n,))

        def setc(av, path, val):
            if not path:
                return I(val, val)
            if path[0] == "*":
                return ("r", setc(av[1], path[1:], val))
            return ("s", tuple((n, setc(v, path[1:], val) if n == path[0] else v) for n, v in av[1]))
        found = []
        for i, a in enumerate(args):
            for path, av in comps(a, ()):
                found.append((av[2] - av[1], i, path, av))
        found.sort(key=lambda x: x[0])
        for _w, i, path, av in found[:3]:
            vals = sorted(ivals(av)) if ivals(av) is not None else list(range(av[1], av[2] + 1))
            subs = [args[:i] + (setc(args[i], path, v),) + args[i + 1:] for v in vals]
            out.append(("arg%d%s" % (i + 1, "".join("." + p for p in path)), subs))
        return out

    def carve_candidates(self, path, args):
        """for wide integer parameters that the function compares with constants: split into the region below, every
        value between the smallest and largest such constant (if few), and the region above"""
        c = self.solved_ctx(path, args)
        ft = c.ft
        consts = {}
        from .query import resolve_promoted

        def note(p, v):
            consts.setdefault(p, set()).add(v)
        for b in sorted(ft.cfg.reach):
            t = ft.blocks[b]["term"]
            if t["k"] != "switch":
                continue
            d = ft.switch_term(b)
            if d[0] == "un" and d[1] == "Not":
                d = d[2]
            if d[0] == "bin" and d[1] in CMP:
                for x, y in ((d[2], d[3]), (d[3], d[2])):
                    if x[0] == "param":
                        yv = c.av(y, None)
                        if yv[0] == "i" and yv[1] == yv[2]:
                            note(x[1], yv[1])
            if d[0] == "call" and isinstance(d[1], str) and d[1].endswith("::contains") and "ops::Range" in d[1] and len(d[2]) == 2:
                rng, x = d[2]
                for _ in range(6):
                    while rng[0] in ("ref", "deref"):
                        rng = rng[2] if rng[0] == "ref" else rng[1]
                    if rng[0] == "promoted":
                        rng = resolve_promoted(self.facts, rng)
                    else:
                        break
                while x[0] in ("ref", "deref"):
                    x = x[2] if x[0] == "ref" else x[1]
                ends = None
                if rng[0] == "agg" and rng[2].startswith("std::ops::Range::"):
                    ends = rng[3]
                elif rng[0] == "call" and isinstance(rng[1], str) and rng[1].endswith("RangeInclusive::new"):
                    ends = rng[2]
                if x[0] == "param" and ends:
                    for e in ends:
                        ev = c.av(e, None)
                        if ev[0] == "i" and ev[1] == ev[2]:
                            note(x[1], ev[1])
        out = []
        for p, ks in sorted(consts.items()):
            a = args[p - 1] if p - 1 < len(args) else None
            if a is None or a[0] != "i" or a[2] - a[1] <= 40:
                continue
            lo, hi = min(ks) - 1, max(ks) + 1
            if hi - lo > 40:
                continue
            subs = []
            if a[1] < lo:
                subs.append(args[:p - 1] + (I(a[1], lo - 1),) + args[p:])
            for v in range(max(lo, a[1]), min(hi, a[2]) + 1):
                subs.append(args[:p - 1] + (I(v, v),) + args[p:])
            if a[2] > hi:
                subs.append(args[:p - 1] + (I(hi + 1, a[2]),) + args[p:])
            out.append(("arg%d carved at %s" % (p, sorted(ks)), subs))
        return out

    def variants(self, path, args):
        """contexts whose obligations stand for (path, args): the plain context, or a case split that discharges more"""
        base = self.solved_ctx(path, args)
        if self.precision >= 1 and (path, args) in self.roots:
            cc = self.carve_candidates(path, args)
            if cc:
                desc, sublist = cc[0]
                return [self.solved_ctx(path, a) for a in sublist], desc
        if self.precision >= 1:
            # eager: a function that decodes an ID exactly once is analysed per decoded resolution
            for callee in self.PARTITION_RETURNS:
                sites = [c for c in base.ft.calls() if c.callee == callee]
                if len(sites) == 1:
                    cargs = tuple(base.av(a, sites[0].block) for a in sites[0].args)
                    D = self.disjuncts(callee, cargs)
                    if D:
                        subs = [self.solved_ctx(path, args, (callee, cargs, j)) for j in range(len(D))]
                        return subs, "result of %s by %s" % (callee.split("::")[-1], self.PARTITION_RETURNS[callee])
        obs = base.check_obligations()
        failed = {o.key for o in obs if o.status == "failed"}
        if not failed or self.precision < 1:
            return [base], None
        best = ([base], failed, None)
        # 1. split on the partitioned result of a callee that is called exactly once
        for callee in self.PARTITION_RETURNS:
            sites = [c for c in base.ft.calls() if c.callee == callee]
            if len(sites) != 1:
                continue
            cargs = tuple(base.av(a, sites[0].block) for a in sites[0].args)
            D = self.disjuncts(callee, cargs)
            if not D:
                continue
            subs = [self.solved_ctx(path, args, (callee, cargs, j)) for j in range(len(D))]
            f2 = set()
            for sc in subs:
                f2 |= {o.key for o in sc.check_obligations() if o.status == "failed"}
            if len(f2) < len(best[1]):
                best = (subs, f2, "result of %s by %s" % (callee.split("::")[-1], self.PARTITION_RETURNS[callee]))
        # 2. split on a small-range integer argument component
        if best[1]:
            cands = self.split_candidates(args)
            pref = self.split_pref.get(path)
            cands.sort(key=lambda x: 0 if x[0] == pref else 1)
            for desc, sublist in cands:
                subs = [self.solved_ctx(path, a) for a in sublist]
                f2 = set()
                for sc in subs:
                    f2 |= {o.key for o in sc.check_obligations() if o.status == "failed"}
                if len(f2) < len(best[1]):
                    best = (subs, f2, desc)
                    self.split_pref[path] = desc
                    if not f2:
                        break
        return best[0], best[2]

    def default_args(self, path):
        f = self.facts.fns[path]
        return tuple(top_of_type(f["locals"][i]["ty"], self.facts) for i in range(1, f["arg_count"] + 1))

    def summary(self, path, args, caller=None):
        """abstract return value of `path` under abstract arguments (memoised, recursion -> top)"""
        key = (path, args)
        if caller is not None:
            self.callers.setdefault(key, set()).add(caller)
        if key in self.ret_memo:
            return self.ret_memo[key]
        if key in self.in_progress or self.depth > 40:
            return top_of_type(self.facts.fns[path]["ret_ty"], self.facts)
        self.in_progress.add(key)
        self.depth += 1
        try:
            c = self.ctx(path, args)
            r = c.solve()
        finally:
            self.depth -= 1
            self.in_progress.discard(key)
        self.ret_memo[key] = r
        return r

    def mark_live(self, path, args):
        key = (path, args)
        if key not in self.live_set:
            self.live_set.add(key)
            self.live.append(key)

    def analyze(self, entries):
        """entries: list of (path, args or None)"""
        self.roots = set()
        for path, args in entries:
            if args is None:
                args = self.default_args(path)
            self.summary(path, args)
            self.roots.add((path, args))
            self.mark_live(path, args)
        i = 0
        done_inits = set()
        while True:
            while i < len(self.live):
                path, args = self.live[i]
                i += 1
                ctxs, how = self.variants(path, args)
                if how:
                    self.splits[(path, tuple(show(a) for a in args))] = (how, len(ctxs))
                for c in ctxs:
                    for ob in c.check_obligations():
                        self.record(ob)
                    for (p2, a2) in sorted(c.pending, key=lambda k: (k[0], repr(k[1]))):
                        self.mark_live(p2, a2)
            # initialisers of once-cells touched so far: argument-free, hence input-independent contexts
            new = [p for p in self.once_inits if p not in done_inits]
            if not new:
                break
            for p in new:
                done_inits.add(p)
                self.constant_ctx.add((p, ()))
                self.mark_live(p, ())
        return self.obligations

    def once_value(self, init_path):
        """abstract value produced by a once-cell initialiser (analysed once, no arguments)"""
        if init_path not in self.once_cache:
            self.once_cache[init_path] = TOP
            self.once_cache[init_path] = self.summary(init_path, ())
            self.once_inits.add(init_path)
        return self.once_cache[init_path]

    # -------- struct field invariants (join over every construction / assignment site in the crate)
    def unique_fields(self):
        if not hasattr(self, "_ufields"):
            seen = {}
            for ap, adt in self.facts.adts.items():
                if adt["kind"] != "Struct":
                    continue
                for f in adt["variants"][0]["fields"]:
                    seen.setdefault(f["name"], []).append((ap, f["ty"]))
            self._ufields = {n: v[0] for n, v in seen.items() if len(v) == 1 and not n.isdigit()}
            self._afields = {(ap_, n): (ap_, ty_) for n, v in seen.items() if not n.isdigit() for ap_, ty_ in v}
            self._finv = {}
        return self._ufields

    def field_invariant(self, name, base_ty=None):
        """abstract value of struct field `name` valid for every instance built by this crate, or None.  The struct is
        identified by the field name when that is unique in the crate, else by the type of the value read (base_ty)"""
        uf = self.unique_fields()
        if name in uf:
            adt_path, fty = uf[name]
        else:
            ty = (base_ty or "").strip()
            while ty.startswith("&"):
                ty = ty[1:].strip()
                if ty.startswith("mut "):
                    ty = ty[4:].strip()
            ty = ty.split("<")[0]
            hit = self._afields.get((self.facts.crate + "::" + ty, name)) or self._afields.get((ty, name))
            if hit is None:
                return None
            adt_path, fty = hit
        name_key = (adt_path, name)
        if name_key in self._finv:
            return self._finv[name_key]
        self._finv[name_key] = top_of_type(fty, self.facts)   # recursion guard
        out = BOT
        nsites = 0
        for path, f in self.facts.fns.items():
            if f["kind"] not in ("Fn", "AssocFn", "Closure"):
                continue
            sites = []
            for bi, b in enumerate(f["blocks"]):
                if b["cleanup"]:
                    continue
                for i, st in enumerate(b["stmts"]):
                    if st["k"] != "assign":
                        continue
                    rv = st["rv"]
                    if rv["k"] == "aggregate" and rv.get("agg") == "adt" and rv.get("adt") == adt_path and name in rv.get("fields", []):
                        sites.append((bi, i, rv["ops"][rv["fields"].index(name)], None))
                    pr = st["place"]["proj"]
                    if pr and pr[-1]["k"] == "field" and pr[-1].get("name") == name and pr[-1].get("adt") == adt_path:
                        sites.append((bi, i, None, rv))
            if not sites:
                continue
            c = self.ctx(path, self.default_args(path))
            if not c.solved:
                self.summary(path, c.args)
            for bi, i, op, rv in sites:
                if bi not in c.ft.cfg.reach:
                    continue
                t = c.ft.operand(op, bi, i) if op is not None else c.ft.rvalue(rv, bi, i)
                # field-wise copies of an existing instance keep the invariant
                x = t
                while x[0] in ("ref", "deref") or (x[0] == "call" and isinstance(x[1], str) and x[1].endswith("::clone") and x[2]):
                    x = x[2] if x[0] == "ref" else (x[1] if x[0] == "deref" else x[2][0])
                if x[0] == "field" and x[2] == name:
                    continue
                nsites += 1
                out = join(out, c.av(t, bi))
        if nsites == 0 or out[0] in ("b", "t"):
            out = top_of_type(fty, self.facts)
        self._finv[name_key] = out
        return out

    def is_constant_ctx(self, key, _seen=None):
        """a context reached only from once-cell initialisers (no API argument can influence it): every obligation in it
        either always fails or never fails, so any single run of the crate settles it - reported separately, not claimed"""
        if key in self.constant_ctx:
            return True
        _seen = _seen or set()
        if key in _seen:
            return True
        _seen.add(key)
        callers = self.callers.get(key, set())
        if not callers:
            return False
        return all(self.is_constant_ctx((cp, ca), _seen) for cp, ca, _s in callers)

    def record(self, ob):
        old = self.obligations.get(ob.key)
        rank = {"discharged": 0, "lifted": 0, "constant": 1, "assumed": 1, "failed": 2}
        if old is None or rank[ob.status] > rank[old.status]:
            self.obligations[ob.key] = ob


class FnCtx:
    def __init__(self, eng, path, args, choice=None):
        self.eng = eng
        self.facts = eng.facts
        self.path = path
        self.args = args
        self.choice = choice        # (callee path, callee args, disjunct index) or None
        self.extra_facts = []
        self.pending = set()
        self.obs = None
        self.ft = fn_terms(eng.facts, path)
        self.fn = self.ft.fn
        self.phi = {}
        self.seen_phis = []
        self.memo = {}
        self.final = False
        self.solved = False
        self.ret = None
        self._facts_memo = {}
        self._fact_atoms = {}
        self._len_events = None
        self.checked = False

    # ------------------------------------------------------------------ solving
    def targets(self):
        ft = self.ft
        out = []
        for b in sorted(ft.cfg.reach):
            blk = ft.blocks[b]
            t = blk["term"]
            pos = len(blk["stmts"])
            if t["k"] == "assert":
                for o in t["ops"]:
                    out.append((ft.operand(o, b, pos), b))
            elif t["k"] == "call":
                for a in t["args"]:
                    out.append((ft.operand(a, b, pos), b))
            elif t["k"] == "switch":
                out.append((ft.operand(t["discr"], b, pos), b))
            elif t["k"] == "return":
                out.append((ft.return_term(b), b))
        return out

    def solve(self):
        tg = self.targets()
        rounds = 0
        maxr = 40
        while True:
            rounds += 1
            self.reset_caches()
            for t, b in tg:
                self.av(t, b)
            changed = False
            nseen = len(self.seen_phis)
            for phi in list(self.seen_phis):
                old = self.phi.get(phi, BOT)
                new = self.phi_join(phi)
                if rounds > 4 + 4 * self.eng.precision:
                    pty = self.ft.tyof(phi) or ""
                    rng = int_range(pty)
                    if rng is None:
                        # arrays / vectors / slices of integers widen to the element type's range, not beyond it
                        m_ = re.match(r"^&?(?:mut )?\[([a-z0-9]+)(?:; \d+)?\]$", pty) or re.match(r"^&?(?:mut )?(?:std|alloc)::vec::Vec<([a-z0-9]+)>$", pty)
                        if m_:
                            rng = int_range(m_.group(1))
                    new = widen(old, new, rng)
                else:
                    new = join(old, new)
                if new != old:
                    self.phi[phi] = new
                    changed = True
            if len(self.seen_phis) > nseen:
                changed = True   # phis discovered in this round have not been evaluated yet
            if not changed or rounds >= maxr:
                break
        # narrowing
        for _ in range(3):
            self.reset_caches()
            for t, b in tg:
                self.av(t, b)
            for phi in list(self.seen_phis):
                new = self.phi_join(phi)
                self.phi[phi] = meet(self.phi.get(phi, BOT), new) if self.phi.get(phi, BOT)[0] != "b" else new
        self.reset_caches()
        self.final = True
        rets = [self.av(self.ft.return_term(b), b) for b in self.ft.return_blocks() if self.block_live(b)]
        r = BOT
        for x in rets:
            r = join(r, x)
        if r[0] == "b":
            r = top_of_type(self.fn["ret_ty"], self.facts) if not rets else r
        self.ret = r
        self.solved = True
        return r

    def reset_caches(self):
        self.memo = {}
        self._live_blocks = None
        self._fact_atoms = {}
        self._possum = None
        self._facts_memo = {}
        self._vsum = {}
        if hasattr(self, "_lemmas"):
            del self._lemmas
        self._after_loop = {}

    def phi_join(self, phi):
        out = BOT
        b = phi[2]
        for p, t in self.ft.phi_operands(phi).items():
            if not self.edge_live(p, b):
                continue
            v = self.av(t, p, edge=(p, b))
            out = join(out, v)
        return out

    # ------------------------------------------------------------------ liveness of blocks under known branch values
    def live_blocks(self):
        """blocks reachable from the entry along edges that are feasible for the abstract value of each switch"""
        lb = self.__dict__.get("_live_blocks")
        if lb is not None:
            return lb
        self._live_blocks = self.ft.cfg.reach  # while computing: everything
        seen = {0}
        st = [0]
        while st:
            p = st.pop()
            for s_ in self.ft.cfg.succ[p]:
                if s_ in seen:
                    continue
                if self.switch_edge_feasible(p, s_):
                    seen.add(s_)
                    st.append(s_)
        self._live_blocks = seen
        return seen

    def switch_edge_feasible(self, p, b):
        t = self.ft.blocks[p]["term"]
        if t["k"] != "switch":
            return True
        v = self.av(self.ft.switch_term(p), p)
        if v[0] == "b":
            return False
        if v[0] != "i":
            return True
        vals, other = switch_edge_values(t, b)
        excl = [int(x) for x, bb in t["targets"] if bb != b]
        vs = ivals(v)
        if vs is not None:
            return any((x in vals) or (other and x not in excl) for x in vs)
        if any(v[1] <= x <= v[2] for x in vals):
            return True
        if other:
            span = v[2] - v[1] + 1
            return span > len(excl) or any(x not in excl for x in range(v[1], v[2] + 1))
        return False

    def block_live(self, b):
        if self.final and b not in self.live_blocks():
            return False
        return self._block_live_dom(b)

    def _block_live_dom(self, b):
        for d, vals, other, excl, sb in self.ft.conditions(b):
            v = self.av(d, sb)
            if v[0] == "i" and v[1] == v[2]:
                x = v[1]
                if not (x in vals or (other and x not in excl)):
                    return False
        return True

    def edge_live(self, p, b):
        if not self.block_live(p):
            return False
        t = self.ft.blocks[p]["term"]
        if t["k"] == "switch":
            v = self.av(self.ft.switch_term(p), p)
            if v[0] == "i":
                vals, other = switch_edge_values(t, b)
                excl = [int(x) for x, bb in t["targets"] if bb != b]
                feasible = any(v[1] <= x <= v[2] for x in vals)
                if other:
                    # some value in range not excluded
                    span = v[2] - v[1] + 1
                    if span > len(excl) or any(x not in excl for x in range(v[1], v[2] + 1)):
                        feasible = True
                return feasible
        return True

    # ------------------------------------------------------------------ facts from dominating edges
    def edge_facts(self, p, b):
        """facts that hold on the CFG edge p->b in addition to those dominating p"""
        t = self.ft.blocks[p]["term"]
        out = []
        if t["k"] == "switch":
            vals, other = switch_edge_values(t, b)
            excl = [int(x) for x, bb in t["targets"] if bb != b]
            out += self.cond_facts(self.ft.switch_term(p), vals, other, excl, p)
        return out

    def facts_at(self, b, edge=None):
        key = (b, edge)
        if key in self._facts_memo:
            return self._facts_memo[key]
        self._facts_memo[key] = []
        out = list(self.extra_facts)
        for d, vals, other, excl, sb in self.ft.conditions(b):
            out += self.cond_facts(d, vals, other, excl, sb)
        if edge is not None:
            out += self.edge_facts(*edge)
        elif b not in self.ft.cfg.loops():
            # a join all of whose ways in but one are dead in this context is reached along that one way only: what holds
            # on it holds here (the arms of a `match` on ranges share their fall-through blocks)
            preds = [p_ for p_ in self.ft.cfg.pred[b] if p_ in self.ft.cfg.reach]
            if len(preds) > 1:
                try:
                    live = [p_ for p_ in preds if self.edge_live(p_, b)]
                except RecursionError:
                    live = preds
                if len(live) == 1:
                    out += self.facts_at(live[0], (live[0], b))
        out += self.counter_facts(b)
        # x <= y together with x != y is x + 1 <= y over the integers (guards written as `if a > b {..}` then `if a == b {..}`)
        try:
            conds = list(self.ft.conditions(b))
            if edge is not None:
                t_ = self.ft.blocks[edge[0]]["term"]
                if t_["k"] == "switch":
                    vals_, other_ = switch_edge_values(t_, edge[1])
                    conds.append((self.ft.switch_term(edge[0]), vals_, other_, [int(x) for x, b2 in t_["targets"] if b2 != edge[1]], edge[0]))
            for d, vals, other, excl, sb in conds:
                truth = None
                if not other and vals:
                    truth = True if all(v != 0 for v in vals) else (False if vals == [0] else None)
                elif other and 0 in excl and not vals:
                    truth = True
                if d[0] == "un" and d[1] == "Not" and truth is not None and d[2][0] == "bin":
                    d, truth = d[2], not truth
                if not (d[0] == "bin" and d[1] in ("Eq", "Ne") and truth is not None and (d[1] == "Ne") == truth):
                    continue
                if (self.ft.tyof(d[2]) or "") in ("f64", "f32", "bool") or is_const(d[2]) or is_const(d[3]):
                    continue
                lx, ly = self.linear(d[2], sb), self.linear(d[3], sb)
                if not lx or not ly:
                    continue
                co = dict(lx[0])
                for a_, c_ in ly[0].items():
                    co[a_] = co.get(a_, 0) - c_
                co = {a_: c_ for a_, c_ in co.items() if c_}
                k = lx[1] - ly[1]
                neg = {a_: -c_ for a_, c_ in co.items()}
                for fco, fk in list(out):
                    f2 = {a_: c_ for a_, c_ in fco.items() if c_}
                    if f2 == co and fk == k:
                        out.append((co, k + 1))
                    elif f2 == neg and fk == -k:
                        out.append((neg, -k + 1))
        except RecursionError:
            pass
        self._facts_memo[key] = out
        return out

    def counter_facts(self, b):
        """monotone loop counters: an integer variable that enters a loop with value X and is only ever decreased
        (increased) by a non-negative constant inside it never exceeds (falls below) X, provided X does not change in
        the loop.  Gives `i <= len` for `let mut i = len; while i > 0 { i -= 1; .. }`."""
        memo = self.__dict__.setdefault("_counter_memo", {})
        if b in memo:
            return memo[b]
        memo[b] = []
        out = []
        ft = self.ft
        loops = ft.cfg.loops()
        for head, body in loops.items():
            if b not in body:
                continue
            for local, heads in ft._phi.items():
                if head not in heads:
                    continue
                ty = ft.fn["locals"][local]["ty"]
                if int_range(ty) is None or ty == "bool":
                    continue
                phi = ("phi", ft.path, head, local)
                ops = ft.phi_operands(phi)
                inits = [v for p_, v in ops.items() if p_ not in body]
                backs = [v for p_, v in ops.items() if p_ in body]
                if len(inits) != 1 or not backs:
                    continue
                steps = []
                for v in backs:
                    st = self._counter_step(phi, v, body, 0)
                    if st is None:
                        steps = None
                        break
                    steps += st
                if not steps:
                    continue
                init = inits[0]
                li = self.linear(init, head)
                lp = ({self.atom(phi, head): 1}, 0)
                if li is None:
                    continue
                # atoms of the initial value must mean the same inside the loop: parameters, constants, length atoms of
                # collections that are not resized in the loop (their version at the header equals the one at b)
                stable = True
                for a in li[0]:
                    if isinstance(a, tuple) and a and a[0] == "L" and len(a) == 3 and not isinstance(a[1], tuple):
                        la_b = ("L", a[1], self.len_version(a[1], b, len(ft.blocks[b]["stmts"])))
                        if la_b != a:
                            stable = False
                if not stable:
                    continue
                if all(s_ <= 0 for s_ in steps):       # phi <= init
                    co = dict(lp[0])
                    for a, c_ in li[0].items():
                        co[a] = co.get(a, 0) - c_
                    out.append((co, -li[1]))
                if all(s_ >= 0 for s_ in steps):       # phi >= init
                    co = {a: c_ for a, c_ in li[0].items()}
                    for a, c_ in lp[0].items():
                        co[a] = co.get(a, 0) - c_
                    out.append((co, li[1]))
        memo[b] = out
        return out

    def _counter_step(self, phi, v, body, depth):
        """list of constant increments by which back-edge value v differs from phi (through joins inside the loop)"""
        if depth > 8:
            return None
        if v == phi:
            return [0]
        if v[0] == "bin" and v[1] in ("Add", "Sub", "AddWithOverflow", "SubWithOverflow") and const_int(v[3]) is not None:
            inner = self._counter_step(phi, v[2], body, depth + 1)
            if inner is None:
                return None
            c_ = const_int(v[3]) * (1 if v[1].startswith("Add") else -1)
            return [x + c_ for x in inner]
        if v[0] == "field" and str(v[2]) == "0" and v[1][0] == "bin":
            return self._counter_step(phi, ("bin", v[1][1].replace("WithOverflow", ""), v[1][2], v[1][3]), body, depth + 1)
        if v[0] == "phi" and v[1] == self.ft.path and v[2] in body and v != phi:
            out = []
            for o in self.ft.phi_operands(v).values():
                r = self._counter_step(phi, o, body, depth + 1)
                if r is None:
                    return None
                out += r
            return out
        return None

    def ne_facts_at(self, b, edge=None):
        """disequalities (atom, value) known at block b: from `x != c` edges and switch-otherwise edges"""
        key = ("ne", b, edge)
        if key in self._facts_memo:
            return self._facts_memo[key]
        self._facts_memo[key] = []
        out = []
        conds = list(self.ft.conditions(b))
        if edge is not None:
            p, bb = edge
            t = self.ft.blocks[p]["term"]
            if t["k"] == "switch":
                vals, other = switch_edge_values(t, bb)
                excl = [int(x) for x, b2 in t["targets"] if b2 != bb]
                conds.append((self.ft.switch_term(p), vals, other, excl, p))
        for d, vals, other, excl, sb in conds:
            truth = None
            if not other and vals:
                truth = True if all(v != 0 for v in vals) else (False if vals == [0] else None)
            elif other and 0 in excl and not vals:
                truth = True
            if d[0] == "un" and d[1] == "Not" and truth is not None and d[2][0] == "bin":
                d = d[2]
                truth = not truth
            if d[0] == "bin" and d[1] in ("Eq", "Ne") and truth is not None:
                is_ne = (d[1] == "Ne") == truth
                if is_ne:
                    for x, y in ((d[2], d[3]), (d[3], d[2])):
                        v = const_int(y) if is_const(y) else None
                        if v is None:
                            yv = self._av_nofacts(y) if isinstance(y, tuple) else None
                            if yv is not None and yv[0] == "i" and yv[1] == yv[2]:
                                v = yv[1]
                        if v is not None:
                            out.append((self.atom(x, sb), v))
            elif other and excl and not (d[0] == "bin" and d[1] in CMP):
                for v in excl:
                    out.append((self.atom(d, sb), v))
        self._facts_memo[key] = out
        return out

    def cond_facts(self, d, vals, other, excl, sb):
        """linear facts (coef dict, const) meaning sum + const <= 0, from one taken switch edge"""
        out = []
        truth = None
        if not other and vals:
            if all(v != 0 for v in vals):
                truth = True
            elif vals == [0]:
                truth = False
        elif other and 0 in excl and not vals:
            truth = True
        elif other and not vals and excl and 0 not in excl:
            truth = None
        if d[0] == "bin" and d[1] in CMP and truth is not None:
            op = d[1]
            la, lb = self.linear(d[2], sb), self.linear(d[3], sb)
            if la is not None and lb is not None:
                diff = dict(la[0])
                for a, c in lb[0].items():
                    diff[a] = diff.get(a, 0) - c
                k = la[1] - lb[1]
                neg = {a: -c for a, c in diff.items()}
                if not truth:
                    op = {"Eq": "Ne", "Ne": "Eq", "Lt": "Ge", "Le": "Gt", "Gt": "Le", "Ge": "Lt"}[op]
                ty = self.ft.tyof(d[2]) or ""
                if ty in ("f64", "f32"):
                    return out
                if op == "Lt":
                    out.append((diff, k + 1))
                elif op == "Le":
                    out.append((diff, k))
                elif op == "Gt":
                    out.append((neg, -k + 1))
                elif op == "Ge":
                    out.append((neg, -k))
                elif op == "Eq":
                    out.append((diff, k))
                    out.append((neg, -k))
            return out
        if d[0] == "call" and isinstance(d[1], str) and d[1].endswith("::contains") and "ops::Range" in d[1] and truth and len(d[2]) == 2:
            rng, x = d[2]
            from .query import resolve_promoted
            for _ in range(6):
                while rng[0] in ("ref", "deref"):
                    rng = rng[2] if rng[0] == "ref" else rng[1]
                if rng[0] == "promoted":
                    rng = resolve_promoted(self.facts, rng)
                else:
                    break
            while x[0] == "ref" or (x[0] == "deref"):
                x = x[2] if x[0] == "ref" else x[1]
            lo = hi = None
            incl = False
            if rng[0] == "agg" and rng[2].startswith("std::ops::Range::") and len(rng[3]) == 2:
                lo, hi = rng[3]
            elif rng[0] == "call" and isinstance(rng[1], str) and rng[1].endswith("RangeInclusive::new") and len(rng[2]) == 2:
                lo, hi = rng[2]
                incl = True
            if lo is not None:
                lx, ll, lh = self.linear(x, sb), self.linear(lo, sb), self.linear(hi, sb)
                if lx and ll and lh:
                    co = dict(ll[0])
                    for a, c_ in lx[0].items():
                        co[a] = co.get(a, 0) - c_
                    out.append((co, ll[1] - lx[1]))            # lo - x <= 0
                    co = dict(lx[0])
                    for a, c_ in lh[0].items():
                        co[a] = co.get(a, 0) - c_
                    out.append((co, lx[1] - lh[1] + (0 if incl else 1)))   # x - hi (+1) <= 0
            return out
        if d[0] == "call" and isinstance(d[1], str) and d[1].endswith("::is_empty") and truth is not None and len(d[2]) == 1:
            site = d[3][1] if len(d) > 3 and d[3] else sb
            la = self.len_atom(d[2][0], site)
            if la is not None:
                if truth:
                    out.append(({la: 1}, 0))
                else:
                    out.append(({la: -1}, 1))
            return out
        if d[0] == "discr" and not other and len(vals) == 1 and d[1][0] == "call" and isinstance(d[1][1], str):
            # `opt.ok_or(..)?` / `opt.ok_or_else(..)?` continues exactly when opt is Some
            x_ = d[1]
            via_try = False
            if x_[1].endswith("::branch") and len(x_[2]) == 1 and x_[2][0][0] == "call" and isinstance(x_[2][0][1], str):
                x_, via_try = x_[2][0], True
            if x_[1].split("::")[-1] in ("ok_or", "ok_or_else") and "Option" in x_[1] and len(x_[2]) == 2:
                is_ok = (vals[0] == 0)           # Continue / Ok are variant 0, Break / Err variant 1
                return self.cond_facts(("discr", x_[2][0]), [1 if is_ok else 0], False, [], sb)
        if d[0] == "discr" and d[1][0] == "call" and isinstance(d[1][1], str) and d[1][1].endswith("::get") and len(d[1][2]) == 2 \
                and ("slice" in d[1][1] or "Vec" in d[1][1]) and ((vals == [1] and not other) or (other and 0 in excl and not vals)):
            # v.get(i) is Some exactly when i < v.len()
            gc = d[1]
            site = gc[3][1] if len(gc) > 3 and gc[3] else sb
            la = self.len_atom(gc[2][0], site)
            li = self.linear(gc[2][1], sb)
            if la is not None and li is not None:
                co = dict(li[0])
                co[la] = co.get(la, 0) - 1
                out.append((co, li[1] + 1))
            return out
        if d[0] == "discr" and not other and len(vals) == 1:
            # a Result / Option that is a join of constructors (an inlined helper's `return Err(..)` / `Ok(..)`): taking the
            # Ok edge means control came through the predecessor that built the Ok, so whatever held there holds here
            x = d[1]
            want = None
            if x[0] == "call" and isinstance(x[1], str) and x[1].endswith("::branch") and len(x[2]) == 1:
                want = ("Ok", "Some") if vals[0] == 0 else ("Err", "None")
                x = x[2][0]
            elif x[0] == "phi":
                ty = self.ft.tyof(x) or ""
                if ty.startswith("std::result::Result<"):
                    want = ("Ok",) if vals[0] == 0 else ("Err",)
                elif ty.startswith("std::option::Option<"):
                    want = ("None",) if vals[0] == 0 else ("Some",)
            if want is not None and x[0] == "phi" and x[1] == self.path:
                ops = self.ft.phi_operands(x)
                match, unknown = [], False
                for p_, o in ops.items():
                    if o[0] == "agg" and o[1] == "adt" and o[2].rsplit("::", 1)[-1] in ("Ok", "Err", "Some", "None"):
                        if o[2].rsplit("::", 1)[-1] in want:
                            match.append(p_)
                    elif o[0] == "call" and isinstance(o[1], str) and o[1].endswith("::from_residual"):
                        if "Err" in want or "None" in want:
                            match.append(p_)
                    else:
                        unknown = True
                if len(match) == 1 and not unknown and match[0] != sb:
                    guard = self.__dict__.setdefault("_join_guard", set())
                    if match[0] not in guard:
                        guard.add(match[0])
                        try:
                            out += list(self.facts_at(match[0]))
                        finally:
                            guard.discard(match[0])
                    return out
        if d[0] == "discr" and d[1][0] == "call" and isinstance(d[1][1], str) and d[1][1].endswith("::next") and vals == [1] and not other:
            # Some(item) came out of a forward iterator over a vector / slice: the collection is not empty, and an
            # enumerate() index is smaller than its length
            from .query import iter_source
            nx = d[1]
            src = iter_source(self.ft, nx[2][0]) if nx[2] else None
            views = []
            x = src
            while x is not None:
                while x[0] in ("ref", "deref"):
                    x = x[2] if x[0] == "ref" else x[1]
                if x[0] == "call" and isinstance(x[1], str) and x[2] and x[1].split("::")[-1] in ("into_iter", "iter", "iter_mut", "enumerate", "copied", "cloned"):
                    views.append(x[1].split("::")[-1])
                    x = x[2][0]
                    continue
                break
            if x is not None and views and (self.ft.tyof(x) or "").lstrip("&").replace("mut ", "").strip().startswith(("[", "std::vec::Vec<", "alloc::vec::Vec<")):
                la = self.len_atom(("ref", False, x, None) if x[0] not in ("ref",) and not (self.ft.tyof(x) or "").startswith("&") else x, sb)
                if la is not None:
                    out.append(({la: -1}, 1))                                   # 1 <= len
                    if views and views[0] == "enumerate" and "enumerate" not in views[1:]:
                        idx = ("field", ("payload", "Some", nx), 0)
                        li = self.linear(idx, sb)
                        if li is not None:
                            co = dict(li[0])
                            co[la] = co.get(la, 0) - 1
                            out.append((co, li[1] + 1))                         # idx + 1 <= len
            return out
        if d[0] == "un" and d[1] == "Not" and truth is not None:
            # Not(x) true  <=> x == 0 ; Not(x) false <=> x != 0
            if truth:
                return self.cond_facts(d[2], [0], False, [], sb)
            return self.cond_facts(d[2], [], True, [0], sb)
        # plain integer switch on a term
        la = self.linear(d, sb)
        if la is not None and (self.ft.tyof(d) or "") not in ("f64", "f32"):
            if not other and len(vals) >= 1:
                lo, hi = min(vals), max(vals)
                out.append((dict(la[0]), la[1] - hi))
                out.append(({a: -c for a, c in la[0].items()}, -la[1] + lo))
            elif other and excl:
                # value differs from each excluded constant: only useful at the ends of the known range
                pass
        return out

    # ------------------------------------------------------------------ linear forms over atoms
    def linear(self, t, at):
        """(coef dict over atoms, const) with t == sum exactly as mathematical integers, or None for non-integers.
        Casts are looked through only when the operand's range fits the target type."""
        ty = self.ft.tyof(t)
        if ty in ("f64", "f32"):
            return None
        return self._lin(t, at, 0)

    def _lin(self, t, at, depth):
        if depth > 40:
            return ({self.atom(t, at): 1}, 0)
        if is_const(t):
            v = const_int(t)
            if v is None:
                return ({self.atom(t, at): 1}, 0)
            return ({}, v)
        tag = t[0]
        if tag == "bin":
            op = t[1]
            if op in ("Add", "Sub", "AddWithOverflow", "SubWithOverflow", "AddUnchecked", "SubUnchecked"):
                # exact only if the result does not wrap
                av = self.av(t, at)
                exact = self.exact_bin(t, at)
                if exact:
                    a, b = self._lin(t[2], at, depth + 1), self._lin(t[3], at, depth + 1)
                    s = 1 if op.startswith("Add") else -1
                    co = dict(a[0])
                    for x, c in b[0].items():
                        co[x] = co.get(x, 0) + s * c
                        if co[x] == 0:
                            del co[x]
                    return (co, a[1] + s * b[1])
            if op in ("Mul", "MulWithOverflow", "MulUnchecked") and self.exact_bin(t, at):
                a, b = self._lin(t[2], at, depth + 1), self._lin(t[3], at, depth + 1)
                if not a[0]:
                    return ({x: c * a[1] for x, c in b[0].items() if c * a[1]}, a[1] * b[1])
                if not b[0]:
                    return ({x: c * b[1] for x, c in a[0].items() if c * b[1]}, a[1] * b[1])
            if op in ("Shl", "ShlUnchecked") and self.exact_bin(t, at):
                b = self._lin(t[3], at, depth + 1)
                if not b[0] and 0 <= b[1] < 128:
                    a = self._lin(t[2], at, depth + 1)
                    m = 1 << b[1]
                    return ({x: c * m for x, c in a[0].items()}, a[1] * m)
        if tag == "cast" and t[1] == "IntToInt":
            inner = self.av(t[2], at)
            r = int_range(t[3])
            if inner[0] == "i" and r and inner[1] >= r[0] and inner[2] <= r[1]:
                return self._lin(t[2], at, depth + 1)
        if tag == "call" and isinstance(t[1], str) and t[1].endswith("::len") and len(t[2]) == 1:
            # the length of a fixed-size array (borrowed as a slice) is a constant
            x_ = t[2][0]
            while x_[0] in ("ref", "deref") or (x_[0] == "cast" and x_[1] == "PointerCoercion"):
                x_ = x_[2] if x_[0] in ("ref", "cast") else x_[1]
            ty_ = self.ft.tyof(x_) or ""
            m_ = re.match(r"^\[.*; (\d+)\]$", ty_.lstrip("&").strip())
            if m_:
                return ({}, int(m_.group(1)))
        if tag == "call" and isinstance(t[1], str) and t[2] and t[1].split("::")[-1] in ("expect", "unwrap") and "option::Option" in t[1]:
            # checked_op(a, b).expect(..) is a op b wherever it has a value at all (its panic is an obligation of its own)
            inner = t[2][0]
            while inner[0] in ("ref", "deref"):
                inner = inner[2] if inner[0] == "ref" else inner[1]
            if inner[0] == "call" and isinstance(inner[1], str) and len(inner[2]) == 2 and inner[1].split("::")[-1] in ("checked_add", "checked_sub"):
                a, b = self._lin(inner[2][0], at, depth + 1), self._lin(inner[2][1], at, depth + 1)
                s_ = 1 if inner[1].endswith("checked_add") else -1
                co = dict(a[0])
                for x, c in b[0].items():
                    co[x] = co.get(x, 0) + s_ * c
                    if co[x] == 0:
                        del co[x]
                return (co, a[1] + s_ * b[1])
        return ({self.atom(t, at): 1}, 0)

    def exact_bin(self, t, at):
        """does the mathematical result of the operation fit the operand type (no wrap)?"""
        a, b = self.av(t[2], at), self.av(t[3], at)
        if a[0] != "i" or b[0] != "i":
            return False
        op = t[1]
        if op.startswith("Add"):
            r = i_add(a, b)
        elif op.startswith("Sub"):
            r = i_sub(a, b)
        elif op.startswith("Mul"):
            r = i_mul(a, b)
        elif op.startswith("Shl"):
            if b[1] < 0 or b[2] > 127 or a[1] < 0:
                return False
            r = I(a[1] << b[1], a[2] << b[2])
        else:
            return False
        tr = int_range(self.ft.tyof(t[2]) or "")
        if r[0] != "i":
            return False
        if tr is None:
            return False
        return r[1] >= tr[0] and r[2] <= tr[1]

    def atom(self, t, at):
        """canonical atom for a non-linear integer term"""
        ac = self.__dict__.setdefault("_atom_cache", {})
        k = (id(t), at if (t[0] == "call" and not (len(t) > 3 and t[3])) else None)
        hit = ac.get(k)
        if hit is not None and hit[0] is t:
            return hit[1]
        la = self.len_atom_of_call(t, at)
        if la is not None:
            r = la
        else:
            r = strip_site(t) if not has_escaped(t) else t
        ac[k] = (t, r)
        self.__dict__.setdefault("atom_orig", {}).setdefault(r, t)
        return r

    # ------------------------------------------------------------------ length atoms
    def len_events(self):
        """per place key: list of (block, pos) where the length of the vector stored there may change"""
        if self._len_events is not None:
            return self._len_events
        ft = self.ft
        ev = {}
        for b in sorted(ft.cfg.reach):
            blk = ft.blocks[b]
            for i, st in enumerate(blk["stmts"]):
                if st["k"] == "assign" and not st["place"]["proj"]:
                    ev.setdefault("_%d" % st["place"]["local"], []).append((b, i))
            t = blk["term"]
            pos = len(blk["stmts"])
            if t["k"] == "call":
                if not t["dest"]["proj"]:
                    ev.setdefault("_%d" % t["dest"]["local"], []).append((b, pos))
                f = t["func"]
                name = strip_generics(f.get("resolved") or f.get("path", "")) if f.get("k") == "fn" else ""
                preserving = any(name.endswith(s) for s in LEN_PRESERVING)
                for a in t["args"]:
                    at = ft.operand(a, b, pos)
                    # a direct &mut to the vector handed to something that may resize it
                    x = at
                    while x[0] == "deref" or (x[0] == "ref" and x[2][0] == "deref"):
                        x = x[1] if x[0] == "deref" else x[2]
                    if x[0] == "ref" and x[1] in (True, "raw") and not preserving:
                        ty = ft.tyof(x[2]) or ""
                        if "Vec<" in ty or ty == "" or "String" in ty:
                            ev.setdefault(x[3], []).append((b, pos))
        self._len_events = ev
        return ev

    def len_version(self, key, b, pos):
        """identifier of the last length-changing event of place `key` before (b,pos): a single event,
        or a join marker placed by dominance (the events reaching here all passed that block)"""
        ev = self.len_events().get(key, [])
        if not ev:
            return ("entry",)
        ft = self.ft
        cfg = ft.cfg
        same = [p for (eb, p) in ev if eb == b and p < pos]
        if same:
            return ("ev", b, max(same))
        # iterated dominance frontier of event blocks
        blocks = {eb for eb, _ in ev}
        placed = set()
        work = list(blocks | {0})
        while work:
            x = work.pop()
            for y in ft._df.get(x, ()):
                if y not in placed:
                    placed.add(y)
                    work.append(y)
        x = b
        first = True
        while True:
            if not first or True:
                if x in placed and not (x == b and False):
                    if x != b or True:
                        # a join at x: unless x == b and an event precedes (handled above)
                        if x != b or not same:
                            if x in placed and (x != b or True):
                                pass
            if x in placed:
                return ("join", x)
            if x != b:
                evs = [p for (eb, p) in ev if eb == x]
                if evs:
                    return ("ev", x, max(evs))
            if x == 0:
                return ("entry",)
            x = cfg.idom[x]
            first = False

    def root_key(self, t):
        """place key of the vector a reference term points at, or ('param', i) for slices behind parameters"""
        x = t
        for _ in range(12):
            if x[0] == "ref":
                inner = x[2]
                if inner[0] == "deref":
                    x = inner[1]
                    continue
                return x[3]
            if x[0] == "deref":
                x = x[1]
                continue
            if x[0] == "cast" and x[1] == "PointerCoercion":
                x = x[2]
                continue
            if x[0] == "call" and isinstance(x[1], str) and x[2] and any(x[1].endswith(s) for s in ("::deref", "::deref_mut", "::as_slice", "::as_mut_slice")):
                x = x[2][0]
                continue
            if x[0] == "payload" and x[1] in ("Ok", "Some"):
                x = x[2]                       # the collection inside a successful `collect::<Result<Vec<_>, _>>()`
                continue
            if x[0] == "call" and isinstance(x[1], str) and x[2] and x[1].split("::")[-1] in ("collect", "from_iter", "to_vec", "map", "iter", "into_iter", "copied", "cloned", "enumerate", "rev", "by_ref") \
                    and not ("option::Option" in x[1] or "result::Result" in x[1]):
                # a collection built item by item from another one has that one's length (only lengths are asked of a root key)
                x = x[2][0]
                continue
            if x[0] == "param":
                return ("param", x[1])
            if x[0] == "field" and x[1][0] == "deref" and x[1][1][0] == "param":
                return ("param", x[1][1][1], x[2])
            if x[0] == "call" and isinstance(x[1], str) and (self.ft.tyof(x) or "").startswith("&") and not any(y[0] == "escaped" for y in walk(x)):
                # a reference returned by a call: the object behind it is identified by the call itself (same site)
                return ("callref", x)
            return None
        return None

    def len_atom(self, vec_ref_term, b):
        """atom standing for the length of the vector/slice behind `vec_ref_term` as seen in block b (at its terminator)"""
        k = self.root_key(vec_ref_term)
        if k is None:
            return None
        if isinstance(k, tuple):
            return ("L",) + k
        if "." in k and not self.len_events().get(k):
            # a vector that was moved into a field and is not resized there: its length is that of the value moved in
            # (the value of local v as joined at block j is version ('join', j) of v)
            x = vec_ref_term
            while x[0] in ("ref", "deref"):
                x = x[2] if x[0] == "ref" else x[1]
            if x[0] == "phi" and x[1] == self.ft.path and (self.fn["locals"][x[3]]["ty"] or "").startswith("std::vec::Vec<"):
                return ("L", "_%d" % x[3], ("join", x[2]))
        pos = len(self.ft.blocks[b]["stmts"])
        return ("L", k, self.len_version(k, b, pos))

    def len_atom_of_call(self, t, at):
        if t[0] == "call" and isinstance(t[1], str) and t[1].endswith("::len") and t[2] and len(t[2]) == 1:
            site = t[3][1] if len(t) > 3 and t[3] else at
            return self.len_atom(t[2][0], site)
        if t[0] == "un" and t[1] == "PtrMetadata":
            k = self.root_key(t[2])
            if isinstance(k, tuple):
                return ("L",) + k
            if k is not None and at is not None:
                # a slice borrowed from a local vector: while the borrow is live the vector cannot change, so the
                # slice's length is the vector's length as seen where the slice is used
                return self.len_atom(t[2], at)
        return None

    # ------------------------------------------------------------------ abstract evaluation
    def av(self, t, at=None, edge=None):
        key = (id(t), at, edge)
        hit = self.memo.get(key)
        if hit is not None and hit[0] is t:
            return hit[1]
        self.memo[key] = (t, TOP)  # cycle guard
        r = self._av(t, at, edge)
        if r[0] == "t":
            # nothing known about the value: at least its machine type bounds it
            rng_ = int_range(self.ft.tyof(t) or "")
            if rng_ is not None:
                r = I(*rng_)
        if r[0] == "i":
            r = self.refine_int(t, r, at, edge)
        elif at is not None and r[0] in ("s", "r") and (self.facts_at(at, edge) or self.ne_facts_at(at, edge)):
            r = self.refine_struct(t, r, at, edge)
        self.memo[key] = (t, r)
        return r

    def refine_struct(self, t, r, at, edge):
        """push facts about `t.field` into the struct value of t (one level, integer fields)"""
        if r[0] == "r":
            base = t[2] if t[0] == "ref" else ("deref", t)
            inner = self.refine_struct(base, r[1], at, edge) if r[1][0] == "s" else r[1]
            return ("r", inner)
        if r[0] != "s":
            return r
        out = []
        changed = False
        for name, v in r[1]:
            if v[0] == "i":
                nv = self.refine_int(("field", t, name), v, at, edge)
                changed = changed or nv != v
                out.append((name, nv))
            else:
                out.append((name, v))
        return ("s", tuple(out)) if changed else r

    def refine_int(self, t, r, at, edge):
        if at is None:
            if not self.extra_facts:
                return r
            at = 0
        fs = self.facts_at(at, edge)
        nfs = self.ne_facts_at(at, edge)
        if not fs and not nfs:
            return r
        if t[0] == "const":
            return r
        fk = (at, edge)
        fa = self._fact_atoms.get(fk)
        if fa is None:
            fa = set()
            for co, _k in fs:
                fa |= set(co)
            for na, _v in nfs:
                fa.add(na)
            self._fact_atoms[fk] = fa
        a = self.atom(t, at)
        if a not in fa and t[0] not in ("bin", "cast"):
            return r
        if a is None:
            return r
        lo, hi = r[1], r[2]
        if t[0] in ("bin", "cast") and not getattr(self, "_in_lin", False):
            self._in_lin = True
            try:
                lf = self._lin(t, at, 0)
            finally:
                self._in_lin = False
            if lf[0] and not (len(lf[0]) == 1 and list(lf[0].values()) == [1] and lf[1] == 0 and a in lf[0]):
                # facts whose coefficient vector is proportional to the term's linear form bound the term directly
                for co, k in fs:
                    if set(co) != set(lf[0]):
                        continue
                    x0 = next(iter(co))
                    m = Fraction(co[x0], lf[0][x0])
                    if all(Fraction(co[x], lf[0][x]) == m for x in co):
                        # m*(t - lf.k) + k <= 0
                        bound = Fraction(-k, 1) / m + lf[1]
                        if m > 0:
                            hi = min(hi, math.floor(bound))
                        else:
                            lo = max(lo, math.ceil(bound))
                if lo > hi:
                    return r
                if lo == r[1] and hi == r[2]:
                    return r
                return I(lo, hi, r[3] if len(r) > 3 else None)
        for co, k in fs:
            c = co.get(a)
            if not c:
                continue
            # c*a + sum(others) + k <= 0
            rest_lo = 0  # minimum of sum(others)
            ok = True
            for x, cx in co.items():
                if x == a:
                    continue
                rx = self.atom_range(x, at)
                if rx is None:
                    ok = False
                    break
                rest_lo += min(cx * rx[0], cx * rx[1])
            if not ok:
                continue
            bound = -k - rest_lo  # c*a <= bound
            if c > 0:
                hi = min(hi, bound // c)
            else:
                # a >= bound / c  (c negative): ceil division
                q = -((-bound) // c) if False else None
                import math as _m
                val = Fraction(bound, c)
                lo = max(lo, _m.ceil(val))
        nes = [nv for na, nv in self.ne_facts_at(at, edge) if na == a]
        ch = True
        while ch and nes:
            ch = False
            for nv in nes:
                if lo == nv:
                    lo += 1
                    ch = True
                if hi == nv:
                    hi -= 1
                    ch = True
        if lo > hi:
            return r  # contradictory facts: dead code; keep the unrefined value
        if lo == r[1] and hi == r[2] and not nes:
            return r
        vs = r[3] if len(r) > 3 else None
        if vs is not None and nes:
            vs = frozenset(v for v in vs if v not in nes)
        return I(lo, hi, vs)

    def atom_range(self, a, at):
        """interval of an atom without using facts (avoids circularity)"""
        if a and a[0] == "L":
            return self.len_atom_range(a)
        if isinstance(a, tuple) and a and isinstance(a[0], str):
            try:
                v = self._av_nofacts(a)
            except Exception:
                return None
            if v[0] == "i":
                return (v[1], v[2])
        return None

    def _av_nofacts(self, a):
        key = (id(a), "nofacts")
        hit = self.memo.get(key)
        if hit is not None and hit[0] is a:
            return hit[1]
        self.memo[key] = (a, TOP)
        r = self._av(a, None, None)
        self.memo[key] = (a, r)
        return r

    def top_for(self, t):
        return top_of_type(self.ft.tyof(t), self.facts)

    def is_live(self):
        return getattr(self, "checking", False)

    def depth_ok(self):
        return self.eng.depth < 30

    def _av(self, t, at, edge):
        tag = t[0]
        if tag == "const":
            k = t[1]
            if k in ("int", "bool", "char"):
                return I(t[2], t[2])
            if k == "float":
                v = float_of_bits(t[2])
                return F(v, v, v != v)
            if k == "json":
                import json
                from .consts import pyval
                return self.av_of_py(pyval(json.loads(t[2])))
            if k == "zst":
                return S({})
            return self.top_for(t)
        if tag == "param":
            i = t[1] - 1
            if i < len(self.args):
                return self.args[i]
            return self.top_for(t)
        if tag == "phi":
            if t[1] != self.path:
                return self.top_for(t)
            if self.fn["locals"][t[3]]["ty"].startswith("std::vec::Vec<"):
                v = self.vec_local_av(t[3], at)
                if v is not None:
                    return v
            if t not in self.phi:
                self.phi[t] = BOT
                self.seen_phis.append(t)
            v = self.phi[t]
            if self.final and v[0] == "i":
                b_ = self.positional_sums().get(t)
                if b_ is not None:
                    v = meet(v, I(0, b_))
            return v
        if tag == "bin":
            return self.av_bin(t, at, edge)
        if tag == "un":
            a = self.av(t[2], at, edge)
            op = t[1]
            if op == "Neg":
                if a[0] == "i":
                    sv = ivals(a)
                    return fit(I(-a[2], -a[1], frozenset(-x for x in sv) if sv is not None else None), self.ft.tyof(t[2]))
                if a[0] == "f":
                    return F(-a[2], -a[1], a[3])
            if op == "Not":
                if a[0] == "i" and (self.ft.tyof(t[2]) == "bool" or (a[1] >= 0 and a[2] <= 1)):
                    return I(1 - a[2], 1 - a[1])
            if op == "PtrMetadata":
                inner = a[1] if a[0] == "r" else a
                if inner[0] == "v":
                    return inner[1]
                return I(0, MAXLEN)
            return self.top_for(t)
        if tag == "cast":
            return self.av_cast(t, at, edge)
        if tag == "ref":
            inner = self.av(t[2], at, edge)
            return BOT if inner[0] == "b" else R(inner)
        if tag == "deref":
            a = self.av(t[1], at, edge)
            if a[0] == "r":
                return a[1]
            if a[0] == "b":
                return BOT
            return self.top_for(t)
        if tag == "field":
            a = self.av(t[1], at, edge)
            if a[0] == "s":
                v = sget(a, t[2])
                if v is not None:
                    inv = self.eng.field_invariant(t[2], self.ft.tyof(t[1])) if isinstance(t[2], str) and self.depth_ok() else None
                    return meet(v, inv) if inv is not None and inv[0] == v[0] else v
            if a[0] == "b":
                return BOT
            if a[0] in ("f", "i") and str(t[2]) == "0":
                return a  # newtype wrapper flattened by the constant decoder
            inv = self.eng.field_invariant(t[2], self.ft.tyof(t[1])) if isinstance(t[2], str) else None
            if inv is not None:
                return inv
            return self.top_for(t)
        if tag == "ovf":
            inner = t[1]
            if inner[0] == "bin" and self.exact_bin(inner, at):
                return I(0, 0)
            if self.final and inner[0] == "bin":
                for k_, b_ in self.positional_sums().items():
                    if k_[0] == "bin" and k_[2] == inner[2] and k_[3] == inner[3]:
                        tr_ = int_range(self.ft.tyof(inner[2]) or "")
                        if tr_ and b_ <= tr_[1]:
                            return I(0, 0)
            if inner[0] == "bin" and at is not None:
                # relational: both type bounds by linear facts
                tr = int_range(self.ft.tyof(inner[2]) or "")
                op = inner[1]
                if tr and (op.startswith("Add") or op.startswith("Sub")):
                    la, lb = self._lin(inner[2], at, 0), self._lin(inner[3], at, 0)
                    s_ = 1 if op.startswith("Add") else -1
                    co = dict(la[0])
                    for x, c_ in lb[0].items():
                        co[x] = co.get(x, 0) + s_ * c_
                    k = la[1] + s_ * lb[1]
                    if self.prove((co, k - tr[1]), at, edge) and self.prove(({x: -c_ for x, c_ in co.items()}, tr[0] - k), at, edge):
                        return I(0, 0)
            return I(0, 1)
        if tag == "payload":
            return self.av_payload(t, at, edge)
        if tag == "downcast":
            a = self.av(t[1], at, edge)
            if a[0] == "e":
                for n, v in a[1]:
                    if n == t[2]:
                        return v
            return self.top_for(t)
        if tag == "discr":
            # the variant number of a value whose possible variants are known (a Result that can only be Ok here)
            a = self.av(t[1], at, edge)
            while a[0] == "r":
                a = a[1]
            if a[0] == "b":
                return BOT
            if a[0] == "e" and a[1]:
                std = {"Ok": 0, "Err": 1, "None": 0, "Some": 1, "Continue": 0, "Break": 1}
                names = [n for n, _v in a[1]]
                if all(n in std for n in names):
                    idx = sorted({std[n] for n in names})
                    return I(idx[0], idx[-1], frozenset(idx))
            return self.top_for(t) if self.ft.tyof(t) else I(0, 255)
        if tag in ("index", "cindex"):
            a = self.av(t[1], at, edge)
            if a[0] == "b":
                return BOT
            if a[0] == "v":
                if tag == "cindex" and a[3] is not None and not t[3] and t[2] < len(a[3]):
                    return a[3][t[2]]
                if tag == "index" and a[3] is not None:
                    i = self.av(t[2], at, edge)
                    if i[0] == "i" and i[1] == i[2] and 0 <= i[1] < len(a[3]):
                        return a[3][i[1]]
                return a[2]
            return self.top_for(t)
        if tag == "agg":
            return self.av_agg(t, at, edge)
        if tag == "repeat":
            e = self.av(t[1], at, edge)
            n = t[2] if isinstance(t[2], int) else None
            return V(I(n, n) if n is not None else I(0, MAXLEN), e)
        if tag == "update":
            base = self.av(t[1], at, edge)
            val = self.av(t[3], at, edge)
            proj = t[2]
            if base[0] == "b" or val[0] == "b":
                return BOT
            if base[0] == "s" and len(proj) == 1 and proj[0][0] == "field":
                d = dict(base[1])
                d[str(proj[0][1])] = val
                return ("s", tuple(sorted(d.items())))
            if base[0] == "v" and len(proj) == 1 and proj[0][0] in ("index", "cindex"):
                return V(base[1], join(base[2], val), None)
            return self.top_for(t)
        if tag == "call":
            return self.av_call(t, at, edge)
        if tag == "promoted":
            path = "%s::promoted[%d]" % (t[1], t[2])
            if path in self.facts.fns:
                return self.eng.summary(path, ())
            return self.top_for(t)
        if tag == "static":
            # an immutable plain-data static: its compile-time value (the facts loader lists it among the constants)
            cst = self.facts.consts.get(t[1])
            if cst is not None and cst.get("from_static"):
                from .consts import pyval
                v = pyval(cst["value"])
                if v is not None:
                    return R(self.av_of_py(v))
            return R(TOP)
        if tag in ("escaped", "unknown", "uninit"):
            if tag == "escaped":
                if self.fn["locals"][t[1]]["ty"].startswith("std::vec::Vec<"):
                    v = self.vec_local_av(t[1], at)
                    if v is not None:
                        return v
                return top_of_type(self.fn["locals"][t[1]]["ty"], self.facts)
            return self.top_for(t)
        return self.top_for(t)

    def av_of_py(self, v):
        if isinstance(v, bool):
            return I(int(v), int(v))
        if isinstance(v, int):
            return I(v, v)
        if isinstance(v, float):
            return F(v, v, v != v)
        if isinstance(v, list):
            es = tuple(self.av_of_py(x) for x in v)
            e = BOT
            for x in es:
                e = join(e, x)
            return V(I(len(es), len(es)), e, es if len(es) <= 32 else None)
        if isinstance(v, dict) and "opaque" not in v:
            return S({k: self.av_of_py(x) for k, x in v.items()})
        return TOP

    def av_agg(self, t, at, edge):
        kind, label, ops, names = t[1], t[2], t[3], t[4]
        vals = [self.av(o, at, edge) for o in ops]
        if kind == "adt":
            variant = label.split("::")[-1]
            adt_path = label[: -len(variant) - 2]
            adt = self.facts.adts.get(adt_path)
            fields = S({(names[i] if i < len(names) else str(i)): v for i, v in enumerate(vals)})
            is_enum = (adt is not None and adt["kind"] == "Enum") or adt_path in ("std::option::Option", "std::result::Result", "core::option::Option", "core::result::Result") \
                or adt_path.startswith("std::ops::ControlFlow")
            if is_enum:
                return E({variant: fields})
            return fields
        if kind == "tuple":
            return S({str(i): v for i, v in enumerate(vals)})
        if kind in ("array", "vec"):
            e = BOT
            for v in vals:
                e = join(e, v)
            return V(I(len(vals), len(vals)), e if vals else TOP, tuple(vals) if len(vals) <= 32 else None)
        if kind == "closure":
            return S({str(i): v for i, v in enumerate(vals)})
        return self.top_for(t)

    def av_bin(self, t, at, edge):
        op = t[1]
        a, b = self.av(t[2], at, edge), self.av(t[3], at, edge)
        if a[0] == "b" or b[0] == "b":
            return BOT
        ty = self.ft.tyof(t[2]) or ""
        if op in CMP:
            if a[0] == "i" and b[0] == "i":
                res = None
                if op == "Lt":
                    res = I(1, 1) if a[2] < b[1] else (I(0, 0) if a[1] >= b[2] else None)
                elif op == "Le":
                    res = I(1, 1) if a[2] <= b[1] else (I(0, 0) if a[1] > b[2] else None)
                elif op == "Gt":
                    res = I(1, 1) if a[1] > b[2] else (I(0, 0) if a[2] <= b[1] else None)
                elif op == "Ge":
                    res = I(1, 1) if a[1] >= b[2] else (I(0, 0) if a[2] < b[1] else None)
                elif op == "Eq":
                    if a[1] == a[2] == b[1] == b[2]:
                        res = I(1, 1)
                    elif a[2] < b[1] or b[2] < a[1]:
                        res = I(0, 0)
                elif op == "Ne":
                    if a[1] == a[2] == b[1] == b[2]:
                        res = I(0, 0)
                    elif a[2] < b[1] or b[2] < a[1]:
                        res = I(1, 1)
                if res is not None:
                    return res
            # relational: try the facts
            if at is not None and a[0] == "i" and b[0] == "i":
                la, lb = self.linear(t[2], at), self.linear(t[3], at)
                if la and lb:
                    diff = dict(la[0])
                    for x, c in lb[0].items():
                        diff[x] = diff.get(x, 0) - c
                    k = la[1] - lb[1]
                    neg = {x: -c for x, c in diff.items()}
                    goals = {"Lt": ((diff, k + 1), (neg, -k)), "Le": ((diff, k), (neg, -k + 1)),
                             "Gt": ((neg, -k + 1), (diff, k)), "Ge": ((neg, -k), (diff, k + 1))}
                    if op in goals:
                        gt, gf = goals[op]
                        if self.prove(gt, at, edge):
                            return I(1, 1)
                        if self.prove(gf, at, edge):
                            return I(0, 0)
                    if op in ("Eq", "Ne"):
                        # a != b when a < b or a > b is provable
                        if self.prove((diff, k + 1), at, edge) or self.prove((neg, -k + 1), at, edge):
                            return I(0, 0) if op == "Eq" else I(1, 1)
            return I(0, 1)
        if a[0] == "f" or b[0] == "f" or ty in ("f64", "f32"):
            fa = a if a[0] == "f" else FTOP
            fb = b if b[0] == "f" else FTOP
            r = f_arith(op.replace("WithOverflow", ""), fa, fb)
            if op == "Sub" and t[3][0] == "call" and isinstance(t[3][1], str) and len(t[3][2]) == 1 and strip_site(t[3][2][0]) == strip_site(t[2]):
                # x - round(x) and friends: the distance to the neighbouring integer is exact in floating point and
                # bounded whatever x is (NaN only for a non-finite x)
                from .models import FLOAT_PREFIXES
                short = t[3][1].split("::")[-1]
                if any(t[3][1].startswith(p_) for p_ in FLOAT_PREFIXES) and short in ("round", "floor", "ceil", "trunc", "round_ties_even"):
                    lo_, hi_ = {"round": (-0.5, 0.5), "round_ties_even": (-0.5, 0.5), "floor": (0.0, 1.0), "ceil": (-1.0, 0.0), "trunc": (-1.0, 1.0)}[short]
                    if short == "trunc" and fa[1] >= 0.0:
                        lo_ = 0.0
                    if short == "trunc" and fa[2] <= 0.0:
                        hi_ = 0.0
                    r = ("f", max(lo_, r[1]) if r[0] == "f" else lo_, min(hi_, r[2]) if r[0] == "f" else hi_, fa[3] or math.isinf(fa[1]) or math.isinf(fa[2]))
            return r
        if a[0] != "i" or b[0] != "i":
            return self.top_for(t) if self.ft.tyof(t) else top_of_type(ty, self.facts)
        base = op.replace("WithOverflow", "").replace("Unchecked", "")
        sa, sb_ = ivals(a), ivals(b)
        setres = None
        if sa is not None and sb_ is not None and len(sa) * len(sb_) <= 64 and base in ("Add", "Sub", "Mul"):
            fn = {"Add": lambda x, y: x + y, "Sub": lambda x, y: x - y, "Mul": lambda x, y: x * y}[base]
            setres = frozenset(fn(x, y) for x in sa for y in sb_)
        if base == "Add":
            r = i_add(a, b)
        elif base == "Sub":
            r = i_sub(a, b)
        elif base == "Mul":
            r = i_mul(a, b)
        elif base == "Div":
            r = i_div(a, b)
        elif base == "Rem":
            r = i_rem(a, b)
        elif base == "Shl":
            bits = INT_BITS.get(ty, (64, False))[0]
            if b[1] >= 0 and b[2] < bits and a[1] >= 0:
                r = I(a[1] << b[1], a[2] << b[2])
                tr_ = int_range(ty)
                if tr_ and r[0] == "i" and r[2] > tr_[1] and at is not None:
                    # power-of-two bound: x < (1 << m) is known and the shift k satisfies k + m <= C  =>  x << k < 2^C
                    c_ = self.pow2_bound(t[2], t[3], at, edge)
                    if c_ is not None and c_ < bits:
                        r = I(0, (1 << c_) - 1)
            else:
                r = I(*int_range(ty)) if int_range(ty) else TOP
        elif base == "Shr":
            bits = INT_BITS.get(ty, (64, False))[0]
            if b[1] >= 0 and b[2] < bits and a[1] >= 0:
                r = I(a[1] >> b[2], a[2] >> b[1])
            else:
                r = I(*int_range(ty)) if int_range(ty) else TOP
        elif base == "BitAnd":
            if a[1] >= 0 and b[1] >= 0:
                r = I(0, min(a[2], b[2]))
            elif b[1] >= 0:
                r = I(0, b[2])
            elif a[1] >= 0:
                r = I(0, a[2])
            else:
                r = I(*int_range(ty)) if int_range(ty) else TOP
            if ty == "bool":
                r = I(min(a[1], b[1]) if a[1] == b[1] == 1 else 0, min(a[2], b[2]))
        elif base in ("BitOr", "BitXor"):
            if ty == "bool":
                r = I(max(a[1], b[1]) if base == "BitOr" else 0, max(a[2], b[2]) if base == "BitOr" else 1)
            elif a[1] >= 0 and b[1] >= 0:
                m = max(a[2], b[2])
                r = I(max(a[1], b[1]) if base == "BitOr" else 0, (1 << m.bit_length()) - 1)
            else:
                r = I(*int_range(ty)) if int_range(ty) else TOP
        else:
            r = I(*int_range(ty)) if int_range(ty) else TOP
        if r[0] == "b":
            return BOT
        if setres is not None and r[0] == "i":
            r = I(r[1], r[2], setres)
        if self.final and base == "Add" and r[0] == "i":
            for k_, b_ in self.positional_sums().items():
                if k_[0] == "bin" and k_[2] == t[2] and k_[3] == t[3]:
                    r = meet(r, I(0, b_))
        if op.endswith("WithOverflow"):
            # tuple (wrapped result, overflow flag): only reached through mk_field normally
            return S({"0": fit(r, ty), "1": I(0, 1)})
        return fit(r, ty) if r[0] == "i" else r

    def positional_sums(self):
        """Recognise `acc = acc + d * (1 << (w * i))` accumulated over `for (i, d) in v.iter().enumerate()` (any order,
        each index once): with d <= 2^w - 1 and len(v) <= L the partial sums never exceed 2^(w*L) - 1.
        Returns {term: bound} for the loop-carried accumulator phi and for the addition itself."""
        ps = self.__dict__.get("_possum")
        if ps is not None:
            return ps
        self._possum = {}
        out = {}
        ft = self.ft
        from .query import loops_of
        if not hasattr(self, "_loops"):
            self._loops = loops_of(ft)
        for lp in self._loops:
            if lp.item is None or not lp.next:
                continue
            ad, base = self.iter_chain(lp.item[2])
            if ad is None or "enumerate" not in ad or any(isinstance(a, tuple) for a in ad):
                continue
            bav = self.av(base, None)
            bav = bav[1] if bav[0] == "r" else bav
            if bav[0] != "v" or bav[1][0] != "i" or bav[2][0] != "i" or bav[2][1] < 0:
                continue
            L, dmax = bav[1][2], bav[2][2]
            idx = strip_site(("field", lp.item, 0))
            for phi in list(self.seen_phis):
                if phi[2] != lp.head or (self.ft.tyof(phi) or "") not in INT_BITS:
                    continue
                ops = ft.phi_operands(phi)
                init = [v for p_, v in ops.items() if p_ not in lp.body]
                back = [v for p_, v in ops.items() if p_ in lp.body]
                if len(init) != 1 or len(back) != 1 or const_int(init[0]) != 0:
                    continue
                t = back[0]
                if not (t[0] == "bin" and t[1] in ("Add", "AddWithOverflow") and t[2] == phi):
                    continue
                m = t[3]
                if not (m[0] == "bin" and m[1] in ("Mul", "MulWithOverflow")):
                    continue
                d, pw = m[2], m[3]
                if not (pw[0] == "bin" and pw[1] == "Shl"):
                    d, pw = pw, d
                if not (pw[0] == "bin" and pw[1] == "Shl" and const_int(pw[2]) == 1):
                    continue
                lk = self.linear(pw[3], lp.some_succ)
                if lk is None or lk[1] != 0 or len(lk[0]) != 1 or idx not in lk[0]:
                    continue
                w = lk[0][idx]
                dv = self.av(d, lp.some_succ)
                if w <= 0 or dv[0] != "i" or dv[1] < 0 or dv[2] > (1 << w) - 1 or dv[2] > dmax and False:
                    continue
                if w * L > 200:
                    continue
                bound = (1 << (w * L)) - 1
                out[phi] = bound
                out[t] = bound
        # the same sum accumulated by a hand-written counter that steps by one (`let mut i = n; while i > 0 { i -= 1; .. }`, or
        # counting up): the positions w * (i + c) are distinct because i moves strictly, and lie below w * L when the
        # position's own range says so
        for lp in self._loops:
            if lp.next:
                continue
            for phi in list(self.seen_phis):
                if phi[2] != lp.head or (self.ft.tyof(phi) or "") not in INT_BITS:
                    continue
                ops = ft.phi_operands(phi)
                init = [v for p_, v in ops.items() if p_ not in lp.body]
                back = [v for p_, v in ops.items() if p_ in lp.body]
                if len(init) != 1 or len(back) != 1 or const_int(init[0]) != 0:
                    continue
                t = back[0]
                if not (t[0] == "bin" and t[1] in ("Add", "AddWithOverflow") and t[2] == phi):
                    continue
                m = t[3]
                if not (m[0] == "bin" and m[1] in ("Mul", "MulWithOverflow")):
                    continue
                d, pw = m[2], m[3]
                if not (pw[0] == "bin" and pw[1] == "Shl"):
                    d, pw = pw, d
                if not (pw[0] == "bin" and pw[1] == "Shl" and const_int(pw[2]) == 1):
                    continue
                # evaluated in a block of the loop body (where the guard's facts about the counter hold)
                for b_ in [b2 for b2 in sorted(lp.own) if b2 != lp.head]:
                    lk = self.linear(pw[3], b_)
                    if lk is None or len(lk[0]) != 1:
                        continue
                    cnt, w = list(lk[0].items())[0]
                    if not (isinstance(cnt, tuple) and cnt and cnt[0] == "phi" and cnt[2] == lp.head and cnt != phi and w > 0 and lk[1] % w == 0):
                        continue
                    # the counter moves by exactly one on every way back
                    cops = ft.phi_operands(cnt)
                    cback = [v for p_, v in cops.items() if p_ in lp.body]

                    def step(v, depth=0):
                        if v[0] == "field" and str(v[2]) == "0" and v[1][0] == "bin":
                            v = ("bin", v[1][1].replace("WithOverflow", ""), v[1][2], v[1][3])
                        if v[0] == "bin" and v[1] in ("Add", "Sub") and strip_site(v[2]) == strip_site(cnt) and const_int(v[3]) == 1:
                            return v[1]
                        if v[0] == "phi" and v[1] == ft.path and v[2] in lp.body and v != cnt and depth < 4:
                            ss = {step(o, depth + 1) for o in ft.phi_operands(v).values()}
                            return ss.pop() if len(ss) == 1 else None
                        return None
                    steps = {step(v) for v in cback}
                    if len(steps) != 1 or None in steps:
                        continue
                    ev = self.av(pw[3], b_)
                    dv = self.av(d, b_)
                    if ev[0] != "i" or ev[1] < 0 or dv[0] != "i" or dv[1] < 0 or dv[2] > (1 << w) - 1:
                        continue
                    top = ev[2] + w                       # positions lie in [0, ev.hi], so the sum is below 2^(ev.hi + w)
                    if top > 200:
                        continue
                    out[phi] = (1 << top) - 1
                    out[t] = (1 << top) - 1
                    break
        self._possum = out
        return out

    def pow2_bound(self, x, k, at, edge):
        """smallest C such that the facts give x < 2^m for some m with k + m <= C (as linear forms), else None"""
        ax = self.atom(x, at)
        lk = self.linear(k, at)
        if lk is None:
            return None
        best = None
        for co, c0 in self.facts_at(at, edge):
            if co.get(ax) != 1 or len(co) != 2 or c0 < 1:
                continue
            other = [a for a in co if a != ax]
            p = other[0]
            if co[p] != -1 or not (isinstance(p, tuple) and p and p[0] == "bin" and p[1] in ("Shl", "ShlUnchecked") and const_int(p[2]) == 1):
                continue
            po = self.__dict__.get("atom_orig", {}).get(p, p)
            lm = self.linear(po[3], at)
            if lm is None:
                continue
            # k + m as a linear form must be a constant
            tot = dict(lk[0])
            for a_, c_ in lm[0].items():
                tot[a_] = tot.get(a_, 0) + c_
            tot = {a_: c_ for a_, c_ in tot.items() if c_}
            if tot:
                continue
            C = lk[1] + lm[1]
            if C >= 0 and (best is None or C < best):
                best = C
        return best

    def av_cast(self, t, at, edge):
        kind, to = t[1], t[3]
        a = self.av(t[2], at, edge)
        if a[0] == "b":
            return BOT
        if kind == "IntToInt":
            if a[0] == "i":
                return fit(a, to)
            return top_of_type(to, self.facts)
        if kind == "FloatToInt":
            r = int_range(to)
            if a[0] == "f" and r:
                lo = r[0] if (a[1] == -math.inf or a[1] < r[0]) else int(math.floor(a[1])) if a[1] < 0 else int(math.floor(a[1]))
                hi = r[1] if (a[2] == math.inf or a[2] > r[1]) else int(math.ceil(a[2]))
                lo = max(lo, r[0])
                hi = min(hi, r[1])
                if a[3]:
                    lo, hi = min(lo, 0), max(hi, 0)
                return I(lo, hi)
            return top_of_type(to, self.facts)
        if kind == "IntToFloat":
            if a[0] == "i":
                return F(float(a[1]) if abs(a[1]) < 2 ** 1000 else -math.inf, float(a[2]) if abs(a[2]) < 2 ** 1000 else math.inf, False)
            return FTOP
        if kind == "FloatToFloat":
            return a if a[0] == "f" else FTOP
        if kind in ("PointerCoercion", "PtrToPtr", "Transmute", "Subtype"):
            if kind == "PointerCoercion":
                return a
            return top_of_type(to, self.facts)
        return top_of_type(to, self.facts)

    # ------------------------------------------------------------------ iterator items
    def av_payload(self, t, at, edge):
        var, x = t[1], t[2]
        if x[0] == "call" and isinstance(x[1], str) and x[1].endswith("::next") and var == "Some":
            return self.iter_item(x, at, edge)[0]
        a = self.av(x, at, edge)
        if a[0] == "e":
            for n, v in a[1]:
                if n == var:
                    f0 = sget(v, "0")
                    return f0 if f0 is not None else self.top_for(t)
            return BOT if a[1] else self.top_for(t)
        if a[0] == "b":
            return BOT
        return self.top_for(t)

    def iter_chain(self, next_call):
        """(adaptors outermost-first, base term) of the iterator driving a `next` call"""
        src = iter_source(self.ft, next_call[2][0])
        ad = []
        if src is None:
            return None, None
        x = peel(src)
        for _ in range(10):
            if x[0] == "call" and isinstance(x[1], str) and x[2]:
                n = x[1]
                short = n.split("::")[-1]
                if short == "take" and len(x[2]) == 2:
                    ad.append(("take", x[2][1]))
                    x = peel(x[2][0])
                    continue
                if short in ("into_iter", "iter", "iter_mut", "enumerate", "rev", "copied", "cloned", "by_ref"):
                    ad.append(short)
                    x = peel(x[2][0]) if short not in ("iter", "iter_mut") else x[2][0]
                    if short in ("iter", "iter_mut"):
                        ad.append("byref")
                        x = peel(x)
                    continue
            break
        return ad, x

    def iter_item(self, next_call, at, edge):
        """(abstract value of the item, facts about it) for `Some(item) = it.next()`"""
        src0 = iter_source(self.ft, next_call[2][0])
        if src0 is not None:
            z = peel(src0)
            while z[0] == "call" and isinstance(z[1], str) and z[2] and z[1].split("::")[-1] in ("into_iter", "by_ref"):
                z = peel(z[2][0])
            if z[0] == "call" and isinstance(z[1], str) and z[1].endswith("::zip") and len(z[2]) == 2:
                # a.zip(b): pairs of the two item streams
                ity = self.ft.tyof(("payload", "Some", next_call)) or ""
                parts = split_generics("T<" + ity[1:-1] + ">")[1] if ity.startswith("(") and ity.endswith(")") else [None, None]
                comp = []
                for k_, sub in enumerate(z[2]):
                    fake = ("call", next_call[1], (sub,), None)
                    v_ = self._item_from_source(sub, parts[k_] if k_ < len(parts) else None)
                    comp.append(v_)
                return S({"0": comp[0], "1": comp[1]}), []
        ad, base = self.iter_chain(next_call)
        top = top_of_type(self.ft.tyof(("payload", "Some", next_call)), self.facts)
        if ad is None:
            return top, []
        inst = ""
        site = next_call[3][1] if len(next_call) > 3 and next_call[3] else None
        for c in self.ft.calls():
            if c.block == site:
                inst = c.inst or ""
        item_ty = self.ft.tyof(("payload", "Some", next_call))
        if base[0] == "agg" and base[2].startswith("std::ops::Range::"):
            lo, hi = self.av(base[3][0], None), self.av(base[3][1], None)
            if lo[0] == "i" and hi[0] == "i":
                v = I(lo[1], hi[2] - 1)
                if v[0] == "b":
                    v = BOT
            else:
                v = top
            if "enumerate" in ad:
                return S({"0": I(0, MAXLEN), "1": v}), []
            return v, []
        # collection
        bav = self.av(base, None)
        if bav[0] == "r":
            bav = bav[1]
        if bav[0] == "b":
            return BOT, []       # the collection has no value yet in this fixpoint round: neither has its item
        if bav[0] == "s" and sget(bav, "start") is not None and sget(bav, "end") is not None:
            # a Range value that is not a literal here (chosen by an if / match): items lie in start..end
            lo_, hi_ = sget(bav, "start"), sget(bav, "end")
            if lo_[0] == "i" and hi_[0] == "i":
                v_ = I(lo_[1], hi_[2] - 1)
                if "enumerate" in ad:
                    return S({"0": I(0, MAXLEN), "1": v_}), []
                return v_, []
        elem = bav[2] if bav[0] == "v" else TOP
        byref = "byref" in ad or (item_ty or "").startswith("&") or (item_ty or "").startswith("(usize, &")
        if "copied" in ad or "cloned" in ad:
            byref = False
        if base[0] == "ref" or (self.ft.tyof(base) or "").startswith("&"):
            byref = byref or not ("copied" in ad or "cloned" in ad)
        ev = R(elem) if byref else elem
        if elem[0] == "t":
            # fall back to the declared item type
            ev = None
        if "enumerate" in ad:
            ln = bav[1] if bav[0] == "v" else I(0, MAXLEN)
            idx = I(0, max(ln[2] - 1, 0)) if ln[0] == "i" else I(0, MAXLEN)
            for a_ in ad:
                if isinstance(a_, tuple) and a_[0] == "take" and ad.index(a_) < ad.index("enumerate"):
                    tk = self.av(a_[1], None)
                    if tk[0] == "i":
                        idx = I(0, max(0, min(idx[2], tk[2] - 1)))
            second = ev if ev is not None else (sget(top, "1") or TOP)
            return S({"0": idx, "1": second}), []
        return (ev if ev is not None else top), []

    def _item_from_source(self, src, item_ty):
        """item value of a plain iterator expression (range or collection through iter/into_iter/copied/rev), by its
        declared item type when nothing better is known"""
        top = top_of_type(item_ty, self.facts) if item_ty else TOP
        x = peel(src)
        byref = False
        copied = False
        for _ in range(10):
            if x[0] == "call" and isinstance(x[1], str) and x[2]:
                short = x[1].split("::")[-1]
                if short in ("into_iter", "rev", "by_ref"):
                    x = peel(x[2][0])
                    continue
                if short in ("iter", "iter_mut"):
                    byref = True
                    x = peel(x[2][0])
                    continue
                if short in ("copied", "cloned"):
                    copied = True
                    x = peel(x[2][0])
                    continue
            break
        if x[0] == "agg" and x[2].startswith("std::ops::Range::") and len(x[3]) == 2:
            lo, hi = self.av(x[3][0], None), self.av(x[3][1], None)
            if lo[0] == "i" and hi[0] == "i":
                return I(lo[1], hi[2] - 1)
            return top
        bav = self.av(x, None)
        if bav[0] == "r":
            bav = bav[1]
            byref = True
        if bav[0] == "b":
            return BOT
        if bav[0] != "v" or bav[2][0] == "t":
            return top
        if (item_ty or "").startswith("&"):
            byref = True
        return R(bav[2]) if (byref and not copied) else bav[2]

    def item_facts(self, at):
        """relational facts about loop items visible at block `at`: for `for x in a..b`: a <= x < b; for enumerate: idx < len"""
        out = []
        ft = self.ft
        from .query import loops_of
        if not hasattr(self, "_loops"):
            self._loops = loops_of(ft)
        for lp in self._loops:
            if at not in lp.body or lp.item is None or lp.some_succ is None or getattr(lp, "counter", False) or not lp.next:
                continue      # hand-written counters get their facts from the loop guard and the counter lemma
            if not ft.cfg.dominates(lp.some_succ, at):
                continue
            nc = lp.item[2]
            ad, base = self.iter_chain(nc)
            if ad is None:
                continue
            item = strip_site(lp.item)
            site = lp.next[0].block
            if base[0] == "agg" and base[2].startswith("std::ops::Range::") and "enumerate" not in ad:
                la, lb = self.linear(base[3][0], None), self.linear(base[3][1], None)
                # the bounds are evaluated before the loop: atoms in them must be loop-invariant (defined outside)
                # (a length atom carries the version of the vector it was read from: a later resize gives a different atom)
                if la and lb and (self.invariant(base, lp) or all(
                        (isinstance(x_, tuple) and x_ and x_[0] == "L") or self.invariant(x_, lp) for x_ in list(la[0]) + list(lb[0]))):
                    co = {item: -1}
                    for x, c in la[0].items():
                        co[x] = co.get(x, 0) + c
                    out.append((co, la[1]))           # a - x <= 0
                    co = {item: 1}
                    for x, c in lb[0].items():
                        co[x] = co.get(x, 0) - c
                    out.append((co, 1 - lb[1]))       # x - b + 1 <= 0
            elif "enumerate" in ad:
                idx = strip_site(("field", lp.item, 0))
                pre = self.preheader(lp)
                la = self.len_atom(base if base[0] in ("ref", "param") else ("ref", False, base, ref_key(("ref", False, base, "")) or ""), pre) if pre is not None else None
                if base[0] == "param" or (base[0] == "deref" and base[1][0] == "param"):
                    p = base if base[0] == "param" else base[1]
                    la = ("L", "param", p[1])
                else:
                    rk_ = self.root_key(base)
                    if isinstance(rk_, tuple) and rk_ and rk_[0] == "param":
                        la = ("L",) + rk_        # a collection built element-wise from a parameter slice
                if la is not None:
                    out.append(({idx: 1, la: -1}, 1))   # idx + 1 - len <= 0
                    out.append(({idx: -1}, 0))
        return out

    def preheader(self, lp):
        ps = [p for p in self.ft.cfg.pred[lp.head] if p not in lp.body]
        return ps[0] if len(ps) == 1 else None

    def invariant(self, t, lp):
        for x in walk(t):
            if x[0] == "phi" and x[2] in lp.body:
                return False
            if x[0] == "call" and len(x) > 3 and x[3] and x[3][1] in lp.body:
                return False
            if x[0] == "escaped":
                return False
        return True

    # ------------------------------------------------------------------ proving linear goals
    def prove(self, goal, at, edge=None):
        """goal = (coef dict, const): prove sum + const <= 0 at block `at`"""
        co, k = goal
        co = {a: c for a, c in co.items() if c}
        if not co:
            return k <= 0
        # 1. intervals
        hi = k
        ok = True
        for a, c in co.items():
            r = self.atom_range_refined(a, at, edge)
            if r is None:
                ok = False
                break
            hi += max(c * r[0], c * r[1])
        if ok and hi <= 0:
            return True
        if at is None:
            return False
        # 2. Fourier-Motzkin with the facts that share atoms (transitively)
        fs = list(self.facts_at(at, edge)) + self.item_facts(at) + self.len_lemmas(at)
        rel = []
        atoms = set(co)
        changed = True
        used = set()
        while changed:
            changed = False
            for i, (fc, fk) in enumerate(fs):
                if i in used:
                    continue
                if atoms & set(fc):
                    used.add(i)
                    rel.append((fc, fk))
                    if not set(fc) <= atoms:
                        atoms |= set(fc)
                        changed = True
        cons = list(rel)
        for a in list(atoms):
            # x % n < n and x % n <= x for unsigned operands (n = 0 is a separate obligation)
            if isinstance(a, tuple) and a and a[0] == "bin" and a[1] == "Rem":
                ln = self.linear(a[3], at)
                xa = self._av_nofacts(a[2])
                if ln is not None and xa[0] == "i" and xa[1] >= 0:
                    co = {a: 1}
                    for x_, c_ in ln[0].items():
                        co[x_] = co.get(x_, 0) - c_
                        atoms.add(x_)
                    cons.append((co, 1 - ln[1]))
                    cons.append(({a: -1}, 0))
        for a in atoms:
            r = self.atom_range(a, at)
            if r is not None:
                cons.append(({a: 1}, -r[1]))
                cons.append(({a: -1}, r[0]))
        # negated goal: sum + k >= 1
        cons.append(({a: -c for a, c in co.items()}, 1 - k))
        if len(atoms) > 14:
            return False
        return fm_infeasible(cons)

    def len_atom_range(self, a):
        v = None
        try:
            if a[1] == "callref":
                v = self._av_nofacts(a[2])
            elif a[1] == "param" and len(a) == 3:
                v = self.args[a[2] - 1] if a[2] - 1 < len(self.args) else None
            elif a[1] == "param" and len(a) == 4:
                base = self.args[a[2] - 1] if a[2] - 1 < len(self.args) else None
                if base is not None:
                    base = base[1] if base[0] == "r" else base
                    v = sget(base, a[3]) if base[0] == "s" else None
            elif isinstance(a[1], str) and a[1].startswith("_") and a[1][1:].isdigit():
                v = self.vec_local_av(int(a[1][1:]), None)
        except Exception:
            v = None
        if v is not None:
            v = v[1] if v[0] == "r" else v
            if v[0] == "v" and v[1][0] == "i":
                return (max(0, v[1][1]), min(MAXLEN, v[1][2]))
        return (0, MAXLEN)

    def atom_range_refined(self, a, at, edge):
        if a and a[0] == "L":
            return self.len_atom_range(a)
        try:
            v = self.av(a, at, edge) if isinstance(a, tuple) else None
        except Exception:
            v = None
        if v is not None and v[0] == "i":
            return (v[1], v[2])
        return self.atom_range(a, at)

    def len_lemmas(self, at):
        """facts about length atoms: exact lengths of vectors whose construction is visible"""
        if not hasattr(self, "_lemmas"):
            self._after_loop = {}
            self._lemmas = self._compute_len_lemmas()
        out = list(self._lemmas)
        for atom1, (lp, src) in getattr(self, "_after_loop", {}).items():
            # every way out of the filling loop other than exhaustion leaves the function, so a block outside the loop
            # that the loop head dominates is reached only after one push per element
            if lp.done_succ is not None and at not in lp.body and self.ft.cfg.dominates(lp.done_succ, at) \
                    and len([p_ for p_ in self.ft.cfg.pred[lp.done_succ] if p_ in self.ft.cfg.reach]) == 1:
                out.append(({src: 1, atom1: -1}, 0))
            elif lp.done_succ is not None and at not in lp.body and self.ft.cfg.dominates(lp.head, at) \
                    and len([p_ for p_ in self.ft.cfg.pred[lp.done_succ] if p_ in self.ft.cfg.reach]) == 1:
                # the early ways out join the normal one before a test of the result's variant (a spliced helper followed
                # by `?`): they count as leaving when, followed with that test taken into account, they never get here
                from .terms import reachable_threaded
                key_ = ("early", id(lp), at)
                hit_ = self.memo.get(key_)
                if hit_ is None:
                    early = [(b_, s_) for b_, s_ in lp.exits if s_ != lp.done_succ and self.ft.blocks[s_]["term"]["k"] != "unreachable" and not self.ft.blocks[s_].get("cleanup")]
                    hit_ = (lp, all(at not in reachable_threaded(self.ft, b_, s_) for b_, s_ in early))
                    self.memo[key_] = hit_
                if hit_[1]:
                    out.append(({src: 1, atom1: -1}, 0))
        return out

    def _compute_len_lemmas(self):
        out = []
        ft = self.ft
        from .query import loops_of, every_iteration
        if not hasattr(self, "_loops"):
            self._loops = loops_of(ft)
        for local, decl in enumerate(self.fn["locals"]):
            if not decl["ty"].startswith("std::vec::Vec<"):
                continue
            key = "_%d" % local
            creators = []
            for b in sorted(ft.cfg.reach):
                for pos in ft._defs[b].get(local, []):
                    kind = ft._kinds[(b, pos, local)]
                    if kind[0] in ("assign", "call") and not (kind[0] == "assign" and kind[1]["place"]["proj"]):
                        creators.append((b, pos))
            if len(creators) != 1:
                continue
            cb, cpos = creators[0]
            ct = ft.def_term(cb, cpos, local)
            muts = [c for c in direct_mutators(ft, key) if not any((c.callee or "").endswith(s_) for s_ in LEN_PRESERVING)]
            atom0 = ("L", key, ("ev", cb, cpos))
            if not muts:
                # length fixed at creation
                if ct[0] == "call" and isinstance(ct[1], str) and ct[1].endswith("vec::from_elem") and len(ct[2]) == 2:
                    ln = self.linear(ct[2][1], cb)
                    if ln is not None and not any(isinstance(a, tuple) and a and a[0] == "phi" for a in ln[0]):
                        co = {atom0: 1}
                        for a, c_ in ln[0].items():
                            co[a] = co.get(a, 0) - c_
                        out.append((co, -ln[1]))
                        out.append(({a: -c_ for a, c_ in co.items()}, ln[1]))
                elif ct[0] == "agg" and ct[1] == "vec":
                    out.append(({atom0: 1}, -len(ct[3])))
                    out.append(({atom0: -1}, len(ct[3])))
                elif ct[0] == "param":
                    # a vector parameter moved into a local and never resized there keeps the parameter's length
                    pl_ = ("L", "param", ct[1])
                    out.append(({atom0: 1, pl_: -1}, 0))
                    out.append(({atom0: -1, pl_: 1}, 0))
                continue
            # one push per iteration of a loop over a collection with a length atom
            if len(muts) == 1 and (muts[0].callee or "").endswith("Vec::push"):
                c = muts[0]
                cav = self.av(ct, cb)
                if not (cav[0] == "v" and cav[1][0] == "i" and cav[1][1] == cav[1][2] == 0):
                    continue
                lps = [lp for lp in self._loops if c.block in lp.own and lp.next and cb not in lp.body]
                outer = [lp for lp in self._loops if c.block in lp.body and cb not in lp.body]
                if len(lps) != 1 or len(outer) != 1:
                    continue
                lp = lps[0]
                if not every_iteration(ft, lp, c.block):
                    continue
                ad, base = self.iter_chain(lp.item[2])
                if ad is None or any(isinstance(a, tuple) for a in ad):
                    continue
                src = None
                if base[0] == "param" or (base[0] == "deref" and base[1][0] == "param"):
                    pr = base if base[0] == "param" else base[1]
                    src = ("L", "param", pr[1])
                else:
                    rk = self.root_key(base)
                    if isinstance(rk, tuple) and rk and rk[0] == "param" and len(rk) == 2:
                        src = ("L", "param", rk[1])      # a collection built element-wise from a parameter slice
                if src is None:
                    continue
                # the version of the vector seen after the loop: a join marker at the loop head
                ver = ("join", lp.head)
                atom1 = ("L", key, ver)
                out.append(({atom1: 1, src: -1}, 0))     # len <= len(src) at any time
                # after the loop has finished the lengths are equal: stated for uses that the loop exit dominates
                self._after_loop[atom1] = (lp, src)
        return out

    # ------------------------------------------------------------------ vectors built by pushes
    def trip_count(self, lp):
        """interval of the number of iterations of a loop driven by Iterator::next (or a hand-written +1 counter)"""
        if lp.item is None:
            return (0, MAXLEN)
        if getattr(lp, "counter", False):
            src = lp.source
            if src is not None and src[0] == "agg" and len(src[3]) == 2:
                lo, hi = self.av(src[3][0], None), self.av(src[3][1], None)
                lh = self.linear(src[3][1], None)
                const_bound = lh is not None and not lh[0]
                if const_bound:
                    hi = I(lh[1], lh[1])              # e.g. the length of a fixed-size array
                if lo[0] == "i" and hi[0] == "i" and (const_bound or self.invariant(src[3][1], lp)):
                    return (max(0, hi[1] - lo[2]), max(0, hi[2] - lo[1]))
            return (0, MAXLEN)
        ad, base = self.iter_chain(lp.item[2])
        if ad is None:
            return (0, MAXLEN)
        if base[0] == "agg" and base[2].startswith("std::ops::Range::"):
            lo, hi = self.av(base[3][0], None), self.av(base[3][1], None)
            if lo[0] == "i" and hi[0] == "i":
                return (max(0, hi[1] - lo[2]), max(0, hi[2] - lo[1]))
            return (0, MAXLEN)
        bav = self.av(base, None)
        if bav[0] == "r":
            bav = bav[1]
        if bav[0] == "v" and bav[1][0] == "i":
            return (bav[1][1], bav[1][2])
        return (0, MAXLEN)

    def vec_summary(self, local):
        """(len interval after all pushes, len lower bound at any time, elem av, mutation blocks) for a Vec local that
        is created once and then only grown by push; None when the shape is not recognised"""
        if not hasattr(self, "_vsum"):
            self._vsum = {}
        if local in self._vsum:
            return self._vsum[local]
        self._vsum[local] = None
        ft = self.ft
        from .query import loops_of, every_iteration
        key = "_%d" % local
        if not hasattr(self, "_loops"):
            self._loops = loops_of(ft)
        allm = direct_mutators(ft, key)
        muts = [c for c in allm if not any((c.callee or "").endswith(s_) for s_ in LEN_PRESERVING)]
        if not allm:
            return None
        if not all((c.callee or "").endswith("Vec::push") for c in muts):
            self._vsum[local] = None
            return None
        # creators: whole-local definitions
        creators = []
        for b in sorted(ft.cfg.reach):
            for pos in ft._defs[b].get(local, []):
                kind = ft._kinds[(b, pos, local)]
                if kind[0] in ("assign", "call") and not (kind[0] == "assign" and kind[1]["place"]["proj"]):
                    creators.append((b, pos))
        if len(creators) != 1:
            return None
        cb, cpos = creators[0]
        cav = self.av(ft.def_term(cb, cpos, local), cb)
        if cav[0] != "v" or cav[1][0] != "i":
            return None
        lo, hi = cav[1][1], cav[1][2]
        elem = cav[2] if cav[1][2] > 0 else BOT
        blocks = set()
        for c in muts:
            blocks.add(c.block)
            nlo, nhi = 1, 1
            for lp in self._loops:
                if c.block in lp.body and cb not in lp.body:
                    cnt_ = lp.next or getattr(lp, "counter", False)
                    tl, th = self.trip_count(lp) if cnt_ else (0, MAXLEN)
                    ev = every_iteration(ft, lp, c.block) if cnt_ and c.block in lp.own else False
                    # an early exit of the loop (break / return) lowers the count but never raises it
                    exits = [(x, y) for x, y in lp.exits if x != lp.item_switch and ft.blocks[y]["term"]["k"] != "unreachable"]
                    leaves_fn = all(not ft.cfg.can_reach(y, lp.head) and self._exit_leaves(y, cb, local) for x, y in exits)
                    nlo = nlo * tl if (ev and (not exits or leaves_fn)) else 0
                    nhi = nhi * th
            lo += nlo
            hi = min(MAXLEN, hi + nhi)
            elem = join(elem, self.av(c.args[1], c.block))
        # element values written in place: stores through index_mut in this function, stores done by local callees
        # that receive the vector (or a slice of it) mutably, anything else unknown
        ety = top_of_type(self.fn["locals"][local]["ty"], self.facts)
        ety = ety[2] if ety[0] == "v" else TOP
        for c in allm:
            if c in muts:
                continue
            name = c.callee or ""
            if name.endswith("IndexMut<I>>::index_mut"):
                # find the store through the returned pointer
                stored = None
                for (sb, spos, pl, rv) in ft.stores:
                    if rv is None:
                        continue
                    ptr = ft.local_at(pl["local"], sb, spos)
                    if ptr[0] == "call" and len(ptr) > 3 and ptr[3] == (ft.path, c.block):
                        v = self.av(ft.rvalue(rv, sb, spos), sb)
                        stored = v if stored is None else join(stored, v)
                elem = join(elem, stored if stored is not None else ety)
            elif any(name.endswith(s_) for s_ in ("::deref_mut", "::as_mut_slice", "::iter_mut")):
                # the slice flows on: look at what the users of that slice do (local callees only)
                elem = join(elem, self._slice_user_stores(c, ety))
            elif any(name.endswith(s_) for s_ in ("::reverse", "::sort", "::sort_unstable", "::sort_by", "::swap", "::sort_by_key", "::sort_unstable_by")):
                pass
            elif name in self.facts.fns:
                elem = join(elem, self._callee_stores(name, c, key, ety))
            else:
                elem = join(elem, ety)
        res = ((lo, hi), cav[1][1], elem if elem[0] != "b" else TOP, blocks)
        self._vsum[local] = res
        return res

    def _slice_user_stores(self, c, ety):
        """join of values stored by local callees that receive the slice produced at call site c"""
        ft = self.ft
        out = BOT
        found = False
        for c2 in ft.calls():
            for ai, a in enumerate(c2.args):
                hit = any(x[0] == "call" and len(x) > 3 and x[3] == (ft.path, c.block) for x in walk(a))
                if not hit:
                    continue
                if _pointer_free(ft.tyof(a) or "?"):
                    continue      # a value computed from the slice (an element, its length, a range over its indices) gives the callee no way to write it
                found = True
                if c2.callee in self.facts.fns:
                    out = join(out, self._callee_param_stores(c2, ai, ety))
                elif c2.callee and any(c2.callee.endswith(s_) for s_ in ("::reverse", "::sort", "::sort_unstable", "::sort_by", "::swap", "::len")):
                    pass
                else:
                    out = join(out, ety)
        # direct stores through the slice pointer in this function
        for (sb, spos, pl, rv) in ft.stores:
            if rv is None:
                continue
            ptr = ft.local_at(pl["local"], sb, spos)
            if any(x[0] == "call" and len(x) > 3 and x[3] == (ft.path, c.block) for x in walk(ptr)):
                found = True
                out = join(out, self.av(ft.rvalue(rv, sb, spos), sb))
        return out if found else BOT

    def _callee_stores(self, name, c, key, ety):
        out = BOT
        for ai, a in enumerate(c.args):
            if any(x[0] == "ref" and x[1] in (True, "raw") and x[3] == key for x in walk(a)):
                out = join(out, self._callee_param_stores(c, ai, ety))
        return out

    def _callee_param_stores(self, c2, ai, ety):
        """values the local callee of call site c2 stores through its parameter number ai (any context of it analysed so far)"""
        out = BOT
        seen = False
        # make sure the callee has been analysed for this call site
        try:
            cargs = tuple(self.av(a, c2.block) for a in c2.args)
            f = self.facts.fns[c2.callee]
            if f["kind"] in ("Fn", "AssocFn") and len(cargs) == f["arg_count"] and not any(a[0] == "b" for a in cargs):
                self.eng.summary(c2.callee, cargs, caller=(self.path, self.args, c2.block))
        except RecursionError:
            pass
        for key_, cc in list(self.eng.ctxs.items()):
            if len(key_) != 2:
                continue
            path, args = key_
            if path != c2.callee or not cc.solved:
                continue
            if (self.path, self.args, c2.block) not in self.eng.callers.get((path, args), ()):
                continue
            seen = True
            cft = cc.ft
            for (sb, spos, pl, rv) in cft.stores:
                root = cft.local_at(pl["local"], sb, spos)
                if not any(x == ("param", ai + 1) for x in walk(root)) and pl["local"] != ai + 1:
                    continue
                if rv is None:
                    out = join(out, ety)
                else:
                    out = join(out, cc.av(cft.rvalue(rv, sb, spos), sb))
            # the callee may pass the pointer on
            for c3 in cft.calls():
                if c3.callee and not any(c3.callee.endswith(s_) for s_ in LEN_PRESERVING) and any(("param", ai + 1) in list(walk(a)) for a in c3.args):
                    if c3.callee in self.facts.fns:
                        out = join(out, ety)
        return out if seen else ety

    def _exit_leaves(self, y, cb, local=None):
        """does the loop exit through block y leave the function with an error (never reaching a normal use)?"""
        reach = self.ft.cfg.reachable_from(y)
        if local is not None:
            # nothing on the way out looks at the vector again (it is only dropped): an explicit `return Err(..)` as well as `?`
            def mentions(o):
                if isinstance(o, dict):
                    if o.get("local") == local and "proj" in o:
                        return True
                    return any(mentions(v) for v in o.values())
                if isinstance(o, list):
                    return any(mentions(v) for v in o)
                return False
            used = False
            for b in reach:
                blk = self.ft.blocks[b]
                if any(st["k"] == "assign" and (mentions(st["rv"]) or mentions(st["place"])) for st in blk["stmts"]):
                    used = True
                t = blk["term"]
                if t["k"] != "drop" and mentions({k_: v_ for k_, v_ in t.items() if k_ != "span"}):
                    used = True
            if not used:
                return True
        # conservative: the exit path must not reach any block that is not on a path to a return through from_residual
        for b in reach:
            t = self.ft.blocks[b]["term"]
            if t["k"] == "call" and t["func"].get("k") == "fn":
                n = t["func"].get("resolved") or t["func"]["path"]
                if "from_residual" in n:
                    return True
        return False

    def vec_local_av(self, local, at):
        vs = self.vec_summary(local)
        if vs is None:
            return None
        (lo, hi), lo0, elem, blocks = vs
        if at is not None and not any(self.ft.cfg.can_reach(at, b) for b in blocks) and at not in blocks:
            return V(I(lo, hi), elem, None)
        return V(I(lo0, hi), elem, None)

    # ------------------------------------------------------------------ calls
    def av_call(self, t, at, edge):
        from .models import call_model
        return call_model(self, t, at, edge)

    # ------------------------------------------------------------------ obligations
    def note_callee(self, path, args):
        self.pending.add((path, args))

    def check_obligations(self):
        """obligations of this context (list of Oblig); callee contexts seen on the way are collected in self.pending"""
        if self.obs is not None:
            return self.obs
        self.obs = []
        self.checking = True
        # callee contexts noted while the fixpoint was still moving (arguments not yet refined) are not calls this context
        # makes in its final state: start over, with nothing cached, so that every live call notes its final context
        self.pending = set()
        self.memo = {}
        # evaluate every live call in the final state so that callees become live contexts
        for b in sorted(self.ft.cfg.reach):
            t = self.ft.blocks[b]["term"]
            if t["k"] == "call" and self.block_live(b):
                self.av(self.ft.call_term(t, b), b)
        from .obligations import check_fn
        check_fn(self)
        self.checking = False
        return self.obs
