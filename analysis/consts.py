"""Compiler-evaluated constant values -> plain Python values."""
import struct


def f64_of_bits(hexbits):
    return struct.unpack(">d", bytes.fromhex(hexbits))[0]


def pyval(v):
    """nested Python value: ints, floats, bools, lists, dicts (struct fields), enum variant names"""
    k = v.get("k")
    if k in ("int", "char", "bits"):
        return int(v["v"])
    if k == "bool":
        return bool(v["v"])
    if k == "float":
        return f64_of_bits(v["bits"])
    if k == "str":
        return v["v"]
    if k in ("array", "tuple", "slice"):
        return [pyval(x) for x in v["v"]]
    if k == "struct":
        fs = {n: pyval(x) for n, x in v["fields"].items()}
        if len(fs) == 1:  # newtype wrappers (Radians(f64), KJ(Vec2)) are transparent
            return next(iter(fs.values()))
        return fs
    if k == "enum":
        return v["variant"]
    if k == "ref":
        return pyval(v["v"])
    return {"opaque": k}


def flatten(x, prefix=""):
    """[(path, leaf)] for nested lists/dicts"""
    if isinstance(x, list):
        out = []
        for i, y in enumerate(x):
            out += flatten(y, "%s[%d]" % (prefix, i))
        return out
    if isinstance(x, dict):
        out = []
        for k in sorted(x):
            out += flatten(x[k], "%s.%s" % (prefix, k))
        return out
    return [(prefix, x)]


def const_py(facts, path):
    c = facts.consts.get(path)
    if c is None:
        return None
    return pyval(c["value"])
