"""Resolved call graph over the driver facts (local functions, closures, once-cell initialisers)."""
from .facts import strip_generics


def local_callees(facts, path):
    """local function paths called (or referenced as fn items / closures) from `path`"""
    f = facts.fns[path]
    out = set()

    def visit_op(o):
        if not isinstance(o, dict):
            return
        if o.get("k") == "fn":
            p = o.get("resolved") or o["path"]
            if p in facts.fns:
                out.add(p)
        v = o.get("value")
        if isinstance(v, dict):
            visit_op(v)
        for k in ("op", "a", "b"):
            if k in o:
                visit_op(o[k])
        for k in ("ops", "args"):
            if k in o:
                for x in o[k]:
                    visit_op(x)

    for b in f["blocks"]:
        if b["cleanup"]:
            continue
        for st in b["stmts"]:
            if st["k"] == "assign":
                rv = st["rv"]
                visit_op(rv)
                if rv["k"] == "aggregate" and rv.get("agg") == "closure" and rv["closure"] in facts.fns:
                    out.add(rv["closure"])
        t = b["term"]
        if t["k"] == "call":
            visit_op(t["func"])
            for a in t["args"]:
                visit_op(a)
    for p in f.get("promoted", []):
        pass
    return out


# statics whose first access runs an initialiser: static path -> initialiser fn paths
def lazy_initialisers(facts):
    out = {}
    for sp, s in facts.statics.items():
        inits = set()
        short = sp.split("::")[-1]
        # lazy_static!: the marker static NAME has a Deref impl with __static_ref_initialize
        for p in facts.fns:
            if "__static_ref_initialize" in p and ("::%s as " % short) in p and facts.fns[p]["kind"] == "Fn":
                inits.add(p)
        # LazyLock::new(f) / thread_local initialiser: fn items referenced from the static's initialiser body
        if sp in facts.fns:
            inits |= {c for c in local_callees(facts, sp)}
        out[sp] = inits
    return out


def static_refs(facts, path):
    """statics referenced (by address) from `path`"""
    f = facts.fns[path]
    out = set()

    def visit(o):
        if isinstance(o, dict):
            if o.get("k") == "static_ref":
                out.add(o["path"])
            if o.get("k") == "tls_ref":
                out.add(o["path"])
            for v in o.values():
                visit(v)
        elif isinstance(o, list):
            for v in o:
                visit(v)
    for b in f["blocks"]:
        if not b["cleanup"]:
            visit(b["stmts"])
            visit(b["term"])
    for p in f.get("promoted", []):
        for b in p["blocks"]:
            visit(b["stmts"])
    return out


class CallGraph:
    def __init__(self, facts):
        self.facts = facts
        self.edges = {}
        self.inits = lazy_initialisers(facts)
        for p, f in facts.fns.items():
            if f["kind"] in ("Fn", "AssocFn", "Closure", "StaticInit"):
                e = set(local_callees(facts, p))
                # touching a lazily initialised static may run its initialiser
                for s in static_refs(facts, p):
                    e |= self.inits.get(s, set())
                    if s in facts.fns:
                        e.add(s)
                self.edges[p] = e
        # OnceLock::get_or_init(f): f is passed as fn item -> already an edge via visit_op

    def reachable(self, roots):
        seen = set()
        st = list(roots)
        while st:
            p = st.pop()
            if p in seen or p not in self.edges:
                continue
            seen.add(p)
            st.extend(self.edges[p])
        return seen

    def callers(self, path):
        return {p for p, e in self.edges.items() if path in e}


API = ["a5::core::cell::lonlat_to_cell", "a5::core::cell::cell_to_lonlat", "a5::core::cell::cell_to_boundary",
       "a5::core::hex::hex_to_u64", "a5::core::hex::u64_to_hex", "a5::core::cell_info::cell_area",
       "a5::core::cell_info::get_num_cells", "a5::core::serialization::cell_to_children",
       "a5::core::serialization::cell_to_parent", "a5::core::serialization::get_res0_cells",
       "a5::core::serialization::get_resolution", "a5::core::compact::compact", "a5::core::compact::uncompact"]


def api_entry_points(facts):
    """functions re-exported at the crate root (the PUBLIC API census)"""
    return sorted(r["target"] for r in facts.root if r["kind"] == "Fn" and r["public"] and r["reexport"])
