"""Check runner plumbing: rule-instance recording, known findings, evidence, replay files."""
import json
import os
import sys
import time

VERIF = os.path.dirname(os.path.dirname(os.path.abspath(__file__)))


class Instance:
    __slots__ = ("rule", "key", "ok", "reason", "where", "nontrivial", "kind")

    def to_json(self):
        return {"rule": self.rule, "key": self.key, "verdict": "holds" if self.ok else "VIOLATED",
                "reason": self.reason, "where": self.where, "kind": self.kind}


class Run:
    def __init__(self, prop, tier, level="other"):
        self.prop = prop
        self.tier = tier
        self.level = level
        try:
            self.t0 = float(os.environ.get("A5_T0", ""))
        except ValueError:
            self.t0 = time.time()
        self.instances = []
        self.controls = []  # (rule, control name, fired)
        self.notes = []
        self.assumptions = []
        self.units = {}
        self.extra = {}
        self.explanation = ""
        self.rule_text = ""
        self.trusted_base = []
        try:
            self.seed = int(os.environ.get("VERIF_SEED", "0"))
        except ValueError:
            self.seed = 0
        self.known = load_known()

    # ------------------------------------------------------------ recording
    def inst(self, rule, key, ok, reason, where=None, nontrivial=True, kind="rule"):
        i = Instance()
        i.rule, i.key, i.ok, i.reason, i.where, i.nontrivial, i.kind = rule, key, bool(ok), reason, where, nontrivial, kind
        self.instances.append(i)
        return i.ok

    def ok(self, rule, key, reason, where=None, nontrivial=True):
        return self.inst(rule, key, True, reason, where, nontrivial)

    def bad(self, rule, key, reason, where=None):
        return self.inst(rule, key, False, reason, where)

    def missing(self, rule, anchor):
        return self.inst(rule, "missing-anchor:" + anchor, False, "missing anchor %s (fails closed)" % anchor, None, kind="anchor")

    def floor(self, rule, what, count, floor):
        return self.inst(rule, "floor:" + what, count >= floor,
                         "%s: counted %d, hand-confirmed floor %d" % (what, count, floor), None, nontrivial=False, kind="floor")

    def control(self, rule, name, fired, detail=""):
        """positive control: the rule must fire on the deliberately broken selftest item"""
        self.controls.append((rule, name, bool(fired), detail))
        if not fired:
            self.inst(rule, "control:" + name, False,
                      "positive control %s did not fire: the rule would pass vacuously" % name, None, kind="control")

    def note(self, s):
        self.notes.append(s)

    def assume(self, s):
        if s not in self.assumptions:
            self.assumptions.append(s)

    # ------------------------------------------------------------ finishing
    def finish(self):
        viol = [i for i in self.instances if not i.ok]
        known_keys = {k["key"]: k for k in self.known.get("findings", []) if k["property"] == self.prop}
        unlisted = [i for i in viol if i.key not in known_keys]
        listed = [i for i in viol if i.key in known_keys]
        out_dir = os.path.join(VERIF, "out", "violations")
        os.makedirs(out_dir, exist_ok=True)
        for old in os.listdir(out_dir):
            if old.startswith(self.prop + "-"):
                os.remove(os.path.join(out_dir, old))
        lines = []
        for i in self.instances:
            if i.ok and i.kind == "rule":
                lines.append("ok   %-10s %s  -- %s" % (i.rule, i.key, i.reason))
        for i in listed:
            print("KNOWN-FINDING: property=%s %s -- %s" % (self.prop, i.key, known_keys[i.key].get("what", i.reason)))
        n = 0
        for i in unlisted:
            n += 1
            path = os.path.join(out_dir, "%s-%d.json" % (self.prop, n))
            with open(path, "w") as fh:
                json.dump({"property": self.prop, "instance": i.to_json(), "tier": self.tier}, fh, indent=1)
            print("FAIL %-10s %s -- %s%s" % (i.rule, i.key, i.reason, (" @ " + i.where) if i.where else ""))
            print("VIOLATION property=%s replay=%s" % (self.prop, path))
        if os.environ.get("VERIF_VERBOSE"):
            for l in lines:
                print(l)
        wall = time.time() - self.t0
        self.write_evidence(len(unlisted), wall, listed)
        nrule = sum(1 for i in self.instances)
        print("%s %s: %d rule instances, %d violations (%d known findings), %d positive controls, %.1fs" % (
            self.prop, self.tier, nrule, len(unlisted), len(listed), len(self.controls), wall))
        return 1 if unlisted else 0

    def write_evidence(self, nviol, wall, listed):
        if os.environ.get("A5_NOEVIDENCE"):
            return   # rule development on pre-extracted facts of a patched tree: never overwrite the real evidence
        insts = self.instances
        distinct = {(i.rule, i.key) for i in insts if i.nontrivial}
        samples = [i.to_json() for i in insts if i.nontrivial][:40]
        if not samples:
            samples = [i.to_json() for i in insts][:10]
        cov = {
            "explanation": self.explanation,
            "rule": self.rule_text,
            "evaluations": len(insts),
            "distinct_nontrivial": len(distinct),
            "samples": samples,
            "obligations": len(insts),
            "discharged": sum(1 for i in insts if i.ok),
            "checker_cmd": "./check %s %s" % (self.prop, self.tier),
            "trusted_base": self.trusted_base or [
                "rustc MIR construction, type checking and constant evaluation (nightly 1.97)",
                "the a5facts driver and the Python rule packs under /verif/analysis"],
            "analysed_units": self.units,
            "positive_controls": [{"rule": r, "control": n, "fired": f, "detail": d} for r, n, f, d in self.controls],
            "known_findings_reported": [i.key for i in listed],
            "notes": self.notes,
            "exhaustive": True,
        }
        cov.update(self.extra)
        ev = {
            "property_id": self.prop,
            "tier": self.tier,
            "seed": self.seed,
            "level": self.level,
            "coverage": cov,
            "assumptions": self.assumptions,
            "wall_s": round(wall, 3),
            "violations": nviol,
        }
        os.makedirs(os.path.join(VERIF, "evidence"), exist_ok=True)
        # written to a private name and moved into place: two checks of one property running side by side must not
        # interleave their output in one file
        dst = os.path.join(VERIF, "evidence", self.prop + ".json")
        tmp = "%s.%d.tmp" % (dst, os.getpid())
        with open(tmp, "w") as fh:
            json.dump(ev, fh, indent=1)
        os.replace(tmp, dst)


def load_known():
    p = os.path.join(VERIF, "known_findings.json")
    if os.path.exists(p):
        with open(p) as fh:
            return json.load(fh)
    return {"findings": [], "fixed": []}


def where(span):
    if not span:
        return None
    return "%s:%s" % (span.get("file"), span.get("line"))
