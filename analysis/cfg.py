"""CFG utilities over the driver's MIR JSON: successors, dominators, post-dominators,
control dependence, loops, edge conditions.  Cleanup (unwind) blocks are ignored."""


def term_succs(t):
    k = t["k"]
    if k == "goto":
        return [t["target"]]
    if k == "switch":
        out = [bb for _, bb in t["targets"]] + [t["otherwise"]]
        seen, res = set(), []
        for b in out:
            if b not in seen:
                seen.add(b)
                res.append(b)
        return res
    if k in ("call", "assert", "drop"):
        return [t["target"]] if t.get("target") is not None else []
    return []


class CFG:
    def __init__(self, fn):
        self.fn = fn
        blocks = fn["blocks"]
        self.n = len(blocks)
        self.succ = [[] for _ in range(self.n)]
        self.pred = [[] for _ in range(self.n)]
        for i, b in enumerate(blocks):
            if b["cleanup"]:
                continue
            for s in term_succs(b["term"]):
                if blocks[s]["cleanup"]:
                    continue
                self.succ[i].append(s)
                self.pred[s].append(i)
        self.reach = self._reachable()
        self.rpo = self._rpo()
        self.idom = self._dominators()
        self.returns = [i for i in self.reach if blocks[i]["term"]["k"] == "return"]
        # exits that are not a normal return: unreachable / diverging call / resume
        self.aborts = [i for i in self.reach if not self.succ[i] and blocks[i]["term"]["k"] != "return"]
        self._pdom_cache = {}

    def _reachable(self):
        seen = {0}
        st = [0]
        while st:
            b = st.pop()
            for s in self.succ[b]:
                if s not in seen:
                    seen.add(s)
                    st.append(s)
        return seen

    def _rpo(self):
        seen = set()
        order = []
        # iterative DFS post-order
        stack = [(0, iter(self.succ[0]))]
        seen.add(0)
        while stack:
            b, it = stack[-1]
            adv = False
            for s in it:
                if s not in seen:
                    seen.add(s)
                    stack.append((s, iter(self.succ[s])))
                    adv = True
                    break
            if not adv:
                order.append(b)
                stack.pop()
        order.reverse()
        return order

    def _dominators(self):
        idx = {b: i for i, b in enumerate(self.rpo)}
        idom = {0: 0}
        changed = True

        def intersect(a, b):
            while a != b:
                while idx[a] > idx[b]:
                    a = idom[a]
                while idx[b] > idx[a]:
                    b = idom[b]
            return a

        while changed:
            changed = False
            for b in self.rpo[1:]:
                ps = [p for p in self.pred[b] if p in idom]
                if not ps:
                    continue
                new = ps[0]
                for p in ps[1:]:
                    new = intersect(new, p)
                if idom.get(b) != new:
                    idom[b] = new
                    changed = True
        return idom

    def dominates(self, a, b):
        """a dominates b (reflexive)."""
        if b not in self.idom:
            return False
        while True:
            if a == b:
                return True
            if b == 0:
                return False
            b = self.idom[b]

    def dom_chain(self, b):
        out = [b]
        while b != 0:
            b = self.idom[b]
            out.append(b)
        return out

    # ---- post-dominators with respect to a chosen exit set
    def postdoms(self, exits=None):
        """Returns ipdom map (block -> immediate post-dominator, virtual exit = -1) computed on the
        sub-graph of blocks that can reach one of `exits` (default: normal returns)."""
        key = tuple(sorted(exits)) if exits is not None else None
        if key in self._pdom_cache:
            return self._pdom_cache[key]
        ex = list(self.returns if exits is None else exits)
        # blocks that can reach an exit
        can = set(ex)
        st = list(ex)
        while st:
            b = st.pop()
            for p in self.pred[b]:
                if p not in can and p in self.reach:
                    can.add(p)
                    st.append(p)
        # reverse graph with virtual exit -1
        rsucc = {-1: list(ex)}
        for b in can:
            rsucc[b] = [p for p in self.pred[b] if p in can]
        rpred = {b: [] for b in rsucc}
        for b, ss in rsucc.items():
            for s in ss:
                rpred[s].append(b)
        # rpo on reverse graph
        seen = {-1}
        order = []
        stack = [(-1, iter(rsucc[-1]))]
        while stack:
            b, it = stack[-1]
            adv = False
            for s in it:
                if s not in seen:
                    seen.add(s)
                    stack.append((s, iter(rsucc[s])))
                    adv = True
                    break
            if not adv:
                order.append(b)
                stack.pop()
        order.reverse()
        idx = {b: i for i, b in enumerate(order)}
        ipdom = {-1: -1}

        def intersect(a, b):
            while a != b:
                while idx[a] > idx[b]:
                    a = ipdom[a]
                while idx[b] > idx[a]:
                    b = ipdom[b]
            return a

        changed = True
        while changed:
            changed = False
            for b in order[1:]:
                ps = [p for p in rpred[b] if p in ipdom]
                if not ps:
                    continue
                new = ps[0]
                for p in ps[1:]:
                    new = intersect(new, p)
                if ipdom.get(b) != new:
                    ipdom[b] = new
                    changed = True
        self._pdom_cache[key] = ipdom
        return ipdom

    def postdominates(self, a, b, exits=None):
        """a post-dominates b w.r.t. exits (every path from b to an exit passes a)."""
        ip = self.postdoms(exits)
        if b not in ip:
            return False
        while True:
            if a == b:
                return True
            if b == -1:
                return False
            b = ip[b]

    # ---- loops
    def back_edges(self):
        return [(t, h) for t in self.reach for h in self.succ[t] if self.dominates(h, t)]

    def loops(self):
        """header -> set of blocks of the natural loop."""
        res = {}
        for t, h in self.back_edges():
            body = res.setdefault(h, {h})
            st = [t]
            while st:
                b = st.pop()
                if b not in body:
                    body.add(b)
                    st.extend(self.pred[b])
        return res

    def reachable_from(self, b, avoid=()):
        seen = set()
        st = [b]
        avoid = set(avoid)
        while st:
            x = st.pop()
            if x in seen or x in avoid:
                continue
            seen.add(x)
            st.extend(self.succ[x])
        return seen

    def can_reach(self, a, b, avoid=()):
        return b in self.reachable_from(a, avoid)

    # ---- edge conditions
    def edge_dominates(self, d, s, b):
        """Does the CFG edge d->s lie on every path from entry to b?"""
        if not self.dominates(s, b):
            return False
        # every other predecessor of s must itself be dominated by s (loop back edge)
        for p in self.pred[s]:
            if p != d and not self.dominates(s, p):
                return False
        # and if d has several edges to s (switch with duplicate targets) the value is ambiguous
        return True

    def dominating_edges(self, b):
        """List of (switch_block, successor) edges that dominate block b."""
        out = []
        for d in self.dom_chain(b):
            t = self.fn["blocks"][d]["term"]
            if t["k"] != "switch":
                continue
            for s in self.succ[d]:
                if self.edge_dominates(d, s, b) and (s != b or True):
                    out.append((d, s))
        return out


def switch_edge_values(term, succ):
    """For a switch terminator and a successor: (explicit values going there, is_otherwise)."""
    vals = [int(v) for v, bb in term["targets"] if bb == succ]
    return vals, term["otherwise"] == succ
