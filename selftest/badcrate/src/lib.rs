//! Deliberately wrong code: one small item per zero-expected rule of the /verif rule packs.
//! Every ./check run analyses this crate with the same pipeline and fails if the rule that
//! should fire on an item stays silent (positive controls, DESIGN section 9).
#![allow(dead_code, unused)]

// ---- C05.R1 hex writer controls
pub fn hex_upper(value: u64) -> String { format!("{value:X}") }
pub fn hex_padded(value: u64) -> String { format!("{value:016x}") }
pub fn hex_prefixed(value: u64) -> String { format!("{value:#x}") }
pub fn hex_narrow(value: u64) -> String { format!("{:x}", value as u32) }

// ---- C05.R2 hex reader controls
pub fn unhex_default(hex: &str) -> Result<u64, String> { Ok(u64::from_str_radix(hex, 16).unwrap_or(0)) }
pub fn unhex_narrow(hex: &str) -> Result<u64, String> {
    u32::from_str_radix(hex, 16).map(|v| v as u64).map_err(|e| format!("bad: {}", e))
}
pub fn unhex_trim(hex: &str) -> Result<u64, String> {
    u64::from_str_radix(&hex[..hex.len().min(16)], 16).map_err(|e| format!("bad: {}", e))
}
