//! Deliberately wrong code: one small item per zero-expected rule of the /verif rule packs.
//! Every ./check run analyses this crate with the same pipeline and fails if the rule that
//! should fire on an item stays silent (positive controls, DESIGN section 9).
#![allow(dead_code, unused)]
