//! Deliberately wrong code: one small item per zero-expected rule of the /verif rule packs.
//! Every ./check run analyses this crate with the same pipeline and fails if the rule that
//! should fire on an item stays silent (positive controls, DESIGN section 9).
#![allow(dead_code, unused)]

// ---- C05.R1 hex writer controls
pub fn hex_upper(value: u64) -> String { format!("{value:X}") }
pub fn hex_padded(value: u64) -> String { format!("{value:016x}") }
pub fn hex_prefixed(value: u64) -> String { format!("{value:#x}") }
pub fn hex_narrow(value: u64) -> String { format!("{:x}", value as u32) }

// ---- C05.R2 hex reader controls
pub fn unhex_default(hex: &str) -> Result<u64, String> { Ok(u64::from_str_radix(hex, 16).unwrap_or(0)) }
pub fn unhex_narrow(hex: &str) -> Result<u64, String> {
    u32::from_str_radix(hex, 16).map(|v| v as u64).map_err(|e| format!("bad: {}", e))
}
pub fn unhex_trim(hex: &str) -> Result<u64, String> {
    u64::from_str_radix(&hex[..hex.len().min(16)], 16).map_err(|e| format!("bad: {}", e))
}

// ---- C13 controls: hidden inputs
use std::collections::HashSet;
use std::sync::atomic::{AtomicUsize, Ordering};
static BAD_COUNTER: AtomicUsize = AtomicUsize::new(0);
static mut BAD_LAST: u64 = 0;
static BAD_LOCK: std::sync::Mutex<u64> = std::sync::Mutex::new(0);

pub fn impure_counter(x: u64) -> u64 { x + BAD_COUNTER.fetch_add(1, Ordering::Relaxed) as u64 }
pub fn impure_static_mut(x: u64) -> u64 { unsafe { let old = BAD_LAST; BAD_LAST = x; old } }
pub fn impure_clock(x: u64) -> u64 { x + std::time::Instant::now().elapsed().as_nanos() as u64 }
pub fn impure_env(x: u64) -> u64 { x + std::env::var("A5").map(|s| s.len() as u64).unwrap_or(0) }
pub fn impure_address(x: &u64) -> usize { x as *const u64 as usize }
pub fn impure_hash_order(cells: &[u64]) -> Vec<u64> {
    let set: HashSet<u64> = cells.iter().copied().collect();
    set.into_iter().collect()
}
pub fn impure_thread_id(x: u64) -> String { format!("{:?}{}", std::thread::current().id(), x) }

// ---- C13.P4 control: a memo table whose slot index collapses two keys
pub struct MemoBad { slots: Vec<Option<u64>> }
impl MemoBad {
    pub fn new() -> Self { MemoBad { slots: vec![None; 20] } }
    pub fn entry(&mut self, a: u8, b: bool) -> u64 {
        if a > 9 { return 0; }
        self.get_collapsed(a as usize, b)
    }
    fn get_collapsed(&mut self, a: usize, b: bool) -> u64 {
        let mut index = a;
        if b { index += 5; }           // should be 10: (a, true) collides with (a + 5, false)
        if let Some(v) = &self.slots[index] { return *v; }
        let v = if b { (a as u64) * 1000 } else { a as u64 };
        self.slots[index] = Some(v);
        v
    }
}
