#!/bin/bash
# seed_matrix.sh [tier] : run every registered check against every kept seed, each in its own scratch worktree of /repo
# (removed afterwards).  Writes out/seed_matrix.json and prints a table.  Checker QA, not a registered check.
set -u
cd "$(dirname "$0")/.."
TIER="${1:-quick}"
mkdir -p out/matrix
PROPS="$(python3 -c "import json;print(' '.join(c['property_id'] for c in json.load(open('MANIFEST.json'))['checks']))")"
one() {
  s="$1"; WT="/tmp/mx.$$.$s"
  git -C /repo worktree add --detach "$WT" HEAD -f >/dev/null 2>&1 || { echo "$s: worktree failed"; return; }
  if ! git -C "$WT" apply "/verif/seeded/$s/patch.diff" 2>/dev/null; then
     if ! git -C "$WT" apply -3 "/verif/seeded/$s/patch.diff" >/dev/null 2>&1; then echo "{\"seed\":\"$s\",\"error\":\"patch does not apply\"}" > out/matrix/$s.json; git -C /repo worktree remove --force "$WT"; return; fi
  fi
  res=""
  for p in $PROPS; do
    out="$(A5_NOEVIDENCE=1 A5_REPO="$WT" ./check $p $TIER 2>&1)"; rc=$?
    rule="$(echo "$out" | grep -E '^FAIL' | head -3 | awk '{print $2":"$3}' | tr '\n' ' ')"
    res="$res\"$p\":{\"rc\":$rc,\"rules\":\"$rule\"},"
  done
  echo "{\"seed\":\"$s\",\"results\":{${res%,}}}" > out/matrix/$s.json
  git -C /repo worktree remove --force "$WT" >/dev/null 2>&1
}
export -f one; export PROPS TIER
ls seeded | xargs -P 14 -I{} bash -c 'one {}'
python3 - <<'PY'
import json,glob
rows=[]
for f in sorted(glob.glob('/verif/out/matrix/*.json')):
    rows.append(json.load(open(f)))
json.dump(rows,open('/verif/out/seed_matrix.json','w'),indent=1)
for r in rows:
    if 'error' in r: print("%-40s ERROR %s"%(r['seed'],r['error'])); continue
    det=[p for p,v in r['results'].items() if v['rc']!=0]
    print("%-40s %s"%(r['seed'], ' '.join("%s[%s]"%(p, r['results'][p]['rules'].strip()[:60]) for p in det) or '-- not detected --'))
PY
