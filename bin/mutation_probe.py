#!/usr/bin/env python3
"""mutation_probe.py gen|test|check ...   - checker QA, not a registered check.

Token-level mutants of the anchored source files, used to measure what the rule packs do NOT see:

  gen   <per-file> <seed>           write out/mut/mutants.json (file, line, column, old token, new token)
  test  <workers>                   for every mutant: scratch worktree of /repo (pool, outside /repo and /verif), apply,
                                    `cargo test --offline`; keeps the ones that compile and leave all tests green
                                    -> out/mut/survivors.json
  check <workers>                   for every survivor: extract facts from the mutated tree and run all rule packs
                                    -> out/mut/checked.json (per mutant: the checks that report it)

A surviving mutant that no check reports is either equivalent on every property or a gap; that triage is manual
(DESIGN 13.15).  Worktrees are removed at the end of each phase.
"""
import json, os, random, re, subprocess, sys, shutil
from concurrent.futures import ThreadPoolExecutor
from queue import Queue

VERIF = os.path.dirname(os.path.dirname(os.path.abspath(__file__)))
REPO = os.environ.get("A5_REPO", "/repo")
OUT = os.path.join(VERIF, "out", "mut")
POOL = "/tmp/mutpool"

FILES = [
    "src/core/cell.rs", "src/core/compact.rs", "src/core/serialization.rs", "src/core/hilbert.rs", "src/core/origin.rs",
    "src/core/tiling.rs", "src/core/cell_info.rs", "src/core/coordinate_transforms.rs", "src/core/hex.rs",
    "src/core/dodecahedron_quaternions.rs", "src/core/utils.rs", "src/core/constants.rs", "src/core/pentagon.rs",
    "src/geometry/pentagon.rs", "src/geometry/spherical_polygon.rs", "src/geometry/spherical_triangle.rs",
    "src/projections/dodecahedron.rs", "src/projections/polyhedral.rs", "src/projections/authalic.rs",
    "src/projections/gnomonic.rs", "src/projections/crs.rs", "src/utils/vector.rs",
]

SWAPS = [
    (r"(?<![<>=!+\-*/&|])<=(?![=>])", ["<"]), (r"(?<![<>=!+\-*/&|\-])>=(?![=>])", [">"]),
    (r"(?<![<>=!\-&|:])<(?![<=:])(?=\s)", ["<="]), (r"(?<![<>=!\-&|:])(?<=\s)>(?![>=])(?=\s)", [">="]),
    (r"==", ["!="]), (r"!=", ["=="]), (r"&&", ["||"]), (r"\|\|", ["&&"]),
    (r"(?<=\s)\+(?=\s)", ["-"]), (r"(?<=\s)-(?=\s)", ["+"]), (r"(?<=\s)\*(?=\s)", ["/"]), (r"(?<=\s)/(?=\s)", ["*"]),
    (r"(?<=\s)%(?=\s)", ["/"]), (r"\+=", ["-="]), (r"-=", ["+="]),
    (r"<<", [">>"]), (r">>", ["<<"]),
    (r"\btrue\b", ["false"]), (r"\bfalse\b", ["true"]),
    (r"\.rev\(\)", [""]), (r"\.min\(", [".max("]), (r"\.max\(", [".min("]),
    (r"\.sin\(\)", [".cos()"]), (r"\.cos\(\)", [".sin()"]),
    (r"\.floor\(\)", [".ceil()", ".round()"]), (r"\.round\(\)", [".floor()"]), (r"\.ceil\(\)", [".floor()"]),
    (r"\bx\(\)", ["y()"]), (r"\by\(\)", ["x()"]),
    (r"(?<![\w.])(\d+)(?![\w.])", ["+1", "-1"]),
]


def candidates(path):
    src = open(os.path.join(REPO, path)).read().split("\n")
    out = []
    for ln, line in enumerate(src):
        s = line.strip()
        if s.startswith("#[cfg(test)]"):
            break
        if not s or s.startswith("//") or s.startswith("#[") or s.startswith("use ") or s.startswith("///") or s.startswith("//!"):
            continue
        code = line.split("//")[0]
        if '"' in code:
            code = code.split('"')[0]           # never mutate inside or after a string literal on the line
        for pat, reps in SWAPS:
            for m in re.finditer(pat, code):
                for r in reps:
                    old = m.group(0)
                    if r in ("+1", "-1"):
                        v = int(old)
                        nv = v + 1 if r == "+1" else v - 1
                        if nv < 0:
                            continue
                        new = str(nv)
                    else:
                        new = r
                    out.append({"file": path, "line": ln + 1, "col": m.start(), "old": old, "new": new})
    return out


def gen(per_file, seed):
    rnd = random.Random(seed)
    muts = []
    done = set()
    for prev in sorted(os.listdir(os.path.join(VERIF, "qa"))):
        if prev.startswith("mutation_tested") and prev.endswith(".json"):
            for m in json.load(open(os.path.join(VERIF, "qa", prev))):
                done.add((m["file"], m["line"], m["col"], m["old"], m["new"]))
    for f in FILES:
        if not os.path.exists(os.path.join(REPO, f)):
            continue
        c = [m for m in candidates(f) if (m["file"], m["line"], m["col"], m["old"], m["new"]) not in done]
        rnd.shuffle(c)
        muts += c[:per_file]
    for i, m in enumerate(muts):
        m["id"] = "s%dm%04d" % (seed, i)
    os.makedirs(OUT, exist_ok=True)
    json.dump(muts, open(os.path.join(OUT, "mutants.json"), "w"), indent=1)
    print(len(muts), "mutants")


def apply(wt, m):
    p = os.path.join(wt, m["file"])
    lines = open(p).read().split("\n")
    l = lines[m["line"] - 1]
    assert l[m["col"]:m["col"] + len(m["old"])] == m["old"], (m, l)
    lines[m["line"] - 1] = l[:m["col"]] + m["new"] + l[m["col"] + len(m["old"]):]
    open(p, "w").write("\n".join(lines))


def sh(cmd, cwd=None, timeout=None):
    # own process group: a mutant that loops forever in a test binary must die with the timeout, not only its shell
    import signal
    p = subprocess.Popen(cmd, shell=True, cwd=cwd, stdout=subprocess.PIPE, stderr=subprocess.STDOUT, text=True, start_new_session=True)
    try:
        out, _ = p.communicate(timeout=timeout)
        return p.returncode, out
    except subprocess.TimeoutExpired:
        try:
            os.killpg(p.pid, signal.SIGKILL)
        except ProcessLookupError:
            pass
        p.communicate()
        return 124, "timeout"


def make_pool(n):
    os.makedirs(POOL, exist_ok=True)
    for k in range(n):
        wt = "%s/w%d" % (POOL, k)
        if not os.path.exists(wt):
            sh("git -C %s worktree add --detach %s HEAD -f" % (REPO, wt))
            sh("cp -r %s/target %s/target" % (REPO, wt))


def drop_pool():
    if os.path.isdir(POOL):
        for d in os.listdir(POOL):
            sh("git -C %s worktree remove --force %s/%s" % (REPO, POOL, d))
        shutil.rmtree(POOL, ignore_errors=True)
    sh("git -C %s worktree prune" % REPO)


def phase_test(workers):
    muts = json.load(open(os.path.join(OUT, "mutants.json")))
    make_pool(workers)
    q = Queue()
    for k in range(workers):
        q.put("%s/w%d" % (POOL, k))
    res = []

    def one(m):
        wt = q.get()
        try:
            sh("git checkout -q -- src", cwd=wt)
            apply(wt, m)
            rc, out = sh("cargo test --offline 2>&1", cwd=wt, timeout=240)
            passed = sum(int(x) for x in re.findall(r"test result: \w+\. (\d+) passed", out))
            failed = sum(int(x) for x in re.findall(r"test result: \w+\. \d+ passed; (\d+) failed", out))
            status = "survived" if rc == 0 and failed == 0 and passed >= 150 else ("timeout" if rc == 124 else ("compile" if "error[" in out or "error:" in out and passed == 0 else "killed"))
            r = dict(m, status=status, passed=passed, failed=failed)
            if status == "survived":
                rc2, diff = sh("git diff -- src", cwd=wt)
                r["patch"] = diff
            return r
        finally:
            sh("git checkout -q -- src", cwd=wt)
            q.put(wt)
    with ThreadPoolExecutor(workers) as ex:
        for r in ex.map(one, muts):
            res.append(r)
            print(r["id"], r["status"], r["file"], r["line"], repr(r["old"]), "->", repr(r["new"]), flush=True)
    json.dump(res, open(os.path.join(OUT, "tested.json"), "w"), indent=1)
    json.dump([r for r in res if r["status"] == "survived"], open(os.path.join(OUT, "survivors.json"), "w"), indent=1)
    drop_pool()


def phase_check(workers):
    sv = json.load(open(os.path.join(OUT, "survivors.json")))
    make_pool(workers)
    q = Queue()
    for k in range(workers):
        q.put("%s/w%d" % (POOL, k))
    props = [c["property_id"] for c in json.load(open(os.path.join(VERIF, "MANIFEST.json")))["checks"]]
    res = []

    def one(m):
        wt = q.get()
        try:
            sh("git checkout -q -- src", cwd=wt)
            apply(wt, m)
            work = "%s/facts.%s" % (POOL, m["id"])
            os.makedirs(work, exist_ok=True)
            rc, out = sh("%s/bin/extract.sh %s %s/facts.json dev a5" % (VERIF, wt, work), cwd=VERIF, timeout=600)
            if rc != 0:
                return dict(m, checks={"extract": out[-300:]})
            shutil.copy(os.path.join(VERIF, "out", "bad.json"), work + "/bad.json")
            hit = {}
            for p in props:
                rc, out = sh("A5_NOEVIDENCE=1 python3 -m analysis.main %s quick %s" % (p, work), cwd=VERIF, timeout=900)
                if rc != 0:
                    hit[p] = " ".join(re.findall(r"^FAIL (\S+\s+\S+)", out, re.M)[:3])
            shutil.rmtree(work, ignore_errors=True)
            return dict(m, checks=hit)
        finally:
            sh("git checkout -q -- src", cwd=wt)
            q.put(wt)
    with ThreadPoolExecutor(workers) as ex:
        for r in ex.map(one, sv):
            r.pop("patch", None)
            res.append(r)
            print(r["id"], r["file"], r["line"], repr(r["old"]), "->", repr(r["new"]), "::", " ".join(sorted(r["checks"])) or "-- silent --", flush=True)
    json.dump(res, open(os.path.join(OUT, "checked.json"), "w"), indent=1)
    drop_pool()


if __name__ == "__main__":
    if sys.argv[1] == "gen":
        gen(int(sys.argv[2]), int(sys.argv[3]))
    elif sys.argv[1] == "test":
        phase_test(int(sys.argv[2]))
    elif sys.argv[1] == "check":
        phase_check(int(sys.argv[2]))
