#!/bin/bash
# verify_benign.sh <dir (patch.diff, meta.json)> <id> : the patch applies, compiles, and the existing suite passes;
# stores it under /verif/benign/<id>/.  (Behaviour preservation itself is argued in meta.json and reviewed by reading.)
set -u
SD="$(realpath "$1")"; ID="$2"
WT="/tmp/vben.$$"
git -C /repo worktree add --detach "$WT" HEAD -f >/dev/null 2>&1 || exit 2
cp -r /repo/target "$WT/target" 2>/dev/null
cleanup() { git -C /repo worktree remove --force "$WT" >/dev/null 2>&1; rm -rf "$WT"; }
trap cleanup EXIT
cd "$WT"
git apply "$SD/patch.diff" 2>/dev/null || git apply --3way "$SD/patch.diff" >/dev/null 2>&1 || { echo "REJECT $ID: patch does not apply"; exit 1; }
r2="$(cargo test --offline 2>&1 | grep -E "^test result" | awk '{p+=$4; f+=$6} END {print p" passed "f" failed"}')"
echo "$ID patched suite: $r2"
echo "$r2" | grep -q " 0 failed" || { echo "REJECT $ID: suite fails"; exit 1; }
[ "$(echo "$r2" | awk '{print $1}')" -ge 150 ] || { echo "REJECT $ID: fewer than 150 passed"; exit 1; }
mkdir -p /verif/benign/$ID
cp "$SD/patch.diff" "$SD/meta.json" /verif/benign/$ID/
echo "KEPT benign/$ID"
