#!/usr/bin/env python3
"""Writes /verif/MANIFEST.json from the table below (single source of truth for levels and notes)."""
import json, os
V = os.path.dirname(os.path.dirname(os.path.abspath(__file__)))

TB = ("Trusted: rustc's MIR construction, type checking and constant evaluation (nightly 1.97), the a5facts driver "
      "and the Python rule packs (tested both ways: positive controls in selftest/badcrate and the seeded/benign patch corpus).")

CHECKS = {
 "C01": ("6/C01", "custom MIR dataflow rules (provenance, guard dominance, arg-max idiom, affine depth forms)",
  "Static, partial. Decides for ALL inputs the structural clauses: every successful lookup result is serialize(estimate) with "
  "estimate.resolution == the resolution argument (world cell only for -1); the early return is dominated by containment(estimate, query point) > 0 "
  "for the very estimate returned; the fallback is the arg-max of the recorded (estimate, containment) pairs; one curve depth r-FIRST+1 in ij_to_s, "
  "lattice scale, s_to_anchor and get_pentagon_vertices; containment is the exact sign of the edge cross product (threshold literally 0); probe estimates are de-duplicated by their serialized ID only (R6); shared: the containment test works on the polygon get_pentagon reports, at every resolution (C02.R2); the projection's triangle memo tables have a slot for every (face, triangle, flags) key (C13.X1); every longitude wrap moves by a full period (C19.A5); the inverse-projection pairing rules C15.S1/S3/S4 and the sector-reduced reflection azimuth C15.S6; no explicitly constructed error result of lonlat_to_cell / lonlat_to_estimate is reachable for latitude in [-90,90], finite longitude, resolution 0..29 (R7, interval analysis over exactly that domain); every spiral index contributes its probe to the list and every probe is estimated - no probe is filtered by its coordinates (R8). Does NOT decide that the probe search reaches the containing cell, the edge band, "
  "periodicity or poles (numerical over a continuum)."),
 "C02": ("6/C02", "custom MIR dataflow rules (provenance, sibling dispatch comparison)",
  "Static, thin partial. Decides: centre = inverse projection on the cell's own face of the centroid of get_pentagon(decode(cell)); get_pentagon and the "
  "containment test build geometry with the same constructors, thresholds and quintant at every resolution 0..29 (R2, evaluated level by level, not sampled); shared: C01.R1-R5/R7/R8 (the lookup returns a cell of the asked resolution accepted by the exact containment test at the query point itself, and rejects no admissible point), C15.S1/S3/S4/S6 inverse-projection pairing. Does NOT decide the centre/interior round trip (numerical)."),
 "C04": ("6/C04", "custom MIR dataflow rule + table predicate on compiler-evaluated constants",
  "Static, thin partial. Decides: boundary points are subdivided in the plane before unprojection (provenance of every inverse-projection argument) and the "
  "31 tabulated areas equal authalic area / cell count to 1e-12; shared: C15.S1/S3/S4/S6 (matching spherical/squashed triangle, angle helper continuous at its threshold, reflection test on the sector-reduced azimuth). Does NOT decide that cells have equal area (needs C16, numerical)."),
 "C05": ("6/C05", "symbolic per-regime layout derivation from MIR terms + format-template/idiom rules",
  "Static, partial. Decides for all inputs: hex writer is exactly LowerHex of the u64 argument with an empty default template; hex reader is u64::from_str_radix(arg,16) "
  "with the error propagated; the writer's and reader's symbolic bit layouts per resolution regime (code<<58, digits<<(60-2r), marker<<(59-2r), guard s<2^(2r-2), "
  "58-bit mask, inverse rotation with the same face's first quintant); marker positions pairwise distinct; shared from C14.C: every ID an API call returns (lookup, hierarchy, compact / uncompact vectors) is a serialize() output, the world cell or an element of a collection of such - the structural part of 'every returned ID is in canonical form'. Does NOT decide the bijection as a theorem over all tuples "
  "nor that get_resolution's marker scan inverts the writer (loop invariant)."),
 "C06": ("6/C06", "value pin of compiler-evaluated constant tables against the reference release",
  "Static, partial. Decides that the 41 ID-/place-determining named constants, the digit->flips table and the orientation flag sets are value-identical (floats within "
  "1e-15 relative) to the reference generated from the pinned release; shared structural rules of the consumers: C02.R2 (one relabelling for lookup and geometry), C05.R4 (writer layout), C18.D2-D6 (offset, relabelling, nearest face, indexing face, per-face tables read with one construction index and by nobody else), C17.H (curve walks). Necessary for ID stability; does NOT see other edits to the code consuming the tables or literals in function bodies."),
 "C07": ("6/C07", "custom MIR dataflow rules + small-set evaluation of guard conditions",
  "Static, partial. Decides: target-resolution provenance and range guards of every serialize call in the hierarchy functions; fan-out sets (12 faces / 5 segments) and the exact "
  "(current,target) conditions selecting them; 4^d children with shift 2d for the same d; contiguous enumeration, one push per triple; parent shift 2(cur-target); the world cell is returned exactly under target == -1 (T6). Does NOT decide "
  "distinctness / unique parent / exact cover as theorems."),
 "C08": ("6/C08", "custom MIR dataflow rules (must-pass-through, guard, sibling agreement)",
  "Static, partial. Decides: dedup+total sort dominate the merge passes and the input is not re-read; a parent is pushed only under the all-siblings flag whose true value survives the "
  "first-child gate and the complete stride comparison loop; run length table {4,12,5} = cursor increment; other cells copied; every pass result goes through a total sort followed by dedup before the next scan or the return (K5: a merged parent may already be present and does not keep the ID order); shared: C20.L3 (the stride compact steps by is the sibling distance of the layout). Does NOT decide covered-set equality."),
 "C09": ("6/C09", "custom MIR dataflow rules (append-only assembly, per-element provenance, guard order)",
  "Static, partial. Decides: output is append-only inside one forward loop over the input; iteration i expands cells[i] to Some(target) and uses the resolution recorded for index i; the "
  "finer-than-target test runs for every element before the output exists; the fan-out table agrees with the hierarchy over all 746 (resolution, target) pairs; the target is refused up front exactly outside -1..=29 (U5, finite evaluation of the target-only guards); loops are read through the k-th item of the sequence they walk (for / while / enumerate / zip / aligned local vectors alike); shared: C07.T2/T3 (children fan-out and bit placement). Does NOT decide the descendant arithmetic."),
 "C11": ("6/C11", "custom MIR dataflow rules (guarded push, provenance, length-preserving stages)",
  "Static, thin partial. Decides: ring closure under closed_ring with element 0 of the same normalised vector; requested subdivision honoured; one push per element in each stage; the unwrap reference is a longitude on every path; every +-180 comparison tests the longitude of the point being mapped, as its signed distance from the reference - point and reference enter with opposite signs (B5); the unwrap reference accumulates the ring points with a + in its horizontal components (B8); no function outside the vetted ones reads the padded 5-slot vertex array (B6 census); split_edges pushes each vertex followed by exactly segments-1 interior points counted in integers (B7: one vertex loop, one integer-counted inner loop, one push each); shared: full-period wraps (C19.A5); C04.R1 (ring built from the length-exact split pentagon). "
  "Does NOT decide finiteness, latitude range, orientation, longitude window (numerical)."),
 "C13": ("6/C13", "global-state census, effect analysis over the resolved call graph, memo-table soundness with key enumeration from the range analysis",
  "Static, all clauses (proof-style: every obligation enumerated and discharged mechanically). For EVERY call history and thread interleaving: statics are immutable, once-cells or "
  "thread-local; no hand-written unsafe impl; the only user unsafe block is the thread-local accessor; once-cell initialisers are argument-free and reach no hidden input; no public "
  "entry point (13 API functions + projection forward/inverse) reaches clock/env/fs/RNG/thread-id/pointer-to-int/shared mutable statics, hash iteration is sorted before use; each memo "
  "table is written only by its getter, fill-once, with a slot index injective on the value-relevant key over all calling contexts, a key-only value, and the value returned on a miss being the very value stored (a key component may be an integer, a bool, a field-less enum, or a row of the face table identified by its position); every other field of the per-thread object written after construction is only a diagnostic counter (never borrowed, never read into a result); the per-thread object never leaves "
  "its thread. Trusts std's OnceLock/LazyLock/thread_local!/lazy_static.", "proof"),
 "C14": ("6/C14", "interprocedural abstract interpretation of MIR (intervals, value sets, linear facts + Fourier-Motzkin, vector lengths, field invariants, case splits)",
  "Static, strong partial. For ALL u64 x i32 (and Option/slice/option-struct) arguments of the 13 API entry points: every integer-determined failure site reachable in any calling context "
  "(overflow, shift amount, division, sign-losing/truncating cast, indexing, unwrap/expect/panic, allocation size) is discharged by the range analysis, is input-independent (once-cell "
  "initialisers), or is a reviewed assumption listed with its reason (float geometry, beyond the 4^8 bound, C11's quantifier); hierarchy/lookup results are serialize() outputs or the world "
  "cell, and every ID in the vectors compact / uncompact return is a serialize / cell_to_parent / cell_to_children output or an element of a collection of such (no raw input ID travels through); fallible entry points return Result<_, String>. Quick uses 5 assumptions that the thorough tier (case splits per decoded resolution) must discharge. Float wrap loops (`while x - c > A { x -= B }`) carry a TERM obligation: the value entering and the reference are bounded so that every round changes x. Thorough also compares arithmetic/shift/index sites per function between the overflow-checked and the release-like extraction. Does NOT decide float-geometry "
  "panics or termination beyond 'no wrapped-negative loop bound / allocation size'."),
 "C15": ("6/C15", "custom MIR sibling-agreement rules",
  "Static, partial. Decides: forward and inverse select (triangle index, reflect) identically from one polar value (the reflection flag must itself be a function of that polar value), unsquashed face triangle, own-face spherical triangle, correct slots and "
  "un-rotated point; inverse_quat/-angle in, quat/+angle out and in the CRS; inverse_quat = conjugate(quat); squashed only in compute_spherical_triangle; the two formulas of the threshold-guarded acos helper agree to 1e-13 at the threshold the code names (S4: evaluates two extracted closed forms at one constant, not the library); the barycentric map pairs like components of the triangle corners (S5); the azimuth handed to the planar conversion in the reflection test lies within +-PI/5 for every input (S6, float interval analysis incl. x - round(x)); which triangle a get_face_triangle call fetches is decided by finite evaluation of its selector parameters (bools or a field-less enum); shared from the C13 pack: each triangle memo table is built with more slots than the largest slot index over 12 faces x 10 triangles x flags (C13.X1, by enumeration of the slot formula). Does NOT decide round-trip error bounds."),
 "C17": ("6/C17", "table predicates + MIR sibling/provenance rules on the two digit walks",
  "Static, partial. Decides: shift tables are permutations; each inverse table is the index/value swap of the forward table it is paired with; identical orientation flag sets on both "
  "sides and they separate the 6 orientations; every digit rewritten, opposite order; flip alphabet {-1,+1}; same reverse involution; shared: every index/overflow/cast obligation inside a5::core::hilbert from the C14 range analysis (totality for depths 1..29). Does NOT decide injectivity over all 4^n positions."),
 "C18": ("6/C18", "numeric table predicates on compiler-evaluated constants + finite-domain evaluation of MIR-derived formulas + scan-shape rule",
  "Static, partial. Decides: QUATERNIONS is a regular-dodecahedron frame with polar faces and the documented ring structure; offset 93; order permutation; layout classification total; the two "
  "relabelling formulas, evaluated over first quintant x quintant x the four reference layouts bound to origin.orientation, are mutually inverse bijections using one orientation slot and run against the quintant order exactly on the two clockwise layouts; nearest-face = full scan arg-min (loop or fold); every use of the indexing face in lonlat_to_estimate is find_nearest_origin(from_lon_lat(point)) (D5); each Origin is built with its orientation row and first quintant read at one and the same construction index, no row is rewritten afterwards and nobody else reads those tables (D6); shared: C19.A3 (the 93-degree offset is applied in degrees with opposite signs in and out). Does NOT decide that the modified haversine orders like distance."),
 "C19": ("6/C19", "table drift bound + affine mirror comparison of MIR-derived float formulas",
  "Static, thin partial. Decides: coefficient tables within sum(k+1)|delta| <= 1e-15 of the reference; forward/inverse use their own table; from_lon_lat/to_lon_lat are affine mirror images "
  "(offset, reciprocal factors, same pi/2, forward paired with inverse); apply_coefficients has the single result formula phi + series on every path; every `x > A => x -= B` / `x < -A => x += B` wrap in the coordinate code has B == 2A (A5); the authalic functions use no float intrinsic other than sin/cos (A6: the double-angle terms are products, never a square root or an inverse function of another trigonometric value). Does NOT decide the 1e-12 round trip or monotonicity."),
 "C20": ("6/C20", "symbolic layout derivation + affine comparison of stride/mask positions",
  "Static, partial. Decides: big-endian contiguous field order; marker below code for r<2; stride and first-child mask positions equal the writer's last-digit position as affine forms in r; "
  "parents drop LSB digits; shared: C07.T3 (children two bits per level below the parent's digits). Does NOT decide the ordering theorem over all pairs."),
}

NA = {
 "C03": "disjointness/gap-freeness of floating-point pentagons across seams is a global geometric statement over a continuum; no checkable structural clause is necessary beyond table well-formedness, decided under C18/C06",
 "C10": "maximality, idempotence and canonicity are integer theorems about numeric ID order vs the 12/5/4 hierarchy; they need enumeration or proof, not dataflow (DESIGN section 8 records a genuine counterexample found by reading)",
 "C12": "overlap fractions and centre distances of child and parent polygons are numerical facts of the digit-shift geometry; their structural preconditions are decided under C17 and C06",
 "C16": "local area scale of the projection to 1e-4 is a numerical-analysis statement about polyhedral.forward/inverse; pinning its formula would be a frozen fragment",
}
PENDING = {}

def main():
    import importlib.util, sys
    have = set(a[:-3].upper() for a in os.listdir(os.path.join(V, "analysis", "rules")) if a.startswith("c") and a[1:3].isdigit())
    props = [json.loads(l)["id"] for l in open(os.path.join(V, "properties.jsonl"))]
    checks = []
    extra = {}
    if os.path.exists(os.path.join(V, "bin", "manifest_extra.json")):
        extra = json.load(open(os.path.join(V, "bin", "manifest_extra.json")))
    allc = dict(CHECKS)
    for k, v in extra.get("checks", {}).items():
        allc[k] = tuple(v)
    for pid in props:
        if pid in allc and pid in have:
            ref, tech, text = allc[pid][:3]
            level = allc[pid][3] if len(allc[pid]) > 3 else "other"
            checks.append({
                "property_id": pid,
                "quick_cmd": "./check %s quick" % pid,
                "thorough_cmd": "./check %s thorough" % pid,
                "evidence_file": "evidence/%s.json" % pid,
                "replay_cmd_template": "./check --replay {path}",
                "engine": "a5facts+rules",
                "level_claimed": {"category": level, "text": text, "design_ref": ref},
                "level_note": TB,
                "technique": "static analysis: " + tech,
            })
    na = []
    for pid in props:
        if pid in [c["property_id"] for c in checks]:
            continue
        reason = NA.get(pid) or PENDING.get(pid) or "not claimed"
        na.append({"property_id": pid, "reason": reason})
    m = {
        "version": 1,
        "setup_cmd": "./setup.sh",
        "hooks": {"guard": "a5_verif", "enable": "none needed: the checks analyse the unmodified source through a rustc driver (no instrumentation)",
                  "baseline_off_cmd": "cd /repo && cargo test --workspace --no-fail-fast --offline", "source_commits": [], "add_only": True},
        "engines": [
            {"name": "a5facts", "path": "driver/", "serves_properties": [c["property_id"] for c in checks],
             "kind_free_text": "rustc_private driver (nightly) dumping typed MIR, resolved callees, compiler-evaluated constants, statics and ADTs of /repo as JSON"},
            {"name": "rules", "path": "analysis/", "serves_properties": [c["property_id"] for c in checks],
             "kind_free_text": "Python (stdlib) CFG/dominator/SSA-term layer and one rule pack per property; selftest/badcrate provides positive controls"},
        ],
        "checks": checks,
        "not_applicable": na,
        "notes": "Technique family: static analysis only. Every check re-extracts facts from /repo's working tree with a fresh target directory. "
                 "Known findings and fixed defects are listed in known_findings.json. See DESIGN.md.",
    }
    json.dump(m, open(os.path.join(V, "MANIFEST.json"), "w"), indent=1)
    print("checks:", [c["property_id"] for c in checks], "n/a:", [x["property_id"] for x in na])

main()
