#!/bin/bash
# verify_seed.sh <seed_dir (with patch.diff, demo.rs, meta.json)> <id>
# Confirms in a scratch worktree: (1) demo passes unpatched, (2) patched tree compiles and the existing suite passes,
# (3) demo fails patched.  On success stores the seed under /verif/seeded/<id>/ and removes the worktree.
set -u
SD="$(realpath "$1")"; ID="$2"
WT="/tmp/vseed.$$"
git -C /repo worktree add --detach "$WT" HEAD -f >/dev/null 2>&1 || exit 2
cp -r /repo/target "$WT/target" 2>/dev/null
cleanup() { git -C /repo worktree remove --force "$WT" >/dev/null 2>&1; rm -rf "$WT"; }
trap cleanup EXIT
cd "$WT"
cp "$SD/demo.rs" tests/seed_demo.rs
r1="$(cargo test --offline --test seed_demo 2>&1 | grep -E "^test result" | tail -1)"
echo "unpatched demo: $r1"
echo "$r1" | grep -q "ok\." || { echo "REJECT: demo does not pass on the unchanged tree"; exit 1; }
rm tests/seed_demo.rs
git apply "$SD/patch.diff" 2>/dev/null || git apply --3way "$SD/patch.diff" >/dev/null 2>&1 || { echo "REJECT: patch does not apply"; exit 1; }
r2="$(cargo test --offline 2>&1 | grep -E "^test result" | awk '{p+=$4; f+=$6} END {print p" passed "f" failed"}')"
echo "patched suite: $r2"
echo "$r2" | grep -q " 0 failed" || { echo "REJECT: existing suite fails with the patch"; exit 1; }
np="$(echo "$r2" | awk '{print $1}')"
[ "$np" -ge 150 ] || { echo "REJECT: fewer than 150 tests passed ($np)"; exit 1; }
cp "$SD/demo.rs" tests/seed_demo.rs
r3="$(cargo test --offline --test seed_demo 2>&1 | grep -E "^test result" | tail -1)"
echo "patched demo: $r3"
echo "$r3" | grep -q "FAILED" || { echo "REJECT: demo does not fail with the patch"; exit 1; }
mkdir -p /verif/seeded/$ID
cp "$SD/patch.diff" "$SD/demo.rs" /verif/seeded/$ID/
python3 - "$SD/meta.json" "/verif/seeded/$ID/meta.json" "$r1" "$r2" "$r3" <<'PY'
import json,sys
m=json.load(open(sys.argv[1]))
m["confirmed_by_framework_author"]={"unpatched_demo":sys.argv[3],"patched_existing_suite":sys.argv[4],"patched_demo":sys.argv[5],
  "how":"bin/verify_seed.sh in a scratch worktree of /repo (removed afterwards): cargo test --offline (all targets) and cargo test --offline --test seed_demo"}
json.dump(m,open(sys.argv[2],"w"),indent=1)
PY
echo "KEPT as seeded/$ID"
