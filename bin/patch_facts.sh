#!/bin/bash
# patch_facts.sh <corpus dir (benign|seeded)> : extract facts of /repo HEAD + each patch into out/pf/<corpus>/<id>.json
# (scratch worktree per patch, removed afterwards).  Speeds up rule development: analysis.main can then be run directly.
set -u
cd "$(dirname "$0")/.."
C="$1"; mkdir -p out/pf/$C
one() {
  s="$1"; C="$2"; WT="/tmp/pf.$$.$s"
  git -C /repo worktree add --detach "$WT" HEAD -f >/dev/null 2>&1 || return
  if git -C "$WT" apply "/verif/$C/$s/patch.diff" 2>/dev/null; then
    bin/extract.sh "$WT" "/verif/out/pf/$C/$s.json" dev a5 >/dev/null 2>&1 || echo "$s: extraction failed"
  else echo "$s: patch does not apply"; fi
  git -C /repo worktree remove --force "$WT" >/dev/null 2>&1
}
export -f one
ls $C | xargs -P 8 -I{} bash -c "one {} $C"
