#!/bin/bash
# extract.sh <crate_dir> <out.json> [dev|release] [crate_name]
# Runs the a5facts driver over the lib target of <crate_dir> with a fresh target dir.
set -euo pipefail
SRC="$1"; OUT="$(realpath -m "$2")"; PROFILE="${3:-dev}"; CRATE="${4:-a5}"
HERE="$(cd "$(dirname "$0")/.." && pwd)"
DRV="$HERE/driver/target/release/a5facts"
[ -x "$DRV" ] || { echo "driver not built: run ./setup.sh" >&2; exit 2; }
TD="$(mktemp -d -p "${TMPDIR:-/tmp}" a5facts.XXXXXX)"
trap 'rm -rf "$TD"' EXIT
rm -f "$OUT"
SYSROOT="$(rustc +nightly --print sysroot)"
FLAGS="-Zmir-opt-level=0 -Awarnings"
if [ "$PROFILE" = "release" ]; then
  FLAGS="$FLAGS -C overflow-checks=off -C debug-assertions=off"
else
  FLAGS="$FLAGS -C overflow-checks=on -C debug-assertions=on"
fi
( cd "$SRC" && \
  CARGO_NET_OFFLINE=true LD_LIBRARY_PATH="$SYSROOT/lib" RUSTFLAGS="$FLAGS" \
  RUSTC_WORKSPACE_WRAPPER="$DRV" CARGO_TARGET_DIR="$TD" A5FACTS_OUT="$OUT" A5FACTS_CRATE="$CRATE" \
  cargo +nightly check --offline --lib -q ) >"$TD/log" 2>&1 || { cat "$TD/log" >&2; exit 3; }
[ -s "$OUT" ] || { echo "facts file not produced" >&2; cat "$TD/log" >&2; exit 3; }
