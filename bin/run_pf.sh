#!/bin/bash
# run_pf.sh <corpus> <id|all> [props...] : run rule packs on pre-extracted patched facts (see patch_facts.sh)
cd "$(dirname "$0")/.."
C="$1"; ID="$2"; shift 2
PROPS="${*:-C01 C02 C04 C05 C06 C07 C08 C09 C11 C13 C14 C15 C17 C18 C19 C20}"
[ -f out/bad.json ] || bin/extract.sh selftest/badcrate out/bad.json dev badcrate
ids="$ID"; [ "$ID" = all ] && ids="$(ls out/pf/$C | sed 's/\.json$//')"
for s in $ids; do
  W=$(mktemp -d); cp out/pf/$C/$s.json $W/facts.json; cp out/bad.json $W/bad.json
  line=""
  for p in $PROPS; do
    out="$(A5_NOEVIDENCE=1 python3 -m analysis.main $p quick $W 2>&1)"; rc=$?
    if [ $rc -ne 0 ]; then line="$line $p[$(echo "$out" | grep -E '^FAIL|Error' | head -3 | awk '{print $2":"$3}' | tr '\n' ' ')]"; fi
  done
  printf "%-36s %s\n" "$s" "${line:- silent}"
  rm -rf $W
done
