#!/bin/bash
# mkworktree.sh <name> : scratch worktree of /repo under /tmp/seed/<name> with a warm target dir
set -e
D=/tmp/seed/$1
git -C /repo worktree add --detach "$D" HEAD -f >/dev/null 2>&1
cp -r /repo/target "$D/target" 2>/dev/null || true
echo "$D"
