#!/usr/bin/env python3
"""Generate reference/constants.json from a facts file of the PINNED tree (run once; the result is committed)."""
import json, sys, os
sys.path.insert(0, os.path.dirname(os.path.dirname(os.path.abspath(__file__))))
from analysis.facts import Facts
from analysis.rules.c06 import collect
facts = Facts(sys.argv[1])
out = collect(facts)
out["generated_from"] = sys.argv[2] if len(sys.argv) > 2 else "unknown"
json.dump(out, sys.stdout, indent=1, sort_keys=True)
