#!/bin/bash
# try_patch.sh <patch.diff> [props...] : apply to /repo, run the checks, undo.  Prints per-property verdicts.
set -u
P="$(realpath "$1")"; shift
cd /verif
PROPS="${*:-$(python3 -c "import json;print(' '.join(c['property_id'] for c in json.load(open('MANIFEST.json'))['checks']))")}"
git -C /repo apply --check "$P" || { echo "patch does not apply"; exit 2; }
git -C /repo apply "$P"
trap 'git -C /repo checkout -- . ; git -C /repo clean -fdq -- src' EXIT
for p in $PROPS; do
  out="$(./check $p quick 2>&1)"; rc=$?
  if [ $rc -ne 0 ]; then echo "== $p DETECTS (rc=$rc)"; echo "$out" | grep -E "^FAIL" | head -5; else echo "== $p silent"; fi
done
