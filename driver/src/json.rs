// Minimal JSON value + writer (no dependencies).
pub enum J {
    Null,
    Bool(bool),
    Num(i128),
    Str(String),
    Arr(Vec<J>),
    Obj(Vec<(String, J)>),
}

impl J {
    pub fn s<S: Into<String>>(s: S) -> J {
        J::Str(s.into())
    }
    pub fn n(n: i128) -> J {
        J::Num(n)
    }
    pub fn obj(v: Vec<(&str, J)>) -> J {
        J::Obj(v.into_iter().map(|(k, v)| (k.to_string(), v)).collect())
    }
    pub fn write(&self, out: &mut String) {
        match self {
            J::Null => out.push_str("null"),
            J::Bool(b) => out.push_str(if *b { "true" } else { "false" }),
            J::Num(n) => out.push_str(&n.to_string()),
            J::Str(s) => write_str(s, out),
            J::Arr(a) => {
                out.push('[');
                for (i, x) in a.iter().enumerate() {
                    if i > 0 {
                        out.push(',');
                    }
                    x.write(out);
                }
                out.push(']');
            }
            J::Obj(o) => {
                out.push('{');
                for (i, (k, v)) in o.iter().enumerate() {
                    if i > 0 {
                        out.push(',');
                    }
                    write_str(k, out);
                    out.push(':');
                    v.write(out);
                }
                out.push('}');
            }
        }
    }
}

fn write_str(s: &str, out: &mut String) {
    out.push('"');
    for c in s.chars() {
        match c {
            '"' => out.push_str("\\\""),
            '\\' => out.push_str("\\\\"),
            '\n' => out.push_str("\\n"),
            '\r' => out.push_str("\\r"),
            '\t' => out.push_str("\\t"),
            c if (c as u32) < 0x20 => out.push_str(&format!("\\u{:04x}", c as u32)),
            c => out.push(c),
        }
    }
    out.push('"');
}
