// a5facts: rustc_private driver that dumps the type-checked program of one crate
// (items, ADTs, statics, evaluated constants, typed MIR with resolved callees)
// as JSON for the rule packs in /verif/analysis.  Zero crate dependencies.
//
// Used as RUSTC_WORKSPACE_WRAPPER: argv[1] is the real rustc path and is dropped.
// Environment:
//   A5FACTS_OUT    path of the JSON file to write (required for the target crate)
//   A5FACTS_CRATE  crate name to dump (default "a5")
#![feature(rustc_private)]
#![allow(clippy::all)]

extern crate rustc_abi;
extern crate rustc_driver;
extern crate rustc_hir;
extern crate rustc_interface;
extern crate rustc_middle;
extern crate rustc_span;

mod json;
use json::J;

use rustc_driver::Compilation;
use rustc_hir::def::DefKind;
use rustc_hir::def_id::{DefId, LocalDefId, LOCAL_CRATE};
use rustc_middle::mir::{self, interpret::Scalar, ConstValue};
use rustc_middle::ty::{self, Ty, TyCtxt};
use rustc_span::Span;

struct Cb;

impl rustc_driver::Callbacks for Cb {
    fn after_analysis<'tcx>(
        &mut self,
        _c: &rustc_interface::interface::Compiler,
        tcx: TyCtxt<'tcx>,
    ) -> Compilation {
        let want = std::env::var("A5FACTS_CRATE").unwrap_or_else(|_| "a5".to_string());
        let name = tcx.crate_name(LOCAL_CRATE).to_string();
        if name != want {
            return Compilation::Continue;
        }
        // only the library target (cargo check --lib gives exactly one)
        let out = match std::env::var("A5FACTS_OUT") {
            Ok(p) => p,
            Err(_) => return Compilation::Continue,
        };
        let j = ty::print::with_no_trimmed_paths!(dump_crate(tcx, &name));
        let mut s = String::new();
        j.write(&mut s);
        std::fs::write(&out, s).expect("cannot write facts file");
        Compilation::Continue
    }
}

fn main() {
    let mut args: Vec<String> = std::env::args().collect();
    // RUSTC_WORKSPACE_WRAPPER passes the real rustc as argv[1]
    if args.len() > 1 && (args[1].ends_with("rustc") || args[1].contains("/rustc")) {
        args.remove(1);
    }
    rustc_driver::run_compiler(&args, &mut Cb);
}

// ---------------------------------------------------------------------------

struct Cx<'tcx> {
    tcx: TyCtxt<'tcx>,
    krate: String,
    sizes: std::cell::RefCell<std::collections::BTreeMap<String, u64>>,
    // concrete instantiations of local generic functions met at call sites: (callee, generic arguments, name of the copy)
    mono: std::cell::RefCell<Vec<(DefId, ty::GenericArgsRef<'tcx>, String)>>,
}

fn dump_crate<'tcx>(tcx: TyCtxt<'tcx>, name: &str) -> J {
    let cx = Cx { tcx, krate: name.to_string(), sizes: Default::default(), mono: Default::default() };
    let mut adts = vec![];
    let mut statics = vec![];
    let mut consts = vec![];
    let mut fns = vec![];
    let mut items = vec![];

    for ldid in tcx.hir_crate_items(()).definitions() {
        let did = ldid.to_def_id();
        let kind = tcx.def_kind(did);
        items.push(J::obj(vec![
            ("path", J::s(cx.path(did))),
            ("kind", J::s(format!("{:?}", kind))),
        ]));
        match kind {
            DefKind::Struct | DefKind::Enum | DefKind::Union => adts.push(cx.dump_adt(did)),
            DefKind::Static { .. } => statics.push(cx.dump_static(ldid)),
            DefKind::Const { .. } | DefKind::AssocConst { .. } => {
                if let Some(j) = cx.dump_const(ldid) {
                    consts.push(j)
                }
            }
            _ => {}
        }
    }

    for &ldid in tcx.mir_keys(()) {
        let did = ldid.to_def_id();
        let kind = tcx.def_kind(did);
        match kind {
            DefKind::Fn | DefKind::AssocFn | DefKind::Closure => {
                let body = tcx.optimized_mir(did);
                fns.push(cx.dump_body(ldid, body, &format!("{:?}", kind), None));
            }
            DefKind::Static { .. } => {
                let body = tcx.mir_for_ctfe(did);
                fns.push(cx.dump_body(ldid, body, "StaticInit", None));
            }
            _ => {}
        }
    }

    // monomorphic copies of local generic functions, one per concrete instantiation used at a call site (the generic
    // body cannot name what `F: FnMut` or `I: IntoIterator` stand for; the copy can).  Copies may call further ones.
    let mut mi = 0;
    while mi < cx.mono.borrow().len() && mi < 64 {
        let (d, a, nm) = cx.mono.borrow()[mi].clone();
        mi += 1;
        if let Some(ld) = d.as_local() {
            let body = tcx.optimized_mir(d);
            let inst = ty::Instance::new_raw(d, a);
            let b2 = inst.instantiate_mir_and_normalize_erasing_regions(
                tcx,
                ty::TypingEnv::fully_monomorphized(),
                ty::EarlyBinder::bind(body.clone()),
            );
            let mut j = cx.dump_body(ld, &b2, "Fn", None);
            if let J::Obj(ref mut v) = j {
                for (k, val) in v.iter_mut() {
                    if k == "path" {
                        *val = J::s(nm.clone());
                    }
                }
                v.push(("mono_of".to_string(), J::s(cx.path(d))));
            }
            fns.push(j);
        }
    }

    // re-exports and public items at the crate root (API census)
    let mut root = vec![];
    for ch in tcx.module_children_local(rustc_hir::def_id::CRATE_DEF_ID) {
        let target = ch.res.opt_def_id().map(|d| cx.path(d)).unwrap_or_default();
        let kind = ch.res.opt_def_id().map(|d| format!("{:?}", tcx.def_kind(d))).unwrap_or_default();
        root.push(J::obj(vec![
            ("name", J::s(ch.ident.name.to_string())),
            ("target", J::s(target)),
            ("kind", J::s(kind)),
            ("public", J::Bool(ch.vis.is_public())),
            ("reexport", J::Bool(!ch.reexport_chain.is_empty())),
        ]));
    }

    let unsafe_blocks = cx.unsafe_blocks();

    // trait impls (for the census of `unsafe impl Send/Sync`)
    let mut impls = vec![];
    for ldid in tcx.hir_crate_items(()).definitions() {
        let did = ldid.to_def_id();
        if let DefKind::Impl { of_trait: true } = tcx.def_kind(did) {
            let h = tcx.impl_trait_header(did);
            let tr = h.trait_ref.instantiate_identity().skip_norm_wip();
            impls.push(J::obj(vec![
                ("trait", J::s(tcx.def_path_str(tr.def_id))),
                ("self_ty", J::s(format!("{}", tr.self_ty()))),
                ("unsafe", J::Bool(matches!(h.safety, rustc_hir::Safety::Unsafe))),
                ("from_expansion", J::Bool(tcx.def_span(did).from_expansion())),
                ("span", cx.span(tcx.def_span(did))),
            ]));
        }
    }

    let opts = &tcx.sess.opts;
    let type_sizes = {
        let m = cx.sizes.borrow();
        J::Obj(m.iter().map(|(k, v)| (k.clone(), J::n(*v as i128))).collect())
    };
    J::obj(vec![
        ("crate", J::s(name)),
        ("rustc", J::s(rustc_interface::util::rustc_version_str().unwrap_or("?"))),
        (
            "opts",
            J::obj(vec![
                ("overflow_checks", J::Bool(tcx.sess.overflow_checks())),
                ("debug_assertions", J::Bool(opts.debug_assertions)),
                ("opt_level", J::s(format!("{:?}", opts.optimize))),
                ("mir_opt_level", J::n(tcx.sess.mir_opt_level() as i128)),
                ("test", J::Bool(opts.test)),
            ]),
        ),
        ("items", J::Arr(items)),
        ("root", J::Arr(root)),
        ("type_sizes", type_sizes),
        ("adts", J::Arr(adts)),
        ("statics", J::Arr(statics)),
        ("consts", J::Arr(consts)),
        ("unsafe_blocks", J::Arr(unsafe_blocks)),
        ("impls", J::Arr(impls)),
        ("fns", J::Arr(fns)),
    ])
}

impl<'tcx> Cx<'tcx> {
    fn path(&self, did: DefId) -> String {
        let p = self.tcx.def_path_str(did);
        if did.is_local() {
            format!("{}::{}", self.krate, p)
        } else {
            p
        }
    }

    fn span(&self, sp: Span) -> J {
        let sm = self.tcx.sess.source_map();
        let exp = sp.from_expansion();
        let call = if exp { sp.source_callsite() } else { sp };
        let lo = sm.lookup_char_pos(call.lo());
        let file = match &lo.file.name {
            rustc_span::FileName::Real(r) => r
                .local_path()
                .map(|p| p.display().to_string())
                .unwrap_or_else(|| format!("{:?}", lo.file.name)),
            other => format!("{:?}", other),
        };
        let mut v = vec![
            ("file", J::s(file)),
            ("line", J::n(lo.line as i128)),
            ("col", J::n(lo.col.0 as i128 + 1)),
        ];
        if exp {
            let ed = sp.ctxt().outer_expn_data();
            let mac = match ed.kind {
                rustc_span::ExpnKind::Macro(_, name) => name.to_string(),
                ref k => format!("{:?}", k),
            };
            let mcrate = ed.macro_def_id.map(|d| self.tcx.crate_name(d.krate).to_string()).unwrap_or_default();
            v.push(("exp", J::s(mac)));
            v.push(("exp_crate", J::s(mcrate)));
        }
        J::obj(v)
    }

    fn ty_str(&self, t: Ty<'tcx>) -> String {
        // local ADTs print without the crate prefix; make them unambiguous
        format!("{}", t)
    }

    fn ty(&self, t: Ty<'tcx>) -> J {
        J::s(self.ty_str(t))
    }

    /// byte sizes of every fully concrete type mentioned in a local's type (the compiler's own layout)
    fn note_sizes(&self, t: Ty<'tcx>) {
        use rustc_middle::ty::TypeVisitableExt;
        for arg in t.walk() {
            if let Some(ty_) = arg.as_type() {
                if ty_.has_param() || ty_.has_escaping_bound_vars() || ty_.has_infer() || ty_.has_aliases() {
                    continue;
                }
                let key = self.ty_str(ty_);
                if self.sizes.borrow().contains_key(&key) {
                    continue;
                }
                let env = ty::TypingEnv::fully_monomorphized();
                if let Ok(l) = self.tcx.layout_of(env.as_query_input(ty_)) {
                    if l.is_sized() {
                        self.sizes.borrow_mut().insert(key, l.size.bytes());
                    }
                }
            }
        }
    }

    fn vis(&self, did: DefId) -> String {
        match self.tcx.def_kind(did) {
            DefKind::Fn | DefKind::AssocFn | DefKind::Static { .. } | DefKind::Const { .. }
            | DefKind::Struct | DefKind::Enum | DefKind::AssocConst { .. } => {
                let v = self.tcx.visibility(did);
                if v.is_public() { "pub".into() } else { format!("{:?}", v) }
            }
            _ => "n/a".into(),
        }
    }

    // ---------------- ADTs
    fn dump_adt(&self, did: DefId) -> J {
        let tcx = self.tcx;
        let adt = tcx.adt_def(did);
        let mut variants = vec![];
        for (vidx, v) in adt.variants().iter_enumerated() {
            let mut fields = vec![];
            for f in v.fields.iter() {
                let fty = tcx.type_of(f.did).instantiate_identity().skip_norm_wip();
                fields.push(J::obj(vec![
                    ("name", J::s(f.name.to_string())),
                    ("ty", self.ty(fty)),
                    ("vis", J::s(if f.vis.is_public() { "pub".to_string() } else { format!("{:?}", f.vis) })),
                ]));
            }
            let discr = if adt.is_enum() {
                J::s(adt.discriminant_for_variant(tcx, vidx).val.to_string())
            } else {
                J::Null
            };
            variants.push(J::obj(vec![
                ("name", J::s(v.name.to_string())),
                ("idx", J::n(vidx.as_u32() as i128)),
                ("discr", discr),
                ("fields", J::Arr(fields)),
            ]));
        }
        J::obj(vec![
            ("path", J::s(self.path(did))),
            ("kind", J::s(format!("{:?}", adt.adt_kind()))),
            ("vis", J::s(self.vis(did))),
            ("span", self.span(tcx.def_span(did))),
            ("variants", J::Arr(variants)),
        ])
    }

    // ---------------- statics
    fn dump_static(&self, ldid: LocalDefId) -> J {
        let tcx = self.tcx;
        let did = ldid.to_def_id();
        let (mutable, nested) = match tcx.def_kind(did) {
            DefKind::Static { mutability, nested, .. } => (mutability.is_mut(), nested),
            _ => (false, false),
        };
        let t = tcx.type_of(did).instantiate_identity().skip_norm_wip();
        let freeze = t.is_freeze(tcx, ty::TypingEnv::fully_monomorphized());
        // immutable plain-data statics have a compile-time value, like a const (pointer-free initialisers only)
        let mut value = J::Null;
        if !mutable && freeze && !tcx.is_thread_local_static(did) {
            if let Ok(alloc) = tcx.eval_static_initializer(did) {
                let a = alloc.inner();
                if a.provenance().ptrs().is_empty() {
                    let bytes = a.inspect_with_uninit_and_ptr_outside_interpreter(0..a.len());
                    value = self.decode(bytes, 0, t);
                }
            }
        }
        J::obj(vec![
            ("path", J::s(self.path(did))),
            ("ty", self.ty(t)),
            ("value", value),
            ("mutable", J::Bool(mutable)),
            ("nested", J::Bool(nested)),
            ("thread_local", J::Bool(tcx.is_thread_local_static(did))),
            ("freeze", J::Bool(freeze)),
            ("vis", J::s(self.vis(did))),
            ("span", self.span(tcx.def_span(did))),
        ])
    }

    // ---------------- constants
    fn dump_const(&self, ldid: LocalDefId) -> Option<J> {
        let tcx = self.tcx;
        let did = ldid.to_def_id();
        // generic consts cannot be evaluated polymorphically
        if tcx.generics_of(did).requires_monomorphization(tcx) {
            return None;
        }
        let t = tcx.type_of(did).instantiate_identity().skip_norm_wip();
        let val = match tcx.const_eval_poly(did) {
            Ok(v) => self.const_value(v, t),
            Err(_) => J::obj(vec![("k", J::s("error"))]),
        };
        Some(J::obj(vec![
            ("path", J::s(self.path(did))),
            ("ty", self.ty(t)),
            ("vis", J::s(self.vis(did))),
            ("span", self.span(tcx.def_span(did))),
            ("value", val),
        ]))
    }

    fn const_value(&self, v: ConstValue, t: Ty<'tcx>) -> J {
        let tcx = self.tcx;
        match v {
            ConstValue::Scalar(s) => self.scalar(s, t),
            ConstValue::ZeroSized => match t.kind() {
                ty::FnDef(did, args) => self.fn_ref(*did, args, None),
                _ => J::obj(vec![("k", J::s("zst")), ("ty", self.ty(t))]),
            },
            ConstValue::Slice { alloc_id, meta } => {
                let alloc = tcx.global_alloc(alloc_id).unwrap_memory();
                let a = alloc.inner();
                let inner = match t.kind() {
                    ty::Ref(_, inner, _) => *inner,
                    _ => return J::obj(vec![("k", J::s("opaque"))]),
                };
                match inner.kind() {
                    ty::Str => {
                        let bytes = a.inspect_with_uninit_and_ptr_outside_interpreter(0..meta as usize);
                        J::obj(vec![("k", J::s("str")), ("v", J::s(String::from_utf8_lossy(bytes).to_string()))])
                    }
                    ty::Slice(el) => {
                        let mut items = vec![];
                        if let Ok(l) = tcx.layout_of(ty::TypingEnv::fully_monomorphized().as_query_input(*el)) {
                            let sz = l.size.bytes() as usize;
                            let all = a.inspect_with_uninit_and_ptr_outside_interpreter(0..a.len());
                            for i in 0..meta as usize {
                                items.push(self.decode(all, i * sz, *el));
                            }
                        }
                        J::obj(vec![("k", J::s("slice")), ("v", J::Arr(items))])
                    }
                    _ => J::obj(vec![("k", J::s("opaque"))]),
                }
            }
            ConstValue::Indirect { alloc_id, offset } => {
                let alloc = tcx.global_alloc(alloc_id).unwrap_memory();
                let a = alloc.inner();
                let all = a.inspect_with_uninit_and_ptr_outside_interpreter(0..a.len());
                self.decode(all, offset.bytes() as usize, t)
            }
        }
    }

    fn scalar(&self, s: Scalar, t: Ty<'tcx>) -> J {
        let tcx = self.tcx;
        match s {
            Scalar::Int(si) => {
                let size = si.size();
                let bits = si.to_bits(size);
                self.scalar_bits(bits, size.bytes() as usize, t)
            }
            Scalar::Ptr(p, _) => {
                let (prov, off) = p.into_raw_parts();
                let aid = prov.alloc_id();
                match tcx.global_alloc(aid) {
                    mir::interpret::GlobalAlloc::Static(did) => J::obj(vec![
                        ("k", J::s("static_ref")),
                        ("path", J::s(self.path(did))),
                    ]),
                    mir::interpret::GlobalAlloc::Memory(alloc) => {
                        let a = alloc.inner();
                        let all = a.inspect_with_uninit_and_ptr_outside_interpreter(0..a.len());
                        match t.kind() {
                            ty::Ref(_, inner, _) | ty::RawPtr(inner, _) if inner.is_sized(tcx, ty::TypingEnv::fully_monomorphized()) => J::obj(vec![
                                ("k", J::s("ref")),
                                ("v", self.decode(all, off.bytes() as usize, *inner)),
                            ]),
                            _ => J::obj(vec![("k", J::s("ptr"))]),
                        }
                    }
                    mir::interpret::GlobalAlloc::Function { instance } => J::obj(vec![
                        ("k", J::s("fnptr")),
                        ("path", J::s(self.path(instance.def_id()))),
                    ]),
                    _ => J::obj(vec![("k", J::s("ptr"))]),
                }
            }
        }
    }

    fn scalar_bits(&self, bits: u128, nbytes: usize, t: Ty<'tcx>) -> J {
        match t.kind() {
            ty::Bool => J::obj(vec![("k", J::s("bool")), ("v", J::Bool(bits != 0))]),
            ty::Int(_) => {
                let sh = 128 - 8 * nbytes as u32;
                let v = ((bits << sh) as i128) >> sh;
                J::obj(vec![("k", J::s("int")), ("v", J::s(v.to_string())), ("ty", self.ty(t))])
            }
            ty::Uint(_) => J::obj(vec![("k", J::s("int")), ("v", J::s(bits.to_string())), ("ty", self.ty(t))]),
            ty::Char => J::obj(vec![("k", J::s("char")), ("v", J::s(bits.to_string()))]),
            ty::Float(ft) => {
                let (hex, repr) = match ft.bit_width() {
                    64 => (format!("{:016x}", bits as u64), format!("{:?}", f64::from_bits(bits as u64))),
                    32 => (format!("{:08x}", bits as u32), format!("{:?}", f32::from_bits(bits as u32))),
                    _ => (format!("{:x}", bits), String::new()),
                };
                J::obj(vec![("k", J::s("float")), ("bits", J::s(hex)), ("v", J::s(repr)), ("ty", self.ty(t))])
            }
            ty::Adt(adt, args) if adt.is_struct() => {
                // scalar-ABI newtype: descend into the single non-zero-sized field
                let tcx = self.tcx;
                let env = ty::TypingEnv::fully_monomorphized();
                let v = adt.non_enum_variant();
                let mut fields = vec![];
                let mut nonzst = 0;
                for f in v.fields.iter() {
                    let fty = f.ty(tcx, args);
                    let sz = tcx.layout_of(env.as_query_input(fty)).map(|l| l.size.bytes()).unwrap_or(0);
                    if sz > 0 {
                        nonzst += 1;
                        fields.push((f.name.to_string(), self.scalar_bits(bits, nbytes, fty)));
                    }
                }
                if nonzst == 1 {
                    J::Obj(vec![
                        ("k".to_string(), J::s("struct")),
                        ("adt".to_string(), J::s(self.path(adt.did()))),
                        ("fields".to_string(), J::Obj(fields)),
                    ])
                } else {
                    J::obj(vec![("k", J::s("bits")), ("v", J::s(bits.to_string())), ("ty", self.ty(t))])
                }
            }
            _ => J::obj(vec![("k", J::s("bits")), ("v", J::s(bits.to_string())), ("ty", self.ty(t))]),
        }
    }

    fn read_bits(bytes: &[u8], off: usize, n: usize) -> Option<u128> {
        if n > 16 || off + n > bytes.len() {
            return None;
        }
        let mut v: u128 = 0;
        for i in 0..n {
            v |= (bytes[off + i] as u128) << (8 * i);
        }
        Some(v)
    }

    // decode a value of type t at byte offset off of a constant allocation
    fn decode(&self, bytes: &[u8], off: usize, t: Ty<'tcx>) -> J {
        let tcx = self.tcx;
        let env = ty::TypingEnv::fully_monomorphized();
        let layout = match tcx.layout_of(env.as_query_input(t)) {
            Ok(l) => l,
            Err(_) => return J::obj(vec![("k", J::s("opaque"))]),
        };
        match t.kind() {
            ty::Bool | ty::Int(_) | ty::Uint(_) | ty::Char | ty::Float(_) => {
                let n = layout.size.bytes() as usize;
                match Self::read_bits(bytes, off, n) {
                    Some(b) => self.scalar_bits(b, n, t),
                    None => J::obj(vec![("k", J::s("opaque"))]),
                }
            }
            ty::Array(el, _) => {
                let count = match &layout.fields {
                    rustc_abi::FieldsShape::Array { count, .. } => *count as usize,
                    _ => 0,
                };
                let stride = match &layout.fields {
                    rustc_abi::FieldsShape::Array { stride, .. } => stride.bytes() as usize,
                    _ => 0,
                };
                let mut items = vec![];
                for i in 0..count {
                    items.push(self.decode(bytes, off + i * stride, *el));
                }
                J::obj(vec![("k", J::s("array")), ("v", J::Arr(items))])
            }
            ty::Tuple(tys) => {
                let mut items = vec![];
                for (i, ft) in tys.iter().enumerate() {
                    let fo = layout.fields.offset(i).bytes() as usize;
                    items.push(self.decode(bytes, off + fo, ft));
                }
                J::obj(vec![("k", J::s("tuple")), ("v", J::Arr(items))])
            }
            ty::Adt(adt, args) if adt.is_struct() => {
                let v = adt.non_enum_variant();
                let mut fields = vec![];
                for (i, f) in v.fields.iter().enumerate() {
                    let fty = f.ty(tcx, args);
                    let fo = layout.fields.offset(i).bytes() as usize;
                    fields.push((f.name.to_string(), self.decode(bytes, off + fo, fty)));
                }
                J::Obj(vec![
                    ("k".to_string(), J::s("struct")),
                    ("adt".to_string(), J::s(self.path(adt.did()))),
                    ("fields".to_string(), J::Obj(fields)),
                ])
            }
            ty::Adt(adt, _args) if adt.is_enum() => {
                // only field-less enums with a direct tag
                match &layout.variants {
                    rustc_abi::Variants::Multiple { tag, tag_encoding: rustc_abi::TagEncoding::Direct, tag_field, .. } => {
                        let n = tag.size(&tcx).bytes() as usize;
                        let fo = layout.fields.offset(tag_field.as_usize()).bytes() as usize;
                        let bits = match Self::read_bits(bytes, off + fo, n) {
                            Some(b) => b,
                            None => return J::obj(vec![("k", J::s("opaque"))]),
                        };
                        for (vidx, d) in adt.discriminants(tcx) {
                            let mask = if n >= 16 { u128::MAX } else { (1u128 << (8 * n)) - 1 };
                            if d.val & mask == bits {
                                let v = adt.variant(vidx);
                                if v.fields.is_empty() {
                                    return J::obj(vec![
                                        ("k", J::s("enum")),
                                        ("adt", J::s(self.path(adt.did()))),
                                        ("variant", J::s(v.name.to_string())),
                                        ("discr", J::s(bits.to_string())),
                                    ]);
                                }
                            }
                        }
                        J::obj(vec![("k", J::s("opaque"))])
                    }
                    rustc_abi::Variants::Single { index } => {
                        let v = adt.variant(*index);
                        J::obj(vec![
                            ("k", J::s("enum")),
                            ("adt", J::s(self.path(adt.did()))),
                            ("variant", J::s(v.name.to_string())),
                        ])
                    }
                    _ => J::obj(vec![("k", J::s("opaque"))]),
                }
            }
            _ => J::obj(vec![("k", J::s("opaque")), ("ty", self.ty(t))]),
        }
    }

    fn fn_ref(&self, did: DefId, args: ty::GenericArgsRef<'tcx>, caller: Option<DefId>) -> J {
        let tcx = self.tcx;
        let mut v = vec![
            ("k", J::s("fn")),
            ("path", J::s(self.path(did))),
            ("inst", J::s(tcx.def_path_str_with_args(did, args))),
            ("local", J::Bool(did.is_local())),
            ("crate", J::s(tcx.crate_name(did.krate).to_string())),
        ];
        if let Some(c) = caller {
            let env = ty::TypingEnv::post_analysis(tcx, c);
            if let Ok(Some(inst)) = ty::Instance::try_resolve(tcx, env, did, args) {
                let rd = inst.def_id();
                v.push(("resolved", J::s(self.path(rd))));
                v.push(("resolved_inst", J::s(tcx.def_path_str_with_args(rd, inst.args))));
                v.push(("resolved_local", J::Bool(rd.is_local())));
                v.push(("resolved_kind", J::s(format!("{:?}", inst.def).split(['(', ' ', '{']).next().unwrap_or("").to_string())));
                use rustc_middle::ty::TypeVisitableExt;
                if rd.is_local()
                    && matches!(inst.def, ty::InstanceKind::Item(_))
                    && matches!(tcx.def_kind(rd), DefKind::Fn | DefKind::AssocFn)
                    && inst.args.non_erasable_generics().next().is_some()
                    && !inst.args.has_non_region_param()
                {
                    let key = tcx.def_path_str_with_args(rd, inst.args);
                    let mut m = self.mono.borrow_mut();
                    let found = m.iter().position(|(d, a, _)| *d == rd && tcx.def_path_str_with_args(*d, *a) == key);
                    let idx = match found {
                        Some(i) => i,
                        None => {
                            let i = m.len();
                            m.push((rd, inst.args, format!("{}::{{mono#{}}}", self.path(rd), i)));
                            i
                        }
                    };
                    v.push(("mono", J::s(m[idx].2.clone())));
                }
            }
        }
        J::obj(v)
    }

    // ---------------- MIR bodies
    fn dump_body(&self, ldid: LocalDefId, body: &mir::Body<'tcx>, kind: &str, promoted_idx: Option<usize>) -> J {
        let tcx = self.tcx;
        let did = ldid.to_def_id();
        let mut locals = vec![];
        let mut names: Vec<Option<String>> = vec![None; body.local_decls.len()];
        for vdi in &body.var_debug_info {
            if let mir::VarDebugInfoContents::Place(p) = &vdi.value {
                if p.projection.is_empty() {
                    names[p.local.as_usize()] = Some(vdi.name.to_string());
                }
            }
        }
        for (l, d) in body.local_decls.iter_enumerated() {
            self.note_sizes(d.ty);
            let mut v = vec![("ty", self.ty(d.ty)), ("mut", J::Bool(d.mutability.is_mut()))];
            if let Some(n) = &names[l.as_usize()] {
                v.push(("name", J::s(n.clone())));
            }
            locals.push(J::obj(v));
        }
        // closure captures through debuginfo (projection on _1)
        let mut upvars = vec![];
        for vdi in &body.var_debug_info {
            if let mir::VarDebugInfoContents::Place(p) = &vdi.value {
                if !p.projection.is_empty() {
                    upvars.push(J::obj(vec![
                        ("name", J::s(vdi.name.to_string())),
                        ("place", self.place(body, *p)),
                    ]));
                }
            }
        }

        let mut blocks = vec![];
        for (_bb, data) in body.basic_blocks.iter_enumerated() {
            let mut stmts = vec![];
            for st in &data.statements {
                if let Some(j) = self.stmt(body, did, st) {
                    stmts.push(j);
                }
            }
            let term = self.term(body, did, data.terminator());
            blocks.push(J::obj(vec![
                ("cleanup", J::Bool(data.is_cleanup)),
                ("stmts", J::Arr(stmts)),
                ("term", term),
            ]));
        }

        let mut promoted = vec![];
        if promoted_idx.is_none() && kind != "StaticInit" {
            for (pi, pb) in tcx.promoted_mir(did).iter_enumerated() {
                promoted.push(self.dump_body(ldid, pb, "Promoted", Some(pi.as_usize())));
            }
        }

        let mut v = vec![
            ("path", J::s(match promoted_idx {
                Some(i) => format!("{}::promoted[{}]", self.path(did), i),
                None => self.path(did),
            })),
            ("kind", J::s(kind)),
            ("vis", J::s(self.vis(did))),
            ("span", self.span(body.span)),
            ("arg_count", J::n(body.arg_count as i128)),
            ("ret_ty", self.ty(body.local_decls[mir::RETURN_PLACE].ty)),
            ("locals", J::Arr(locals)),
            ("upvars", J::Arr(upvars)),
            ("blocks", J::Arr(blocks)),
            ("promoted", J::Arr(promoted)),
        ];
        if matches!(tcx.def_kind(did), DefKind::Fn | DefKind::AssocFn) {
            v.push(("const_fn", J::Bool(tcx.is_const_fn(did))));
            if let Some(parent) = tcx.opt_parent(did) {
                v.push(("parent", J::s(self.path(parent))));
                if let DefKind::Impl { of_trait } = tcx.def_kind(parent) {
                    v.push(("trait_impl", J::Bool(of_trait)));
                }
            }
        }
        J::obj(v)
    }

    fn place(&self, body: &mir::Body<'tcx>, p: mir::Place<'tcx>) -> J {
        let tcx = self.tcx;
        let mut proj = vec![];
        let mut pty = mir::PlaceTy::from_ty(body.local_decls[p.local].ty);
        for elem in p.projection.iter() {
            let j = match elem {
                mir::ProjectionElem::Deref => J::obj(vec![("k", J::s("deref")), ("of", self.ty(pty.ty))]),
                mir::ProjectionElem::Field(f, fty) => {
                    let mut v = vec![("k", J::s("field")), ("i", J::n(f.as_u32() as i128)), ("ty", self.ty(fty))];
                    if let ty::Adt(adt, _) = pty.ty.kind() {
                        let variant = match pty.variant_index {
                            Some(vi) => adt.variant(vi),
                            None if !adt.is_enum() => adt.non_enum_variant(),
                            None => adt.variant(rustc_abi::VariantIdx::from_u32(0)),
                        };
                        if let Some(fd) = variant.fields.iter().nth(f.as_usize()) {
                            v.push(("name", J::s(fd.name.to_string())));
                        }
                        v.push(("adt", J::s(self.path(adt.did()))));
                    }
                    J::obj(v)
                }
                mir::ProjectionElem::Index(l) => J::obj(vec![("k", J::s("index")), ("local", J::n(l.as_u32() as i128)), ("of", self.ty(pty.ty))]),
                mir::ProjectionElem::ConstantIndex { offset, min_length, from_end } => J::obj(vec![
                    ("k", J::s("cindex")),
                    ("offset", J::n(offset as i128)),
                    ("min_length", J::n(min_length as i128)),
                    ("from_end", J::Bool(from_end)),
                    ("of", self.ty(pty.ty)),
                ]),
                mir::ProjectionElem::Subslice { from, to, from_end } => J::obj(vec![
                    ("k", J::s("subslice")),
                    ("from", J::n(from as i128)),
                    ("to", J::n(to as i128)),
                    ("from_end", J::Bool(from_end)),
                ]),
                mir::ProjectionElem::Downcast(name, vi) => J::obj(vec![
                    ("k", J::s("downcast")),
                    ("variant", J::s(name.map(|s| s.to_string()).unwrap_or_default())),
                    ("idx", J::n(vi.as_u32() as i128)),
                ]),
                mir::ProjectionElem::OpaqueCast(t) => J::obj(vec![("k", J::s("opaque_cast")), ("ty", self.ty(t))]),
                mir::ProjectionElem::UnwrapUnsafeBinder(t) => J::obj(vec![("k", J::s("unwrap_binder")), ("ty", self.ty(t))]),
            };
            proj.push(j);
            pty = pty.projection_ty(tcx, elem);
        }
        J::obj(vec![
            ("local", J::n(p.local.as_u32() as i128)),
            ("proj", J::Arr(proj)),
            ("ty", self.ty(pty.ty)),
        ])
    }

    fn operand(&self, body: &mir::Body<'tcx>, owner: DefId, op: &mir::Operand<'tcx>) -> J {
        match op {
            mir::Operand::Copy(p) => J::obj(vec![("k", J::s("copy")), ("place", self.place(body, *p))]),
            mir::Operand::Move(p) => J::obj(vec![("k", J::s("move")), ("place", self.place(body, *p))]),
            mir::Operand::Constant(c) => self.constant(owner, c),
            mir::Operand::RuntimeChecks(rc) => J::obj(vec![("k", J::s("runtime_checks")), ("which", J::s(format!("{:?}", rc)))]),
        }
    }

    fn constant(&self, owner: DefId, c: &mir::ConstOperand<'tcx>) -> J {
        let tcx = self.tcx;
        let t = c.const_.ty();
        let mut v = vec![("k", J::s("const")), ("ty", self.ty(t))];
        match c.const_ {
            mir::Const::Val(cv, ty) => v.push(("value", match (cv, ty.kind()) {
                (ConstValue::ZeroSized, ty::FnDef(did, args)) => self.fn_ref(*did, args, Some(owner)),
                _ => self.const_value(cv, ty),
            })),
            mir::Const::Unevaluated(uv, ty) => {
                if let Some(p) = uv.promoted {
                    v.push(("promoted", J::n(p.as_u32() as i128)));
                    v.push(("promoted_of", J::s(self.path(uv.def))));
                } else {
                    v.push(("named", J::s(self.path(uv.def))));
                    let env = ty::TypingEnv::post_analysis(tcx, owner);
                    if let Ok(cv) = tcx.const_eval_resolve(env, uv, c.span) {
                        v.push(("value", self.const_value(cv, ty)));
                    }
                }
            }
            mir::Const::Ty(ty, ct) => {
                v.push(("tyconst", J::s(format!("{:?}", ct))));
                if let Some(vt) = ct.try_to_value() {
                    if let Some(si) = vt.try_to_leaf() {
                        let size = si.size();
                        v.push(("value", self.scalar_bits(si.to_bits(size), size.bytes() as usize, ty)));
                    }
                }
            }
        }
        J::obj(v)
    }

    fn rvalue(&self, body: &mir::Body<'tcx>, owner: DefId, rv: &mir::Rvalue<'tcx>) -> J {
        let tcx = self.tcx;
        match rv {
            mir::Rvalue::Use(op, _) => J::obj(vec![("k", J::s("use")), ("op", self.operand(body, owner, op))]),
            mir::Rvalue::Repeat(op, n) => {
                let cnt = n.try_to_target_usize(tcx).map(|x| J::n(x as i128)).unwrap_or(J::Null);
                J::obj(vec![("k", J::s("repeat")), ("op", self.operand(body, owner, op)), ("n", cnt)])
            }
            mir::Rvalue::Ref(_, bk, p) => J::obj(vec![
                ("k", J::s("ref")),
                ("mut", J::Bool(matches!(bk, mir::BorrowKind::Mut { .. }))),
                ("place", self.place(body, *p)),
            ]),
            mir::Rvalue::ThreadLocalRef(did) => J::obj(vec![("k", J::s("tls_ref")), ("path", J::s(self.path(*did)))]),
            mir::Rvalue::RawPtr(k, p) => J::obj(vec![
                ("k", J::s("rawptr")),
                ("kind", J::s(format!("{:?}", k))),
                ("place", self.place(body, *p)),
            ]),
            mir::Rvalue::Cast(ck, op, t) => J::obj(vec![
                ("k", J::s("cast")),
                ("kind", J::s(format!("{:?}", ck).split('(').next().unwrap_or("").to_string())),
                ("detail", J::s(format!("{:?}", ck))),
                ("op", self.operand(body, owner, op)),
                ("from", self.ty(op.ty(body, tcx))),
                ("to", self.ty(*t)),
            ]),
            mir::Rvalue::BinaryOp(bop, ops) => J::obj(vec![
                ("k", J::s("binop")),
                ("op", J::s(format!("{:?}", bop))),
                ("a", self.operand(body, owner, &ops.0)),
                ("b", self.operand(body, owner, &ops.1)),
                ("ty", self.ty(ops.0.ty(body, tcx))),
            ]),
            mir::Rvalue::UnaryOp(uop, op) => J::obj(vec![
                ("k", J::s("unop")),
                ("op", J::s(format!("{:?}", uop))),
                ("a", self.operand(body, owner, op)),
                ("ty", self.ty(op.ty(body, tcx))),
            ]),
            mir::Rvalue::Discriminant(p) => J::obj(vec![("k", J::s("discr")), ("place", self.place(body, *p))]),
            mir::Rvalue::Aggregate(kind, ops) => {
                let mut v = vec![("k", J::s("aggregate"))];
                match &**kind {
                    mir::AggregateKind::Array(t) => {
                        v.push(("agg", J::s("array")));
                        v.push(("elem_ty", self.ty(*t)));
                    }
                    mir::AggregateKind::Tuple => v.push(("agg", J::s("tuple"))),
                    mir::AggregateKind::Adt(did, vidx, _args, _, _) => {
                        v.push(("agg", J::s("adt")));
                        v.push(("adt", J::s(self.path(*did))));
                        let adt = tcx.adt_def(*did);
                        let var = adt.variant(*vidx);
                        v.push(("variant", J::s(var.name.to_string())));
                        v.push(("variant_idx", J::n(vidx.as_u32() as i128)));
                        v.push(("fields", J::Arr(var.fields.iter().map(|f| J::s(f.name.to_string())).collect())));
                    }
                    mir::AggregateKind::Closure(did, _) => {
                        v.push(("agg", J::s("closure")));
                        v.push(("closure", J::s(self.path(*did))));
                    }
                    mir::AggregateKind::RawPtr(t, m) => {
                        v.push(("agg", J::s("rawptr")));
                        v.push(("elem_ty", self.ty(*t)));
                        v.push(("mut", J::Bool(m.is_mut())));
                    }
                    other => v.push(("agg", J::s(format!("{:?}", other)))),
                }
                v.push(("ops", J::Arr(ops.iter().map(|o| self.operand(body, owner, o)).collect())));
                J::obj(v)
            }
            mir::Rvalue::CopyForDeref(p) => J::obj(vec![("k", J::s("use")), ("op", J::obj(vec![("k", J::s("copy")), ("place", self.place(body, *p))]))]),
            mir::Rvalue::WrapUnsafeBinder(op, _) => J::obj(vec![("k", J::s("use")), ("op", self.operand(body, owner, op))]),
        }
    }

    fn stmt(&self, body: &mir::Body<'tcx>, owner: DefId, st: &mir::Statement<'tcx>) -> Option<J> {
        let sp = self.span(st.source_info.span);
        match &st.kind {
            mir::StatementKind::Assign(b) => {
                let (p, rv) = &**b;
                Some(J::obj(vec![
                    ("k", J::s("assign")),
                    ("place", self.place(body, *p)),
                    ("rv", self.rvalue(body, owner, rv)),
                    ("span", sp),
                ]))
            }
            mir::StatementKind::SetDiscriminant { place, variant_index } => Some(J::obj(vec![
                ("k", J::s("set_discr")),
                ("place", self.place(body, **place)),
                ("variant_idx", J::n(variant_index.as_u32() as i128)),
                ("span", sp),
            ])),
            mir::StatementKind::StorageLive(l) => Some(J::obj(vec![("k", J::s("live")), ("local", J::n(l.as_u32() as i128))])),
            mir::StatementKind::StorageDead(l) => Some(J::obj(vec![("k", J::s("dead")), ("local", J::n(l.as_u32() as i128))])),
            mir::StatementKind::Intrinsic(i) => match &**i {
                mir::NonDivergingIntrinsic::Assume(op) => Some(J::obj(vec![("k", J::s("assume")), ("op", self.operand(body, owner, op)), ("span", sp)])),
                mir::NonDivergingIntrinsic::CopyNonOverlapping(c) => Some(J::obj(vec![
                    ("k", J::s("copy_nonoverlapping")),
                    ("src", self.operand(body, owner, &c.src)),
                    ("dst", self.operand(body, owner, &c.dst)),
                    ("count", self.operand(body, owner, &c.count)),
                    ("span", sp),
                ])),
            },
            _ => None,
        }
    }

    fn term(&self, body: &mir::Body<'tcx>, owner: DefId, t: &mir::Terminator<'tcx>) -> J {
        let sp = self.span(t.source_info.span);
        let unwind = |u: &mir::UnwindAction| match u {
            mir::UnwindAction::Cleanup(bb) => J::n(bb.as_u32() as i128),
            _ => J::Null,
        };
        match &t.kind {
            mir::TerminatorKind::Goto { target } => J::obj(vec![("k", J::s("goto")), ("target", J::n(target.as_u32() as i128))]),
            mir::TerminatorKind::SwitchInt { discr, targets } => {
                let mut ts = vec![];
                for (v, bb) in targets.iter() {
                    ts.push(J::Arr(vec![J::s(v.to_string()), J::n(bb.as_u32() as i128)]));
                }
                J::obj(vec![
                    ("k", J::s("switch")),
                    ("discr", self.operand(body, owner, discr)),
                    ("discr_ty", self.ty(discr.ty(body, self.tcx))),
                    ("targets", J::Arr(ts)),
                    ("otherwise", J::n(targets.otherwise().as_u32() as i128)),
                    ("span", sp),
                ])
            }
            mir::TerminatorKind::Return => J::obj(vec![("k", J::s("return")), ("span", sp)]),
            mir::TerminatorKind::Unreachable => J::obj(vec![("k", J::s("unreachable")), ("span", sp)]),
            mir::TerminatorKind::UnwindResume => J::obj(vec![("k", J::s("resume"))]),
            mir::TerminatorKind::UnwindTerminate(_) => J::obj(vec![("k", J::s("terminate"))]),
            mir::TerminatorKind::Drop { place, target, unwind: u, .. } => J::obj(vec![
                ("k", J::s("drop")),
                ("place", self.place(body, *place)),
                ("target", J::n(target.as_u32() as i128)),
                ("unwind", unwind(u)),
                ("span", sp),
            ]),
            mir::TerminatorKind::Call { func, args, destination, target, unwind: u, fn_span, .. } => {
                let f = match func {
                    mir::Operand::Constant(c) => match c.const_.ty().kind() {
                        ty::FnDef(did, gargs) => self.fn_ref(*did, gargs, Some(owner)),
                        _ => self.operand(body, owner, func),
                    },
                    _ => self.operand(body, owner, func),
                };
                J::obj(vec![
                    ("k", J::s("call")),
                    ("func", f),
                    ("args", J::Arr(args.iter().map(|a| self.operand(body, owner, &a.node)).collect())),
                    ("dest", self.place(body, *destination)),
                    ("target", target.map(|b| J::n(b.as_u32() as i128)).unwrap_or(J::Null)),
                    ("unwind", unwind(u)),
                    ("span", sp),
                    ("fn_span", self.span(*fn_span)),
                ])
            }
            mir::TerminatorKind::TailCall { func, args, .. } => J::obj(vec![
                ("k", J::s("tailcall")),
                ("func", self.operand(body, owner, func)),
                ("args", J::Arr(args.iter().map(|a| self.operand(body, owner, &a.node)).collect())),
                ("span", sp),
            ]),
            mir::TerminatorKind::Assert { cond, expected, msg, target, unwind: u } => {
                let (mk, ops): (String, Vec<J>) = match &**msg {
                    mir::AssertKind::BoundsCheck { len, index } => ("BoundsCheck".into(), vec![self.operand(body, owner, len), self.operand(body, owner, index)]),
                    mir::AssertKind::Overflow(op, a, b) => (format!("Overflow:{:?}", op), vec![self.operand(body, owner, a), self.operand(body, owner, b)]),
                    mir::AssertKind::OverflowNeg(a) => ("OverflowNeg".into(), vec![self.operand(body, owner, a)]),
                    mir::AssertKind::DivisionByZero(a) => ("DivisionByZero".into(), vec![self.operand(body, owner, a)]),
                    mir::AssertKind::RemainderByZero(a) => ("RemainderByZero".into(), vec![self.operand(body, owner, a)]),
                    mir::AssertKind::MisalignedPointerDereference { .. } => ("MisalignedPointerDereference".into(), vec![]),
                    mir::AssertKind::NullPointerDereference => ("NullPointerDereference".into(), vec![]),
                    mir::AssertKind::InvalidEnumConstruction(a) => ("InvalidEnumConstruction".into(), vec![self.operand(body, owner, a)]),
                    other => (format!("{:?}", std::mem::discriminant(other)), vec![]),
                };
                J::obj(vec![
                    ("k", J::s("assert")),
                    ("cond", self.operand(body, owner, cond)),
                    ("expected", J::Bool(*expected)),
                    ("msg", J::s(mk)),
                    ("ops", J::Arr(ops)),
                    ("target", J::n(target.as_u32() as i128)),
                    ("unwind", unwind(u)),
                    ("span", sp),
                ])
            }
            other => J::obj(vec![("k", J::s("other")), ("text", J::s(format!("{:?}", other))), ("span", sp)]),
        }
    }

    // ---------------- user-written unsafe blocks (HIR)
    fn unsafe_blocks(&self) -> Vec<J> {
        use rustc_hir::intravisit::{self, Visitor};
        struct V<'a, 'tcx> {
            cx: &'a Cx<'tcx>,
            out: Vec<J>,
        }
        impl<'a, 'tcx> Visitor<'tcx> for V<'a, 'tcx> {
            type NestedFilter = rustc_middle::hir::nested_filter::OnlyBodies;
            fn maybe_tcx(&mut self) -> TyCtxt<'tcx> {
                self.cx.tcx
            }
            fn visit_block(&mut self, b: &'tcx rustc_hir::Block<'tcx>) {
                if let rustc_hir::BlockCheckMode::UnsafeBlock(src) = b.rules {
                    let owner = self.cx.tcx.hir_enclosing_body_owner(b.hir_id);
                    self.out.push(J::obj(vec![
                        ("fn", J::s(self.cx.path(owner.to_def_id()))),
                        ("source", J::s(format!("{:?}", src))),
                        ("from_expansion", J::Bool(b.span.from_expansion())),
                        ("span", self.cx.span(b.span)),
                    ]));
                }
                intravisit::walk_block(self, b);
            }
        }
        let mut v = V { cx: self, out: vec![] };
        self.tcx.hir_visit_all_item_likes_in_crate(&mut v);
        v.out
    }
}
