#!/bin/bash
# Builds the fact-extraction driver (nightly rustc_private, zero dependencies), offline.
set -euo pipefail
cd "$(dirname "$0")"
export CARGO_NET_OFFLINE=true
( cd driver && cargo +nightly build --release --offline -q )
test -x driver/target/release/a5facts
echo "setup ok"
